#![no_main]
use libfuzzer_sys::fuzz_target;
use std::sync::atomic::{AtomicU64, Ordering};

static RUNS: AtomicU64 = AtomicU64::new(0);
static NONTRIVIAL: AtomicU64 = AtomicU64::new(0);

extern "C" fn report() {
    // read by fuzz_stage.sh
    eprintln!("verif-stat: runs={} nontrivial={}", RUNS.load(Ordering::Relaxed), NONTRIVIAL.load(Ordering::Relaxed));
}

extern "C" {
    fn atexit(f: extern "C" fn()) -> i32;
}

fuzz_target!(|data: &[u8]| {
    if RUNS.fetch_add(1, Ordering::Relaxed) == 0 {
        unsafe { atexit(report) };
    }
    if comp::fuzz_entry::c16_reassembler(data) {
        NONTRIVIAL.fetch_add(1, Ordering::Relaxed);
    }
});
