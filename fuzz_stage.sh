#!/usr/bin/env bash
# Coverage-guided stage (libFuzzer through cargo-fuzz) of a property: fixed number of runs per target, fresh corpus
# seeded from the repository's sample files, in-target differential / model oracle. Appends its statistics to the
# evidence file of the property. usage: fuzz_stage.sh <ID> <quick|thorough>
# exit 0 = nothing found, 1 = violation (VIOLATION line printed), 2 = harness failure
set -u
unset CARGO_TARGET_DIR
ROOT="$(cd "$(dirname "${BASH_SOURCE[0]}")" && pwd)"
ID="$1"; TIER="$2"
SEED=$(( ${VERIF_SEED:-0} + 1 ))   # libFuzzer: 0 means "random"
case "$ID" in
  C05) TARGETS="c05_frames c05_datagram" ;;
  C14) TARGETS="c14_params" ;;
  C16) TARGETS="c16_reassembler" ;;
  *) exit 0 ;;
esac
export CARGO_NET_OFFLINE=true VERIF_ROOT="$ROOT"
[ -f "$ROOT/fuzz/Cargo.lock" ] || cp "$ROOT/harness/Cargo.lock" "$ROOT/fuzz/Cargo.lock"
log="$(mktemp)"
# shellcheck disable=SC2086
if ! ( cd "$ROOT/fuzz" && for t in $TARGETS; do cargo +nightly fuzz build --fuzz-dir "$ROOT/fuzz" $t >"$log" 2>&1 || exit 1; done ); then
  echo "harness error: fuzz build failed" >&2; tail -n 40 "$log" >&2; rm -f "$log"; exit 2
fi
rm -f "$log"
OUT="$ROOT/out/fuzz"; mkdir -p "$OUT"
stats="[]"
rc=0
for t in $TARGETS; do
  corpus="$OUT/$t/corpus"; art="$OUT/$t/artifacts/"
  rm -rf "$corpus"; mkdir -p "$corpus" "$art"
  # seeds: the repository's own sample encodings (frames / packets), one file each; plus an empty-ish input
  case "$t" in
    c05_frames) cp /repo/quic/s2n-quic-core/src/frame/test_samples/*.bin "$corpus"/ 2>/dev/null ;;
    c05_datagram) for f in /repo/quic/s2n-quic-core/src/packet/test_samples/*.bin; do [ -f "$f" ] && { printf '\x08'; cat "$f"; } > "$corpus/$(basename "$f")"; done ;;
  esac
  printf '\x00\x01\x02\x03\x04\x05' > "$corpus/seed0"
  seeds=$(ls "$corpus" | wc -l)
  # fixed work per target (measured: frames ~3k exec/s, datagram ~12k, params ~3k, reassembler ~0.3k on a loaded machine)
  case "$t:$TIER" in
    c05_frames:quick) RUNS=60000 ;; c05_frames:*) RUNS=6000000 ;;
    c05_datagram:quick) RUNS=120000 ;; c05_datagram:*) RUNS=20000000 ;;
    c14_params:quick) RUNS=60000 ;; c14_params:*) RUNS=6000000 ;;
    c16_reassembler:quick) RUNS=6000 ;; *) RUNS=600000 ;;
  esac
  bin="$ROOT/fuzz/target/x86_64-unknown-linux-gnu/release/$t"
  flog="$OUT/$t/log.txt"
  "$bin" "$corpus" -runs="$RUNS" -seed="$SEED" -max_len=2048 -len_control=0 -artifact_prefix="$art" -print_final_stats=1 -timeout=20 >"$flog" 2>&1
  e=$?
  execs=$(grep -o "stat::number_of_executed_units: [0-9]*" "$flog" | grep -o "[0-9]*$" | tail -1)
  cov=$(grep -o "cov: [0-9]*" "$flog" | tail -1 | grep -o "[0-9]*")
  ft=$(grep -o "ft: [0-9]*" "$flog" | tail -1 | grep -o "[0-9]*")
  nt=$(grep -o "verif-stat: runs=[0-9]* nontrivial=[0-9]*" "$flog" | tail -1 | grep -o "nontrivial=[0-9]*" | grep -o "[0-9]*")
  corp=$(ls "$corpus" | wc -l)
  echo "  fuzz $t: runs=${execs:-0} nontrivial=${nt:-0} cov=${cov:-0} features=${ft:-0} corpus=$corp seeds=$seeds seed=$SEED exit=$e"
  stats=$(python3 - "$stats" "$t" "${execs:-0}" "${nt:-0}" "${cov:-0}" "${ft:-0}" "$corp" "$seeds" "$SEED" <<'PY'
import json,sys
s=json.loads(sys.argv[1]); s.append({"target":sys.argv[2],"engine":"libFuzzer (cargo-fuzz, nightly), in-target oracle = the same differential / model oracle as the generated sub-checks","executions":int(sys.argv[3]),"nontrivial_executions":int(sys.argv[4]),"coverage_edges":int(sys.argv[5]),"features":int(sys.argv[6]),"corpus_files_at_end":int(sys.argv[7]),"seed_files":int(sys.argv[8]),"libfuzzer_seed":int(sys.argv[9])}); print(json.dumps(s))
PY
)
  if [ $e -ne 0 ]; then
    crash=$(ls -t "$art" 2>/dev/null | head -1)
    if grep -q "VERIF-VIOLATION" "$flog"; then
      grep -o "VERIF-VIOLATION|[^|]*|.*" "$flog" | head -1 | cut -c1-600
      echo "VIOLATION property=$ID replay=$art$crash"
      rc=1
    elif grep -q "panicked at /repo\|panicked at .*s2n-quic" "$flog"; then
      grep "panicked at" "$flog" | head -2 | cut -c1-400
      echo "VIOLATION property=$ID replay=$art$crash"
      rc=1
    else
      echo "harness error: fuzz target $t ended with status $e (see $flog)" >&2
      tail -5 "$flog" >&2
      [ $rc -eq 0 ] && rc=2
    fi
  fi
done
# append to the evidence file written by the generated stage
python3 - "$ROOT/evidence/$ID.json" "$stats" <<'PY'
import json,sys
p=sys.argv[1]
try:
    d=json.load(open(p))
except Exception:
    sys.exit(0)
d.setdefault("coverage",{})["fuzz"]=json.loads(sys.argv[2])
json.dump(d,open(p,"w"),indent=1)
PY
exit $rc
