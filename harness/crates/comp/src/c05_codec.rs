//! C05 — "Wire codecs are total, round-trip exactly and follow the RFC 9000 layout".
//!
//! Differential of s2n-quic-core's codecs against `refquic` (written from the RFC text only):
//! varints, frames (typed values and arbitrary bytes), protected packet headers, truncated
//! packet numbers and transport-parameter blocks.
//!
//! Latitude list (either outcome accepted, each counted as a class):
//! * `latitude:nonminimal-type` — RFC 9000 §12.4: "An endpoint MAY treat the receipt of a
//!   frame type that uses a longer encoding than necessary as a connection error of type
//!   PROTOCOL_VIOLATION."
//! * `skip:s2n-extension` — frame types 0xdc0000 / 0xdc0002 and transport parameters
//!   0xdc0000 / 0xdc0002 are s2n-quic's private extensions (outside RFC 9000/9221).
//! * `deferred:*` / `invalid-rejected:*` — the input is wire-well-formed but breaks a
//!   validity rule (`refquic::InvalidKind`); the RFC requires a connection error, not that it
//!   is raised by the decoder, so s2n may reject it while decoding or in a later layer.
//! * headers: versions other than 1 (only RFC 8999 applies), Version Negotiation with
//!   connection ids > 20 bytes (RFC 8999 allows 255, a v1 client can never match them),
//!   Initial packets with connection ids > 20 bytes (s2n validates them after version
//!   negotiation), empty Retry token / empty version list (validity rules).
//! * transport parameters: everything about value *ranges*, roles and duplicates (C14).

use proptest::collection::vec as pvec;
use proptest::prelude::*;
use refquic::frame::FRAME_NAMES;
use refquic::{
    decode_varint, encode_frame, encode_frame_opts, encode_varint, parse_frame_ext, varint_len,
    EncodeOpts, InvalidKind, RefEcn, RefError, RefFrame, VARINT_MAX,
};
use s2n_codec::{
    DecoderBuffer, DecoderBufferMut, Encoder, EncoderBuffer, EncoderLenEstimator, EncoderValue,
};
use s2n_quic_core::{frame::FrameMut, varint::VarInt};
use serde::{Deserialize, Serialize};
use std::sync::OnceLock;
use vcore::{
    ensure_that, fail, gen::*, CaseResult, EnumCheck, Fail, Obs, PropCheck, Property, SubCheck,
    Tier,
};

// ---------------------------------------------------------------------------------------
// shared helpers

const CANARY: u8 = 0xA5;

/// Encodes `v` with s2n three ways (exactly sized buffer, oversized buffer, length
/// estimator) and checks: announced size == bytes written == `expect.len()`, the bytes are
/// `expect`, nothing outside the buffer handed to the encoder is touched.
fn s2n_encode_checked<T: EncoderValue>(v: &T, expect: &[u8], what: &str) -> CaseResult {
    let announced = v.encoding_size();
    ensure_that!(
        announced == expect.len(),
        format!("{what}:announced-size"),
        "encoding_size() = {announced}, reference encoding has {} bytes ({})",
        expect.len(),
        hex(expect)
    );
    let mut est = EncoderLenEstimator::new(usize::MAX);
    est.encode(v);
    ensure_that!(
        est.len() == expect.len(),
        format!("{what}:estimator-size"),
        "EncoderLenEstimator counted {} bytes, reference encoding has {}",
        est.len(),
        expect.len()
    );
    for extra in [0usize, 3, 9, 24] {
        let n = expect.len();
        let mut mem = vec![CANARY; n + extra + 16];
        let (buf, guard) = mem.split_at_mut(n + extra);
        let written = {
            let mut enc = EncoderBuffer::new(buf);
            ensure_that!(
                v.encoding_size_for_encoder(&enc) == n,
                format!("{what}:announced-size"),
                "encoding_size_for_encoder (capacity {}) = {}, reference {}",
                n + extra,
                v.encoding_size_for_encoder(&enc),
                n
            );
            enc.encode(v);
            enc.len()
        };
        ensure_that!(
            written == n,
            format!("{what}:written-size"),
            "encoder wrote {written} bytes into a buffer of {} but announced {n}",
            n + extra
        );
        ensure_that!(
            &buf[..n] == expect,
            format!("{what}:bytes"),
            "s2n encodes {} but the reference encoding is {} (buffer capacity {})",
            hex(&buf[..n]),
            hex(expect),
            n + extra
        );
        ensure_that!(
            guard.iter().all(|b| *b == CANARY),
            format!("{what}:out-of-bounds-write"),
            "encoder wrote beyond the end of its buffer (capacity {})",
            n + extra
        );
    }
    Ok(())
}

fn s2n_to_vec<T: EncoderValue>(v: &T) -> Vec<u8> {
    let mut est = EncoderLenEstimator::new(usize::MAX);
    est.encode(v);
    let mut out = vec![0u8; est.len()];
    let mut enc = EncoderBuffer::new(&mut out);
    enc.encode(v);
    out
}

fn hex(b: &[u8]) -> String {
    let mut s = String::with_capacity(b.len() * 2 + 8);
    for (i, x) in b.iter().enumerate() {
        if i == 96 {
            s.push_str(&format!("…(+{} bytes)", b.len() - 96));
            break;
        }
        s.push_str(&format!("{x:02x}"));
    }
    s
}

fn repo_root() -> String {
    std::env::var("VERIF_REPO").unwrap_or_else(|_| "/repo".to_string())
}

fn load_samples(dir: &str) -> Vec<(String, Vec<u8>)> {
    let path = format!("{}/quic/s2n-quic-core/src/{dir}/test_samples", repo_root());
    let mut v: Vec<(String, Vec<u8>)> = std::fs::read_dir(&path)
        .map(|rd| {
            rd.filter_map(|e| e.ok())
                .filter(|e| e.path().extension().map(|x| x == "bin").unwrap_or(false))
                .filter_map(|e| {
                    let name = e.file_name().to_string_lossy().to_string();
                    std::fs::read(e.path()).ok().map(|b| (name, b))
                })
                .collect()
        })
        .unwrap_or_default();
    v.sort();
    v
}

fn frame_samples() -> &'static Vec<(String, Vec<u8>)> {
    static S: OnceLock<Vec<(String, Vec<u8>)>> = OnceLock::new();
    S.get_or_init(|| load_samples("frame"))
}

fn packet_samples() -> &'static Vec<(String, Vec<u8>)> {
    static S: OnceLock<Vec<(String, Vec<u8>)>> = OnceLock::new();
    S.get_or_init(|| load_samples("packet"))
}

/// Byte-level edits applied to a valid message (family 3 of the design).
#[derive(Clone, Debug, Hash, PartialEq, Eq, Serialize, Deserialize)]
pub enum Mutation {
    Flip { pos: u16, bit: u8 },
    Set { pos: u16, val: u8 },
    Insert { pos: u16, val: u8 },
    Delete { pos: u16 },
    Truncate { keep: u16 },
    /// +-1 on the last byte of the `which`-th length field of the message
    LenDelta { which: u16, up: bool },
    /// repeat `len` bytes starting at `pos`
    Dup { pos: u16, len: u8 },
}

fn mutation_strategy() -> BoxedStrategy<Mutation> {
    prop_oneof![
        4 => (any::<u16>(), 0u8..8).prop_map(|(pos, bit)| Mutation::Flip { pos, bit }),
        3 => (any::<u16>(), prop_oneof![any::<u8>(), Just(0u8), Just(0xff), Just(0x40), Just(0x80), Just(0xc0)])
            .prop_map(|(pos, val)| Mutation::Set { pos, val }),
        2 => (any::<u16>(), any::<u8>()).prop_map(|(pos, val)| Mutation::Insert { pos, val }),
        2 => any::<u16>().prop_map(|pos| Mutation::Delete { pos }),
        2 => any::<u16>().prop_map(|keep| Mutation::Truncate { keep }),
        3 => (any::<u16>(), any::<bool>()).prop_map(|(which, up)| Mutation::LenDelta { which, up }),
        1 => (any::<u16>(), 1u8..9).prop_map(|(pos, len)| Mutation::Dup { pos, len }),
    ]
    .boxed()
}

/// `len_fields`: positions (in the unmutated message) of the last byte of each length field
fn apply_mutations(bytes: &mut Vec<u8>, len_fields: &[usize], muts: &[Mutation]) {
    for m in muts {
        let n = bytes.len();
        match *m {
            Mutation::Flip { pos, bit } if n > 0 => bytes[pick_index(pos, n)] ^= 1 << (bit & 7),
            Mutation::Set { pos, val } if n > 0 => bytes[pick_index(pos, n)] = val,
            Mutation::Insert { pos, val } => bytes.insert(pick_index(pos, n + 1), val),
            Mutation::Delete { pos } if n > 0 => {
                bytes.remove(pick_index(pos, n));
            }
            Mutation::Truncate { keep } => bytes.truncate(pick_index(keep, n + 1)),
            Mutation::LenDelta { which, up } if !len_fields.is_empty() => {
                let p = len_fields[pick_index(which, len_fields.len())];
                if p < n {
                    bytes[p] = if up { bytes[p].wrapping_add(1) } else { bytes[p].wrapping_sub(1) };
                }
            }
            Mutation::Dup { pos, len } if n > 0 => {
                let p = pick_index(pos, n);
                let e = (p + len as usize).min(n);
                let chunk = bytes[p..e].to_vec();
                let tail = bytes.split_off(e);
                bytes.extend_from_slice(&chunk);
                bytes.extend_from_slice(&tail);
            }
            _ => {}
        }
    }
}

fn bumps_strategy() -> BoxedStrategy<Vec<u8>> {
    prop_oneof![
        3 => Just(vec![]),
        2 => pvec(prop_oneof![3 => Just(0u8), 1 => 1u8..4], 1..6),
    ]
    .boxed()
}

// ---------------------------------------------------------------------------------------
// sub-check `varint`

#[derive(Clone, Debug, Hash, PartialEq, Eq, Serialize, Deserialize)]
pub enum VarintCase {
    Bytes(Vec<u8>),
    Value(u64),
}

fn varint_oracle(case: &VarintCase, obs: &mut Obs) -> CaseResult {
    match case {
        VarintCase::Bytes(b) => {
            let r = decode_varint(b);
            let s = DecoderBuffer::new(b).decode::<VarInt>();
            let mut copy = b.clone();
            let total = b.len();
            let m = DecoderBufferMut::new(&mut copy)
                .decode::<VarInt>()
                .map(|(v, rest)| (v, total - rest.len()));
            match (&r, &s) {
                (Ok((v, n)), Ok((sv, rest))) => {
                    ensure_that!(sv.as_u64() == *v, "varint:decode-value", "bytes {}: s2n decodes {}, reference {v}", hex(b), sv.as_u64());
                    ensure_that!(b.len() - rest.len() == *n, "varint:decode-consumed", "bytes {}: s2n consumed {}, reference {n}", hex(b), b.len() - rest.len());
                    let mv = m.as_ref().ok();
                    ensure_that!(mv.map(|(v, n)| (v.as_u64(), *n)) == Some((*v, *n)), "varint:decode-mut-differs", "bytes {}: DecoderBufferMut gives {:?}, DecoderBuffer {v}/{n}", hex(b), mv);
                    // the encoder emits the shortest form of what was decoded
                    let mut min = vec![];
                    encode_varint(*v, &mut min);
                    s2n_encode_checked(sv, &min, "varint")?;
                    obs.nontrivial(true);
                    obs.class(match n { 1 => "decode:1-byte", 2 => "decode:2-byte", 4 => "decode:4-byte", _ => "decode:8-byte" });
                    obs.class_if(min.len() != *n, "decode:non-minimal");
                }
                (Err(_), Err(_)) => {
                    ensure_that!(m.is_err(), "varint:decode-mut-differs", "bytes {}: DecoderBufferMut accepts, DecoderBuffer rejects", hex(b));
                    obs.class("decode:truncated");
                }
                (Ok((v, n)), Err(e)) => fail!("varint:s2n-rejects-valid", "bytes {}: reference decodes {v} ({n} bytes), s2n fails with {e:?}", hex(b)),
                (Err(e), Ok((sv, _))) => fail!("varint:s2n-accepts-malformed", "bytes {}: reference fails with {e:?}, s2n decodes {}", hex(b), sv.as_u64()),
            }
        }
        VarintCase::Value(v) => {
            let s = VarInt::new(*v);
            if *v > VARINT_MAX {
                ensure_that!(s.is_err(), "varint:range", "VarInt::new({v}) succeeded above 2^62-1");
                obs.class("value:out-of-range");
                return Ok(());
            }
            let Ok(s) = s else { fail!("varint:range", "VarInt::new({v}) failed for a value <= 2^62-1") };
            let mut min = vec![];
            encode_varint(*v, &mut min);
            ensure_that!(s.encoding_size() == varint_len(*v), "varint:announced-size", "encoding_size({v}) = {}, shortest form has {} bytes", s.encoding_size(), varint_len(*v));
            s2n_encode_checked(&s, &min, "varint")?;
            let back = DecoderBuffer::new(&min).decode::<VarInt>();
            match back {
                Ok((b, rest)) => ensure_that!(b == s && rest.is_empty(), "varint:round-trip", "{v} encodes to {} which decodes to {}", hex(&min), b.as_u64()),
                Err(e) => fail!("varint:round-trip", "{v} encodes to {} which fails to decode: {e:?}", hex(&min)),
            }
            obs.nontrivial(true);
            obs.class(match min.len() { 1 => "value:1-byte", 2 => "value:2-byte", 4 => "value:4-byte", _ => "value:8-byte" });
        }
    }
    Ok(())
}

fn varint_strategy(_t: Tier) -> BoxedStrategy<VarintCase> {
    prop_oneof![
        4 => varint_value().prop_map(VarintCase::Value),
        1 => prop_oneof![Just(VARINT_MAX + 1), Just(u64::MAX), (VARINT_MAX..=u64::MAX)].prop_map(VarintCase::Value),
        3 => pvec(any::<u8>(), 0..10).prop_map(VarintCase::Bytes),
        // a boundary value in every width, possibly cut short or extended
        4 => (varint_value(), 0usize..4, 0usize..10, any::<u8>()).prop_map(|(v, w, keep, pad)| {
            let mut b = vec![];
            let width = (varint_len(v) << w).min(8);
            refquic::encode_varint_width(v, width, &mut b);
            b.push(pad);
            b.truncate(keep.max(1).min(b.len()));
            VarintCase::Bytes(b)
        }),
    ]
    .boxed()
}

const VARINT_ENUM_FILL: [u8; 4] = [0x00, 0xff, 0x80, 0x01];

fn varint_enum_total(_t: Tier) -> u64 {
    256 + 65536 + 256 * 9 * 4
}

fn varint_enum_case(_t: Tier, i: u64) -> VarintCase {
    if i < 256 {
        return VarintCase::Bytes(vec![i as u8]);
    }
    let i = i - 256;
    if i < 65536 {
        return VarintCase::Bytes(vec![(i >> 8) as u8, i as u8]);
    }
    let i = i - 65536;
    let first = (i % 256) as u8;
    let len = 1 + ((i / 256) % 9) as usize;
    let fill = VARINT_ENUM_FILL[(i / (256 * 9)) as usize];
    let mut b = vec![fill; len];
    b[0] = first;
    VarintCase::Bytes(b)
}

// ---------------------------------------------------------------------------------------
// typed frame generator

fn vi() -> BoxedStrategy<u64> {
    varint_value()
}

fn stream_id() -> BoxedStrategy<u64> {
    prop_oneof![3 => 0u64..16, 2 => vi()].boxed()
}

fn payload() -> BoxedStrategy<Vec<u8>> {
    prop_oneof![
        9 => pvec(any::<u8>(), 0..20),
        // lengths around the 1/2-byte boundary of the length prefix
        3 => (62usize..67, any::<u64>()).prop_map(|(n, k)| prf_vec(k, 0, n)),
        // ... and around the 2/4-byte boundary
        1 => (16382usize..16386, any::<u64>()).prop_map(|(n, k)| prf_vec(k, 0, n)),
    ]
    .boxed()
}

fn offset_for_data() -> BoxedStrategy<u64> {
    prop_oneof![4 => vi(), 2 => 0u64..100_000, 1 => (0u64..70).prop_map(|b| VARINT_MAX - b)].boxed()
}

fn ack_strategy() -> BoxedStrategy<RefFrame> {
    let small = || prop_oneof![5 => 0u64..4, 3 => 0u64..300, 1 => vi()];
    let count = prop_oneof![6 => 0usize..4, 3 => 4usize..20, 1 => 20usize..65];
    (
        prop_oneof![2 => vi(), 4 => 1000u64..100_000_000, 1 => (0u64..1000).prop_map(|b| VARINT_MAX - b)],
        vi(),
        prop_oneof![3 => small().boxed(), 1 => vi()],
        count.prop_flat_map(move |n| pvec((small(), small()), n)),
        prop::option::weighted(0.4, (vi(), vi(), vi())),
        prop::bool::weighted(0.12),
    )
        .prop_map(|(largest, delay, first, raw, ecn, adversarial)| {
            let ecn = ecn.map(|(ect0, ect1, ce)| RefEcn { ect0, ect1, ce });
            if adversarial {
                return RefFrame::Ack { largest, delay, first_range: first, ranges: raw, ecn };
            }
            // clamp so that no computed packet number is negative (§19.3.1)
            let first = first.min(largest);
            let mut smallest = largest - first;
            let mut ranges = vec![];
            for (gap, len) in raw {
                if smallest < 2 {
                    break;
                }
                let gap = gap.min(smallest - 2);
                let l = smallest - gap - 2;
                let len = len.min(l);
                smallest = l - len;
                ranges.push((gap, len));
            }
            RefFrame::Ack { largest, delay, first_range: first, ranges, ecn }
        })
        .boxed()
}

fn max_streams_value() -> BoxedStrategy<u64> {
    prop_oneof![
        4 => 0u64..1000,
        2 => Just(1u64 << 60),
        1 => Just((1u64 << 60) + 1),
        1 => Just((1u64 << 60) - 1),
        2 => vi().prop_map(|v| v.min(1 << 60)),
        1 => vi(),
    ]
    .boxed()
}

fn new_connection_id_strategy() -> BoxedStrategy<RefFrame> {
    (
        vi(),
        any::<u64>(),
        prop::bool::weighted(0.1),
        prop_oneof![
            10 => pvec(any::<u8>(), 1..21),
            1 => Just(vec![]),
            1 => pvec(any::<u8>(), 21..30),
            1 => any::<u64>().prop_map(|k| prf_vec(k, 0, 255)),
        ],
        any::<[u8; 16]>(),
    )
        .prop_map(|(seq, k, wild, cid, reset_token)| {
            let retire_prior_to = if wild { k & VARINT_MAX } else { k % (seq + 1) };
            RefFrame::NewConnectionId { seq, retire_prior_to, cid, reset_token }
        })
        .boxed()
}

/// one frame of every type with equal weight (ACK twice: with and without ECN happen inside)
fn frame_strategy() -> BoxedStrategy<RefFrame> {
    prop_oneof![
        prop_oneof![4 => 1usize..6, 1 => 6usize..80].prop_map(|len| RefFrame::Padding { len }),
        Just(RefFrame::Ping),
        ack_strategy(),
        ack_strategy(),
        (stream_id(), vi(), vi()).prop_map(|(stream_id, error_code, final_size)| RefFrame::ResetStream { stream_id, error_code, final_size }),
        (stream_id(), vi()).prop_map(|(stream_id, error_code)| RefFrame::StopSending { stream_id, error_code }),
        (offset_for_data(), payload()).prop_map(|(offset, data)| RefFrame::Crypto { offset, data }),
        prop_oneof![12 => payload(), 1 => Just(vec![])].prop_map(|token| RefFrame::NewToken { token }),
        (
            stream_id(),
            prop_oneof![3 => Just(None), 1 => Just(Some(0u64)), 4 => offset_for_data().prop_map(Some)],
            any::<bool>(),
            any::<bool>(),
            payload()
        )
            .prop_map(|(stream_id, offset, len_bit, fin, data)| RefFrame::Stream { stream_id, offset, len_bit, fin, data }),
        (
            stream_id(),
            prop_oneof![3 => Just(None), 1 => Just(Some(0u64)), 4 => offset_for_data().prop_map(Some)],
            any::<bool>(),
            any::<bool>(),
            payload()
        )
            .prop_map(|(stream_id, offset, len_bit, fin, data)| RefFrame::Stream { stream_id, offset, len_bit, fin, data }),
        vi().prop_map(|max| RefFrame::MaxData { max }),
        (stream_id(), vi()).prop_map(|(stream_id, max)| RefFrame::MaxStreamData { stream_id, max }),
        (any::<bool>(), max_streams_value()).prop_map(|(bidi, max)| RefFrame::MaxStreams { bidi, max }),
        vi().prop_map(|limit| RefFrame::DataBlocked { limit }),
        (stream_id(), vi()).prop_map(|(stream_id, limit)| RefFrame::StreamDataBlocked { stream_id, limit }),
        (any::<bool>(), max_streams_value()).prop_map(|(bidi, limit)| RefFrame::StreamsBlocked { bidi, limit }),
        new_connection_id_strategy(),
        vi().prop_map(|seq| RefFrame::RetireConnectionId { seq }),
        any::<[u8; 8]>().prop_map(|data| RefFrame::PathChallenge { data }),
        any::<[u8; 8]>().prop_map(|data| RefFrame::PathResponse { data }),
        (vi(), vi(), pvec(any::<u8>(), 0..30)).prop_map(|(error_code, frame_type, reason)| RefFrame::ConnectionCloseTransport { error_code, frame_type, reason }),
        (vi(), prop_oneof![3 => pvec(any::<u8>(), 0..30), 1 => payload()]).prop_map(|(error_code, reason)| RefFrame::ConnectionCloseApp { error_code, reason }),
        Just(RefFrame::HandshakeDone),
        (any::<bool>(), payload()).prop_map(|(len_bit, data)| RefFrame::Datagram { len_bit, data }),
    ]
    .boxed()
}

/// a packet payload: only the last frame may lack a length
fn frames_strategy(max: usize) -> BoxedStrategy<Vec<RefFrame>> {
    pvec(frame_strategy(), 1..max)
        .prop_map(|mut frames| {
            let n = frames.len();
            for f in frames.iter_mut().take(n - 1) {
                match f {
                    RefFrame::Stream { len_bit, .. } | RefFrame::Datagram { len_bit, .. } => *len_bit = true,
                    _ => {}
                }
            }
            frames
        })
        .boxed()
}

/// position of the last byte of the length field of a frame encoded at `start..end`
/// (the length varint directly precedes the data it counts)
fn len_field_pos(f: &RefFrame, start: usize, end: usize) -> Option<usize> {
    let back = match f {
        RefFrame::Crypto { data, .. } => data.len(),
        RefFrame::NewToken { token } => token.len(),
        RefFrame::Stream { len_bit: true, data, .. } | RefFrame::Datagram { len_bit: true, data } => data.len(),
        RefFrame::ConnectionCloseTransport { reason, .. } | RefFrame::ConnectionCloseApp { reason, .. } => reason.len(),
        RefFrame::NewConnectionId { cid, .. } => cid.len() + 16,
        // ACK Range Count (shortest-form layout): type, largest, delay, count
        RefFrame::Ack { largest, delay, ranges, .. } => {
            let p = start + varint_len(*largest) + varint_len(*delay) + varint_len(ranges.len() as u64);
            return (p < end).then_some(p);
        }
        _ => return None,
    };
    (end - start > back).then(|| end - back - 1)
}

fn encode_sequence(frames: &[RefFrame], bumps: &[u8]) -> (Vec<u8>, Vec<usize>) {
    let mut out = vec![];
    let mut len_fields = vec![];
    for f in frames {
        let start = out.len();
        encode_frame_opts(f, &mut out, EncodeOpts { type_bump: 0, bumps });
        if let Some(p) = len_field_pos(f, start, out.len()) {
            len_fields.push(p);
        }
    }
    (out, len_fields)
}

// ---------------------------------------------------------------------------------------
// frame differential

/// The form s2n's value types can hold: an OFF bit with offset 0 is not represented
/// (RFC 9000 §19.8: with the OFF bit clear "the Stream Data starts at an offset of 0").
fn canonical(f: &RefFrame) -> RefFrame {
    match f {
        RefFrame::Stream { stream_id, offset: Some(0), len_bit, fin, data } => RefFrame::Stream {
            stream_id: *stream_id,
            offset: None,
            len_bit: *len_bit,
            fin: *fin,
            data: data.clone(),
        },
        other => other.clone(),
    }
}

macro_rules! same {
    ($field:expr, $r:expr, $s:expr) => {
        if $r != $s {
            return Err(format!("field `{}`: reference {:?}, s2n {:?}", $field, $r, $s));
        }
    };
}

fn bytes_brief(b: &[u8]) -> String {
    format!("[{} bytes {}]", b.len(), hex(&b[..b.len().min(24)]))
}

/// field-by-field comparison of a reference frame with what s2n decoded
fn cmp_frame(r: &RefFrame, s: &FrameMut) -> Result<(), String> {
    use s2n_quic_core::frame::Frame as F;
    use s2n_quic_core::stream::StreamType;
    match (r, s) {
        (RefFrame::Padding { len }, F::Padding(p)) => same!("length", *len, p.length),
        (RefFrame::Ping, F::Ping(_)) => {}
        (RefFrame::Ack { largest, delay, ecn, .. }, F::Ack(a)) => {
            same!("largest_acknowledged", *largest, a.largest_acknowledged().as_u64());
            same!("ack_delay", *delay, a.ack_delay.as_u64());
            let got: Vec<(u64, u64)> = a.ack_ranges().map(|x| (x.start().as_u64(), x.end().as_u64())).collect();
            let want = r.ack_ranges();
            same!("ack_ranges (smallest, largest)", want, Some(got.clone()));
            let got_ecn = a.ecn_counts.map(|e| RefEcn { ect0: e.ect_0_count.as_u64(), ect1: e.ect_1_count.as_u64(), ce: e.ce_count.as_u64() });
            same!("ecn_counts", *ecn, got_ecn);
        }
        (RefFrame::ResetStream { stream_id, error_code, final_size }, F::ResetStream(x)) => {
            same!("stream_id", *stream_id, x.stream_id.as_u64());
            same!("application_error_code", *error_code, x.application_error_code.as_u64());
            same!("final_size", *final_size, x.final_size.as_u64());
        }
        (RefFrame::StopSending { stream_id, error_code }, F::StopSending(x)) => {
            same!("stream_id", *stream_id, x.stream_id.as_u64());
            same!("application_error_code", *error_code, x.application_error_code.as_u64());
        }
        (RefFrame::Crypto { offset, data }, F::Crypto(x)) => {
            same!("offset", *offset, x.offset.as_u64());
            same!("data", bytes_brief(data), bytes_brief(x.data.as_less_safe_slice()));
            same!("data", &data[..], x.data.as_less_safe_slice());
        }
        (RefFrame::NewToken { token }, F::NewToken(x)) => same!("token", &token[..], x.token),
        (RefFrame::Stream { stream_id, offset, len_bit, fin, data }, F::Stream(x)) => {
            same!("stream_id", *stream_id, x.stream_id.as_u64());
            same!("offset", offset.unwrap_or(0), x.offset.as_u64());
            same!("is_last_frame (= LEN bit clear)", !*len_bit, x.is_last_frame);
            same!("is_fin", *fin, x.is_fin);
            same!("data", bytes_brief(data), bytes_brief(x.data.as_less_safe_slice()));
            same!("data", &data[..], x.data.as_less_safe_slice());
        }
        (RefFrame::MaxData { max }, F::MaxData(x)) => same!("maximum_data", *max, x.maximum_data.as_u64()),
        (RefFrame::MaxStreamData { stream_id, max }, F::MaxStreamData(x)) => {
            same!("stream_id", *stream_id, x.stream_id.as_u64());
            same!("maximum_stream_data", *max, x.maximum_stream_data.as_u64());
        }
        (RefFrame::MaxStreams { bidi, max }, F::MaxStreams(x)) => {
            same!("stream_type is bidirectional", *bidi, x.stream_type == StreamType::Bidirectional);
            same!("maximum_streams", *max, x.maximum_streams.as_u64());
        }
        (RefFrame::DataBlocked { limit }, F::DataBlocked(x)) => same!("data_limit", *limit, x.data_limit.as_u64()),
        (RefFrame::StreamDataBlocked { stream_id, limit }, F::StreamDataBlocked(x)) => {
            same!("stream_id", *stream_id, x.stream_id.as_u64());
            same!("stream_data_limit", *limit, x.stream_data_limit.as_u64());
        }
        (RefFrame::StreamsBlocked { bidi, limit }, F::StreamsBlocked(x)) => {
            same!("stream_type is bidirectional", *bidi, x.stream_type == StreamType::Bidirectional);
            same!("stream_limit", *limit, x.stream_limit.as_u64());
        }
        (RefFrame::NewConnectionId { seq, retire_prior_to, cid, reset_token }, F::NewConnectionId(x)) => {
            same!("sequence_number", *seq, x.sequence_number.as_u64());
            same!("retire_prior_to", *retire_prior_to, x.retire_prior_to.as_u64());
            same!("connection_id", &cid[..], x.connection_id);
            same!("stateless_reset_token", reset_token, x.stateless_reset_token);
        }
        (RefFrame::RetireConnectionId { seq }, F::RetireConnectionId(x)) => same!("sequence_number", *seq, x.sequence_number.as_u64()),
        (RefFrame::PathChallenge { data }, F::PathChallenge(x)) => same!("data", data, x.data),
        (RefFrame::PathResponse { data }, F::PathResponse(x)) => same!("data", data, x.data),
        (RefFrame::ConnectionCloseTransport { error_code, frame_type, reason }, F::ConnectionClose(x)) => {
            same!("error_code", *error_code, x.error_code.as_u64());
            same!("frame_type", Some(*frame_type), x.frame_type.map(|v| v.as_u64()));
            same!("reason", &reason[..], x.reason.unwrap_or(&[]));
        }
        (RefFrame::ConnectionCloseApp { error_code, reason }, F::ConnectionClose(x)) => {
            same!("error_code", *error_code, x.error_code.as_u64());
            same!("frame_type", None::<u64>, x.frame_type.map(|v| v.as_u64()));
            same!("reason", &reason[..], x.reason.unwrap_or(&[]));
        }
        (RefFrame::HandshakeDone, F::HandshakeDone(_)) => {}
        (RefFrame::Datagram { len_bit, data }, F::Datagram(x)) => {
            same!("is_last_frame (= LEN bit clear)", !*len_bit, x.is_last_frame);
            same!("data", bytes_brief(data), bytes_brief(x.data.as_less_safe_slice()));
            same!("data", &data[..], x.data.as_less_safe_slice());
        }
        (r, s) => {
            let s = format!("{s:?}");
            return Err(format!("frame kind: reference {}, s2n {}", r.name(), &s[..s.len().min(60)]));
        }
    }
    Ok(())
}

fn invalid_class(k: InvalidKind, accepted: bool) -> &'static str {
    use InvalidKind::*;
    match (k, accepted) {
        (NonMinimalFrameType, _) => "latitude:nonminimal-type",
        (AckRangeUnderflow, true) => "deferred:ack-range-underflow",
        (AckRangeUnderflow, false) => "invalid-rejected:ack-range-underflow",
        (CryptoOffsetOverflow, true) => "deferred:crypto-offset-overflow",
        (CryptoOffsetOverflow, false) => "invalid-rejected:crypto-offset-overflow",
        (EmptyNewToken, true) => "deferred:empty-new-token",
        (EmptyNewToken, false) => "invalid-rejected:empty-new-token",
        (StreamOffsetOverflow, true) => "deferred:stream-offset-overflow",
        (StreamOffsetOverflow, false) => "invalid-rejected:stream-offset-overflow",
        (MaxStreamsTooLarge, true) => "deferred:max-streams-too-large",
        (MaxStreamsTooLarge, false) => "invalid-rejected:max-streams-too-large",
        (StreamsBlockedTooLarge, true) => "deferred:streams-blocked-too-large",
        (StreamsBlockedTooLarge, false) => "invalid-rejected:streams-blocked-too-large",
        (NewConnectionIdLength, true) => "deferred:new-connection-id-length",
        (NewConnectionIdLength, false) => "invalid-rejected:new-connection-id-length",
        (RetirePriorToExceedsSequence, true) => "deferred:retire-prior-to",
        (RetirePriorToExceedsSequence, false) => "invalid-rejected:retire-prior-to",
        (ConnectionIdTooLong, true) => "deferred:connection-id-too-long",
        (ConnectionIdTooLong, false) => "invalid-rejected:connection-id-too-long",
        (EmptyRetryToken, true) => "deferred:empty-retry-token",
        (EmptyRetryToken, false) => "invalid-rejected:empty-retry-token",
        (EmptyVersionList, true) => "deferred:empty-version-list",
        (EmptyVersionList, false) => "invalid-rejected:empty-version-list",
    }
}

fn static_name(f: &RefFrame) -> &'static str {
    let n = f.name();
    FRAME_NAMES.iter().copied().find(|x| *x == n).unwrap_or("?")
}

/// s2n-quic's private frame types (`frame/mod.rs`: `extension[...]` entries)
const S2N_EXTENSION_FRAME_TYPES: [u64; 2] = [0xdc0000, 0xdc0002];

enum Step {
    /// both decoded a frame of `consumed` bytes
    Next { consumed: usize, multi_field: bool },
    /// decoding of this payload ends here (both rejected, or a latitude class)
    Stop,
}

/// Differential for the frame at the front of `buf` (which ends where the packet payload
/// ends). On agreement also checks that s2n re-encodes the frame in the canonical shortest
/// form with the announced size.
fn diff_one_frame(buf: &[u8], obs: &mut Obs) -> Result<Step, Fail> {
    let r = parse_frame_ext(buf);
    let is_ext = matches!(decode_varint(buf), Ok((t, _)) if S2N_EXTENSION_FRAME_TYPES.contains(&t));

    let mut copy = buf.to_vec();
    let total = copy.len();
    let s = DecoderBufferMut::new(&mut copy).decode::<FrameMut>();

    if is_ext {
        // not an RFC 9000/9221 frame: s2n only has to survive it
        obs.class("skip:s2n-extension");
        return Ok(Step::Stop);
    }

    let p = match r {
        Err(e) => {
            if let Ok((f, rest)) = &s {
                let d = format!("{f:?}");
                fail!(
                    format!("frame:s2n-accepts-malformed:{}", malformed_key(&e)),
                    "payload {}: reference parser rejects it ({e:?}) but s2n decodes {} consuming {} bytes",
                    hex(buf),
                    &d[..d.len().min(200)],
                    total - rest.len()
                );
            }
            obs.class("outcome:both-reject");
            return Ok(Step::Stop);
        }
        Ok(p) => p,
    };
    let name = static_name(&p.frame);
    let invalid = if p.type_len != 1 {
        Some(InvalidKind::NonMinimalFrameType)
    } else {
        p.frame.validate().err()
    };
    let (sf, rest_len) = match s {
        Ok((f, rest)) => {
            let n = rest.len();
            (f, n)
        }
        Err(e) => {
            match invalid {
                Some(k) => {
                    obs.class(invalid_class(k, false));
                    return Ok(Step::Stop);
                }
                None => fail!(
                    format!("frame:s2n-rejects-valid:{name}"),
                    "payload {}: reference decodes a valid {:?} ({} bytes), s2n fails with {e:?}",
                    hex(buf),
                    brief(&p.frame),
                    p.consumed
                ),
            }
        }
    };
    if let Some(k) = invalid {
        obs.class(invalid_class(k, true));
    }
    if let Err(why) = cmp_frame(&p.frame, &sf) {
        fail!(format!("frame:field-mismatch:{name}"), "payload {}: {why} (reference frame {:?})", hex(buf), brief(&p.frame));
    }
    let consumed = total - rest_len;
    ensure_that!(
        consumed == p.consumed,
        format!("frame:consumed-mismatch:{name}"),
        "payload {}: s2n consumed {consumed} bytes, the reference parser {} for {:?}",
        hex(buf),
        p.consumed,
        brief(&p.frame)
    );
    // everything s2n emits is the shortest encoding of the value, of the announced size
    if p.type_len == 1 {
        let mut canon = vec![];
        encode_frame(&canonical(&p.frame), &mut canon);
        s2n_encode_checked(&sf, &canon, &format!("frame:encode:{name}"))?;
        obs.class_if(!p.minimal, "input:non-minimal-varints");
    }
    obs.class(name);
    obs.class("outcome:agree-value");
    Ok(Step::Next { consumed, multi_field: p.frame.is_multi_field() })
}

fn malformed_key(e: &RefError) -> &'static str {
    use refquic::MalformedKind::*;
    match e {
        RefError::Malformed(Truncated) => "truncated",
        RefError::Malformed(Empty) => "empty",
        RefError::Malformed(UnknownFrameType(_)) => "unknown-frame-type",
        RefError::Malformed(_) => "other",
        RefError::Invalid(_) => "invalid",
    }
}

/// frame with long payloads abbreviated (for messages)
fn brief(f: &RefFrame) -> String {
    let s = format!("{f:?}");
    if s.len() > 300 {
        format!("{}…", &s[..300])
    } else {
        s
    }
}

/// Differential over a whole packet payload; returns the number of complete multi-field
/// frames both decoders agreed on.
fn diff_payload(buf: &[u8], obs: &mut Obs) -> Result<usize, Fail> {
    let mut off = 0;
    let mut multi = 0;
    let mut steps = 0;
    while off < buf.len() {
        steps += 1;
        ensure_that!(steps <= buf.len(), "frame:no-progress", "decoding loop did not advance on payload {}", hex(buf));
        match diff_one_frame(&buf[off..], obs)? {
            Step::Next { consumed, multi_field } => {
                ensure_that!(consumed >= 1, "frame:no-progress", "a frame of zero bytes was decoded at offset {off} of {}", hex(buf));
                off += consumed;
                multi += multi_field as usize;
            }
            Step::Stop => break,
        }
    }
    obs.units += steps as u64;
    Ok(multi)
}

/// raw-bytes entry points for the fuzz targets
pub fn fuzz_payload(buf: &[u8], obs: &mut Obs) -> Result<usize, Fail> {
    diff_payload(buf, obs)
}

pub fn fuzz_datagram(dg: &[u8], short_dcid_len: usize, obs: &mut Obs) -> Result<usize, Fail> {
    diff_datagram(dg, short_dcid_len, obs)
}

// ---------------------------------------------------------------------------------------
// sub-check `frame_values`

#[derive(Clone, Debug, Hash, PartialEq, Eq, Serialize, Deserialize)]
pub struct FrameValueCase {
    pub frame: RefFrame,
    /// width bumps for the second, non-minimal encoding of the same value
    pub bumps: Vec<u8>,
    /// capacity offered to `try_fit`, relative to the full frame size
    pub fit_delta: i16,
}

fn has_explicit_extent(f: &RefFrame) -> bool {
    !matches!(f, RefFrame::Stream { len_bit: false, .. } | RefFrame::Datagram { len_bit: false, .. })
}

fn frame_value_oracle(case: &FrameValueCase, obs: &mut Obs) -> CaseResult {
    let f = &case.frame;
    let mut bytes = vec![];
    encode_frame(f, &mut bytes);
    let own_len = bytes.len();
    // a following PING shows that exactly the frame's own bytes are consumed
    if has_explicit_extent(f) {
        bytes.push(0x01);
    }
    let valid = f.validate().is_ok();
    match diff_one_frame(&bytes, obs)? {
        Step::Next { consumed, .. } => {
            ensure_that!(consumed == own_len, format!("frame:consumed-mismatch:{}", static_name(f)), "frame {:?} occupies {own_len} bytes, decoders consumed {consumed}", brief(f));
        }
        Step::Stop => {
            ensure_that!(!valid, "harness:valid-frame-stopped", "valid generated frame was not decoded: {:?}", brief(f));
        }
    }
    obs.nontrivial(valid && f.is_multi_field());
    obs.class_if(!valid, "value:invalid-by-rfc");

    // the same value with wider varints must decode to the same fields
    if !case.bumps.is_empty() {
        let mut wide = vec![];
        encode_frame_opts(f, &mut wide, EncodeOpts { type_bump: 0, bumps: &case.bumps });
        let wide_len = wide.len();
        if has_explicit_extent(f) {
            wide.push(0x01);
        }
        if let Step::Next { consumed, .. } = diff_one_frame(&wide, obs)? {
            ensure_that!(consumed == wide_len, format!("frame:consumed-mismatch:{}", static_name(f)), "non-minimal encoding of {:?} occupies {wide_len} bytes, decoders consumed {consumed}", brief(f));
        }
        obs.class_if(wide_len != own_len, "value:non-minimal-encoding");
    }

    // try_fit: the announced number of data bytes must lead to a frame that fits
    if valid {
        try_fit_check(f, case.fit_delta, obs)?;
    }
    Ok(())
}

/// `Stream::try_fit` / `Crypto::try_fit` announce how many data bytes fit into `capacity`.
/// Contract checked (from their doc comments and callers): on `Ok(n)`, the frame with its
/// data cut to `n` bytes encodes to at most `capacity` bytes — exactly `capacity` if the
/// STREAM frame was turned into a "last frame" (no length, extends to the end of the packet,
/// RFC 9000 §19.8) — and decodes back to the same value; `Err` only if not even the fields
/// before the data fit.
fn try_fit_check(f: &RefFrame, fit_delta: i16, obs: &mut Obs) -> CaseResult {
    use s2n_quic_core::frame::{Crypto, Stream};
    let mut full = vec![];
    encode_frame(&canonical(f), &mut full);
    let capacity = (full.len() as i64 + fit_delta as i64).max(0) as usize;
    match f {
        RefFrame::Stream { stream_id, offset, fin, data, .. } => {
            let off = offset.unwrap_or(0);
            let mut s = Stream {
                stream_id: VarInt::new(*stream_id).unwrap(),
                offset: VarInt::new(off).unwrap(),
                is_last_frame: false,
                is_fin: *fin,
                data: &data[..],
            };
            let fixed = 1 + varint_len(*stream_id) + if off != 0 { varint_len(off) } else { 0 };
            match s.try_fit(capacity) {
                Ok(n) => {
                    ensure_that!(n <= data.len(), "frame:try-fit:STREAM", "try_fit({capacity}) announced {n} data bytes of {}", data.len());
                    s.data = &data[..n];
                    let expect = RefFrame::Stream {
                        stream_id: *stream_id,
                        offset: if off != 0 { Some(off) } else { None },
                        len_bit: !s.is_last_frame,
                        fin: *fin,
                        data: data[..n].to_vec(),
                    };
                    let mut eb = vec![];
                    encode_frame(&expect, &mut eb);
                    s2n_encode_checked(&s, &eb, "frame:try-fit-encode:STREAM")?;
                    ensure_that!(eb.len() <= capacity, "frame:try-fit:STREAM", "try_fit({capacity}) announced {n} data bytes but the frame then takes {} bytes", eb.len());
                    ensure_that!(!s.is_last_frame || eb.len() == capacity, "frame:try-fit:STREAM", "try_fit({capacity}) dropped the length field although the frame ({} bytes) does not fill the capacity", eb.len());
                    obs.class(if s.is_last_frame { "try_fit:last-frame" } else if n < data.len() { "try_fit:cut" } else { "try_fit:whole" });
                }
                Err(_) => {
                    ensure_that!(capacity < fixed, "frame:try-fit:STREAM", "try_fit({capacity}) failed although the {fixed} header bytes fit");
                    obs.class("try_fit:no-room");
                }
            }
        }
        RefFrame::Crypto { offset, data } => {
            let mut c = Crypto { offset: VarInt::new(*offset).unwrap(), data: &data[..] };
            let fixed = 1 + varint_len(*offset);
            match c.try_fit(capacity) {
                Ok(n) => {
                    ensure_that!(n <= data.len(), "frame:try-fit:CRYPTO", "try_fit({capacity}) announced {n} data bytes of {}", data.len());
                    c.data = &data[..n];
                    let mut eb = vec![];
                    encode_frame(&RefFrame::Crypto { offset: *offset, data: data[..n].to_vec() }, &mut eb);
                    s2n_encode_checked(&c, &eb, "frame:try-fit-encode:CRYPTO")?;
                    ensure_that!(eb.len() <= capacity, "frame:try-fit:CRYPTO", "try_fit({capacity}) announced {n} data bytes but the frame then takes {} bytes", eb.len());
                    obs.class(if n < data.len() { "try_fit:cut" } else { "try_fit:whole" });
                }
                Err(_) => {
                    // the length prefix needs at least one byte
                    ensure_that!(capacity < fixed + 1, "frame:try-fit:CRYPTO", "try_fit({capacity}) failed although {fixed} header bytes and a length fit");
                    obs.class("try_fit:no-room");
                }
            }
        }
        _ => {}
    }
    Ok(())
}

fn frame_value_strategy(_t: Tier) -> BoxedStrategy<FrameValueCase> {
    (
        frame_strategy(),
        bumps_strategy(),
        prop_oneof![3 => -4i16..4, 2 => -80i16..20, 1 => Just(0i16), 1 => -20000i16..10],
    )
        .prop_map(|(frame, bumps, fit_delta)| FrameValueCase { frame, bumps, fit_delta })
        .boxed()
}

// ---------------------------------------------------------------------------------------
// sub-check `frame_bytes`

#[derive(Clone, Debug, Hash, PartialEq, Eq, Serialize, Deserialize)]
pub enum FrameBytesCase {
    /// valid sequence from the reference encoder (non-minimal varints per `bumps`,
    /// `type_bump` widens the type of the first frame), checked at every truncation length
    Grammar { frames: Vec<RefFrame>, bumps: Vec<u8>, type_bump: u8 },
    Mutated { frames: Vec<RefFrame>, bumps: Vec<u8>, muts: Vec<Mutation> },
    /// head of one valid sequence followed by the tail of another
    Splice { a: Vec<RefFrame>, b: Vec<RefFrame>, cut_a: u16, cut_b: u16 },
    Raw(Vec<u8>),
    /// first byte is a frame type, the rest random
    Tagged { tag: u8, rest: Vec<u8> },
    /// a sample file shipped with the repo (`frame/test_samples`), mutated
    Sample { which: u16, muts: Vec<Mutation> },
}

fn frame_bytes_oracle(case: &FrameBytesCase, obs: &mut Obs) -> CaseResult {
    let (bytes, near_valid): (Vec<u8>, bool) = match case {
        FrameBytesCase::Grammar { frames, bumps, type_bump } => {
            obs.class("family:grammar");
            let (mut bytes, _) = encode_sequence(frames, bumps);
            if *type_bump > 0 && !matches!(frames[0], RefFrame::Padding { .. }) {
                let mut first = vec![];
                encode_frame_opts(&frames[0], &mut first, EncodeOpts { type_bump: 0, bumps });
                let mut wide = vec![];
                encode_frame_opts(&frames[0], &mut wide, EncodeOpts { type_bump: *type_bump, bumps });
                bytes.splice(..first.len(), wide);
            }
            // truncation at every length (bounded for the few very long payloads)
            if bytes.len() <= 160 {
                for cut in 0..bytes.len() {
                    let mut scratch = Obs::default();
                    diff_payload(&bytes[..cut], &mut scratch)?;
                    obs.units += scratch.units;
                }
                obs.class("grammar:all-truncations");
            }
            (bytes, true)
        }
        FrameBytesCase::Mutated { frames, bumps, muts } => {
            obs.class("family:mutated");
            let (mut bytes, len_fields) = encode_sequence(frames, bumps);
            apply_mutations(&mut bytes, &len_fields, muts);
            let valid_multi = frames.iter().any(|f| f.is_multi_field() && f.validate().is_ok());
            (bytes, muts.len() <= 2 && valid_multi)
        }
        FrameBytesCase::Splice { a, b, cut_a, cut_b } => {
            obs.class("family:splice");
            let (mut x, _) = encode_sequence(a, &[]);
            let (y, _) = encode_sequence(b, &[]);
            x.truncate(pick_index(*cut_a, x.len() + 1));
            x.extend_from_slice(&y[pick_index(*cut_b, y.len() + 1)..]);
            (x, false)
        }
        FrameBytesCase::Raw(b) => {
            obs.class("family:raw");
            (b.clone(), false)
        }
        FrameBytesCase::Tagged { tag, rest } => {
            obs.class("family:tagged");
            let mut b = vec![*tag];
            b.extend_from_slice(rest);
            (b, false)
        }
        FrameBytesCase::Sample { which, muts } => {
            let samples = frame_samples();
            if samples.is_empty() {
                obs.class("family:sample-files-missing");
                return Ok(());
            }
            obs.class("family:sample");
            let mut b = samples[pick_index(*which, samples.len())].1.clone();
            apply_mutations(&mut b, &[], muts);
            (b, muts.len() <= 2)
        }
    };
    let multi = diff_payload(&bytes, obs)?;
    obs.nontrivial(multi >= 1 || near_valid);
    obs.class_if(multi >= 1, "decoded:multi-field-frame");
    obs.sample = Some(serde_json::json!({ "payload": hex(&bytes), "multi_field_frames_decoded": multi }));
    Ok(())
}

/// every RFC 9000 / 9221 frame type plus its neighbours and s2n's extension prefix
fn tag_strategy() -> BoxedStrategy<u8> {
    prop_oneof![8 => 0u8..0x20, 2 => 0x30u8..0x32, 1 => 0x20u8..0x40, 1 => Just(0x80u8), 1 => 0x40u8..=0xff].boxed()
}

fn frame_bytes_strategy(_t: Tier) -> BoxedStrategy<FrameBytesCase> {
    prop_oneof![
        5 => (frames_strategy(5), bumps_strategy(), prop_oneof![12 => Just(0u8), 1 => 1u8..4])
            .prop_map(|(frames, bumps, type_bump)| FrameBytesCase::Grammar { frames, bumps, type_bump }),
        9 => (frames_strategy(4), bumps_strategy(), prop_oneof![5 => pvec(mutation_strategy(), 1..3), 1 => pvec(mutation_strategy(), 3..7)])
            .prop_map(|(frames, bumps, muts)| FrameBytesCase::Mutated { frames, bumps, muts }),
        2 => (frames_strategy(4), frames_strategy(4), any::<u16>(), any::<u16>())
            .prop_map(|(a, b, cut_a, cut_b)| FrameBytesCase::Splice { a, b, cut_a, cut_b }),
        2 => pvec(any::<u8>(), 0..48).prop_map(FrameBytesCase::Raw),
        4 => (tag_strategy(), pvec(prop_oneof![3 => any::<u8>(), 2 => 0u8..4, 1 => Just(0x40u8), 1 => Just(0xc0u8)], 0..40))
            .prop_map(|(tag, rest)| FrameBytesCase::Tagged { tag, rest }),
        2 => (any::<u16>(), pvec(mutation_strategy(), 0..4)).prop_map(|(which, muts)| FrameBytesCase::Sample { which, muts }),
    ]
    .boxed()
}

// ---------------------------------------------------------------------------------------
// sub-check `packet_headers`

use refquic::{encode_header, parse_header, RefHeader, RefPacketType, QUIC_V1};
use s2n_quic_core::packet::ProtectedPacket;

#[derive(Clone, Debug, Hash, PartialEq, Eq, Serialize, Deserialize)]
pub struct HdrSpec {
    /// 0 Initial, 1 0-RTT, 2 Handshake, 3 Retry, 4 Version Negotiation, 5 Short
    pub ty: u8,
    /// the bits of the first byte that are not determined by the type
    pub low_bits: u8,
    pub version: u32,
    pub dcid: Vec<u8>,
    pub scid: Vec<u8>,
    pub token: Vec<u8>,
    /// bytes after the header (packet number + payload)
    pub body: Vec<u8>,
    pub versions: Vec<u32>,
    pub token_len_bump: u8,
    pub length_bump: u8,
}

#[derive(Clone, Debug, Hash, PartialEq, Eq, Serialize, Deserialize)]
pub enum HeaderCase {
    /// 1..3 coalesced packets (only the last may be Retry / VN / Short), then mutations
    Gen { packets: Vec<HdrSpec>, short_dcid_len: u8, muts: Vec<Mutation> },
    Raw { bytes: Vec<u8>, short_dcid_len: u8 },
    Sample { which: u16, muts: Vec<Mutation>, short_dcid_len: u8 },
}

fn spec_header(s: &HdrSpec, short_dcid_len: usize) -> RefHeader {
    let (ty, first) = match s.ty {
        0 => (RefPacketType::Initial, 0xc0 | (s.low_bits & 0x0f)),
        1 => (RefPacketType::ZeroRtt, 0xd0 | (s.low_bits & 0x0f)),
        2 => (RefPacketType::Handshake, 0xe0 | (s.low_bits & 0x0f)),
        3 => (RefPacketType::Retry, 0xf0 | (s.low_bits & 0x0f)),
        4 => (RefPacketType::VersionNegotiation, 0x80 | (s.low_bits & 0x7f)),
        _ => (RefPacketType::Short, 0x40 | (s.low_bits & 0x3f)),
    };
    let mut dcid = s.dcid.clone();
    if ty == RefPacketType::Short {
        // a short header carries the connection id the receiver expects
        dcid = prf_vec(s.version as u64 ^ 0xdc1d, 0, short_dcid_len);
    }
    RefHeader {
        ty,
        offset: 0,
        first_byte: first,
        version: Some(if ty == RefPacketType::VersionNegotiation { 0 } else { s.version }),
        dcid,
        scid: Some(s.scid.clone()),
        token: Some(s.token.clone()),
        length: None,
        pn_offset: None,
        packet_len: 0,
        versions: s.versions.clone(),
        integrity_tag: Some({
            let mut t = [0u8; 16];
            prf_fill(s.version as u64 ^ 0x7a6, 0, &mut t);
            t
        }),
        minimal: true,
    }
}

/// `ProtectedPayload`'s fields are crate-private; its (non-alternate) Debug output is
/// `ProtectedPayload { header_len: N, buffer_len: M }`.
fn header_len_of(payload: &impl core::fmt::Debug) -> usize {
    let s = format!("{payload:?}");
    let i = s.find("header_len: ").expect("ProtectedPayload Debug format changed") + 12;
    s[i..].chars().take_while(|c| c.is_ascii_digit()).collect::<String>().parse().expect("header_len")
}

fn header_type_name(t: RefPacketType) -> &'static str {
    match t {
        RefPacketType::Initial => "Initial",
        RefPacketType::ZeroRtt => "ZeroRtt",
        RefPacketType::Handshake => "Handshake",
        RefPacketType::Retry => "Retry",
        RefPacketType::VersionNegotiation => "VersionNegotiation",
        RefPacketType::Short => "Short",
    }
}

/// compares one decoded packet with the reference header; returns the header length s2n
/// reports (None for Retry / Version Negotiation)
fn cmp_header(h: &RefHeader, p: &ProtectedPacket) -> Result<Option<usize>, String> {
    let scid = h.scid.as_deref().unwrap_or(&[]);
    let token = h.token.as_deref().unwrap_or(&[]);
    match (h.ty, p) {
        (RefPacketType::Short, ProtectedPacket::Short(x)) => {
            same!("destination_connection_id", &h.dcid[..], x.destination_connection_id());
            same!("packet length", h.packet_len, x.payload.len());
            Ok(Some(header_len_of(&x.payload)))
        }
        (RefPacketType::Initial, ProtectedPacket::Initial(x)) => {
            same!("version", h.version, Some(x.version));
            same!("destination_connection_id", &h.dcid[..], x.destination_connection_id());
            same!("source_connection_id", scid, x.source_connection_id());
            same!("token", token, x.token());
            same!("packet length", h.packet_len, x.payload.len());
            Ok(Some(header_len_of(&x.payload)))
        }
        (RefPacketType::ZeroRtt, ProtectedPacket::ZeroRtt(x)) => {
            same!("version", h.version, Some(x.version));
            same!("destination_connection_id", &h.dcid[..], x.destination_connection_id());
            same!("source_connection_id", scid, x.source_connection_id());
            same!("packet length", h.packet_len, x.payload.len());
            Ok(Some(header_len_of(&x.payload)))
        }
        (RefPacketType::Handshake, ProtectedPacket::Handshake(x)) => {
            same!("version", h.version, Some(x.version));
            same!("destination_connection_id", &h.dcid[..], x.destination_connection_id());
            same!("source_connection_id", scid, x.source_connection_id());
            same!("packet length", h.packet_len, x.payload.len());
            Ok(Some(header_len_of(&x.payload)))
        }
        (RefPacketType::Retry, ProtectedPacket::Retry(x)) => {
            same!("first byte", h.first_byte, x.tag);
            same!("version", h.version, Some(x.version));
            same!("destination_connection_id", &h.dcid[..], x.destination_connection_id);
            same!("source_connection_id", scid, x.source_connection_id);
            same!("retry_token", token, x.retry_token);
            same!("retry_integrity_tag", h.integrity_tag.as_ref(), Some(x.retry_integrity_tag));
            Ok(None)
        }
        (RefPacketType::VersionNegotiation, ProtectedPacket::VersionNegotiation(x)) => {
            same!("first byte", h.first_byte, x.tag);
            same!("destination_connection_id", &h.dcid[..], x.destination_connection_id);
            same!("source_connection_id", scid, x.source_connection_id);
            let v: Vec<u32> = x.iter().collect();
            same!("supported_versions", &h.versions, &v);
            Ok(None)
        }
        (t, p) => {
            let d = format!("{p:?}");
            Err(format!("packet type: reference {}, s2n {}", header_type_name(t), &d[..d.len().min(40)]))
        }
    }
}

/// With the no-op header/packet keys of `crypto::key::testing` the "protected" packet is
/// read as cleartext: the packet number must be the bytes at the reference parser's
/// `pn_offset` (expanded per A.3 against largest = 0) and the payload the rest of the packet.
fn null_crypto_view(h: &RefHeader, pkt: &[u8], p: ProtectedPacket, obs: &mut Obs) -> CaseResult {
    use s2n_quic_core::crypto::key::testing::{HeaderKey, Key};
    use s2n_quic_core::packet::number::PacketNumberSpace as Space;
    let Some(pn_offset) = h.pn_offset else { return Ok(()) };
    let (pn, payload): (u64, Vec<u8>) = match p {
        ProtectedPacket::Initial(x) => {
            let Ok(e) = x.unprotect(&HeaderKey::new(), Space::Initial.new_packet_number(VarInt::ZERO)) else { return Ok(()) };
            let Ok(c) = e.decrypt(&Key::new()) else { return Ok(()) };
            (c.packet_number.as_u64(), c.payload.as_less_safe_slice().to_vec())
        }
        ProtectedPacket::Handshake(x) => {
            let Ok(e) = x.unprotect(&HeaderKey::new(), Space::Handshake.new_packet_number(VarInt::ZERO)) else { return Ok(()) };
            let Ok(c) = e.decrypt(&Key::new()) else { return Ok(()) };
            (c.packet_number.as_u64(), c.payload.as_less_safe_slice().to_vec())
        }
        ProtectedPacket::ZeroRtt(x) => {
            let Ok(e) = x.unprotect(&HeaderKey::new(), Space::ApplicationData.new_packet_number(VarInt::ZERO)) else { return Ok(()) };
            let Ok(c) = e.decrypt(&Key::new()) else { return Ok(()) };
            (c.packet_number.as_u64(), c.payload.as_less_safe_slice().to_vec())
        }
        ProtectedPacket::Short(x) => {
            let Ok(e) = x.unprotect(&HeaderKey::new(), Space::ApplicationData.new_packet_number(VarInt::ZERO)) else { return Ok(()) };
            let Ok(c) = e.decrypt(&Key::new()) else { return Ok(()) };
            (c.packet_number.as_u64(), c.payload.as_less_safe_slice().to_vec())
        }
        _ => return Ok(()),
    };
    let pn_len = (h.first_byte & 0x03) as usize + 1;
    let name = header_type_name(h.ty);
    ensure_that!(pkt.len() >= pn_offset + pn_len, format!("hdr:cleartext-short:{name}"), "packet {}: s2n extracted a packet number although only {} bytes follow the header", hex(pkt), pkt.len() - pn_offset);
    let mut t = 0u64;
    for b in &pkt[pn_offset..pn_offset + pn_len] {
        t = (t << 8) | *b as u64;
    }
    let want = refquic::decode_packet_number(0, t, 8 * pn_len as u32);
    ensure_that!(pn == want, format!("hdr:cleartext-packet-number:{name}"), "packet {}: packet number bytes at offset {pn_offset} (len {pn_len}) are {t:#x} = {want}, s2n reports {pn}", hex(pkt));
    ensure_that!(payload == pkt[pn_offset + pn_len..], format!("hdr:cleartext-payload:{name}"), "packet {}: payload should be the {} bytes after the packet number, s2n returns {} bytes", hex(pkt), pkt.len() - pn_offset - pn_len, payload.len());
    obs.class("cleartext-view-compared");
    Ok(())
}

/// returns the number of complete headers both decoders agreed on
fn diff_datagram(dg: &[u8], short_dcid_len: usize, obs: &mut Obs) -> Result<usize, Fail> {
    use s2n_quic_core::{connection::id::ConnectionInfo, inet::SocketAddress};
    let addr = SocketAddress::default();
    let info = ConnectionInfo::new(&addr);
    let mut off = 0;
    let mut agreed = 0;
    while off < dg.len() {
        let rest = &dg[off..];
        let r = parse_header(rest, short_dcid_len);
        let mut copy = rest.to_vec();
        let total = copy.len();
        let s = ProtectedPacket::decode(DecoderBufferMut::new(&mut copy), &info, &short_dcid_len);
        let h = match r {
            Err(e) => {
                if let Ok((p, _)) = &s {
                    let d = format!("{p:?}");
                    fail!("hdr:s2n-accepts-malformed", "datagram {} at offset {off} (short dcid len {short_dcid_len}): reference parser rejects it ({e:?}), s2n decodes {}", hex(dg), &d[..d.len().min(160)]);
                }
                obs.class("outcome:both-reject");
                break;
            }
            Ok(h) => h,
        };
        let name = header_type_name(h.ty);
        let long_cid = h.dcid.len() > 20 || h.scid.as_ref().map_or(false, |c| c.len() > 20);
        // which outcomes does the RFC allow?
        let (must_accept, must_reject, class): (bool, bool, &'static str) = if h.is_long() && h.version != Some(QUIC_V1) && h.version != Some(0) {
            // only the version-independent properties (RFC 8999) are known
            (false, false, "latitude:unknown-version")
        } else if h.ty == RefPacketType::VersionNegotiation && long_cid {
            (false, false, "latitude:vn-long-cid")
        } else {
            match h.validate() {
                Ok(()) => (true, false, "valid"),
                // §17.2: "Endpoints that receive a version 1 long header with a value larger
                // than 20 MUST drop the packet." s2n checks Initial packets after version
                // negotiation (deferred), all other types in the decoder.
                Err(InvalidKind::ConnectionIdTooLong) if h.ty == RefPacketType::Initial => (false, false, "deferred:initial-long-cid"),
                Err(InvalidKind::ConnectionIdTooLong) => (false, true, "invalid:long-cid"),
                Err(k) => (false, false, invalid_class(k, s.is_ok())),
            }
        };
        obs.class(class);
        let (p, remaining) = match s {
            Err(e) => {
                ensure_that!(!must_accept, format!("hdr:s2n-rejects-valid:{name}"), "datagram {} at offset {off} (short dcid len {short_dcid_len}): reference parses a valid {name} header ({} bytes, pn at {:?}), s2n fails with {e:?}", hex(dg), h.packet_len, h.pn_offset);
                obs.class("outcome:s2n-rejects");
                break;
            }
            Ok((p, rem)) => {
                let n = rem.len();
                (p, n)
            }
        };
        ensure_that!(!must_reject, format!("hdr:s2n-accepts-long-cid:{name}"), "datagram {} at offset {off}: version 1 {name} header with a connection id of more than 20 bytes (dcid {}, scid {:?}) was accepted", hex(dg), h.dcid.len(), h.scid.as_ref().map(|c| c.len()));
        let s2n_header_len = match cmp_header(&h, &p) {
            Ok(x) => x,
            Err(why) => fail!(format!("hdr:field-mismatch:{name}"), "datagram {} at offset {off} (short dcid len {short_dcid_len}): {why}", hex(dg)),
        };
        ensure_that!(s2n_header_len == h.pn_offset, format!("hdr:pn-offset:{name}"), "datagram {} at offset {off}: s2n header_len {s2n_header_len:?}, reference packet number offset {:?}", hex(dg), h.pn_offset);
        let consumed = total - remaining;
        ensure_that!(consumed == h.packet_len, format!("hdr:consumed-mismatch:{name}"), "datagram {} at offset {off}: s2n consumed {consumed} bytes, reference packet length {}", hex(dg), h.packet_len);
        null_crypto_view(&h, &rest[..h.packet_len], p, obs)?;
        obs.class(name);
        obs.class_if(!h.minimal, "input:non-minimal-varints");
        obs.class("outcome:agree-value");
        agreed += 1;
        ensure_that!(consumed >= 1, "hdr:no-progress", "a packet of zero bytes was decoded");
        off += consumed;
    }
    obs.class_if(agreed >= 2, "coalesced>=2");
    Ok(agreed)
}

fn header_oracle(case: &HeaderCase, obs: &mut Obs) -> CaseResult {
    let (dg, n, near_valid) = match case {
        HeaderCase::Gen { packets, short_dcid_len, muts } => {
            let n = *short_dcid_len as usize;
            let mut dg = vec![];
            let mut len_fields = vec![];
            for s in packets {
                let h = spec_header(s, n);
                let start = dg.len();
                encode_header(&h, &s.body, s.token_len_bump, s.length_bump, &mut dg);
                if matches!(h.ty, RefPacketType::Initial | RefPacketType::ZeroRtt | RefPacketType::Handshake) {
                    // last byte of Length, and the two connection id length bytes
                    len_fields.push(dg.len() - s.body.len() - 1);
                }
                if h.is_long() {
                    len_fields.push(start + 5);
                    len_fields.push(start + 6 + h.dcid.len());
                }
            }
            obs.class(if muts.is_empty() { "family:grammar" } else { "family:mutated" });
            if muts.is_empty() && dg.len() <= 200 {
                for cut in 0..dg.len() {
                    let mut scratch = Obs::default();
                    diff_datagram(&dg[..cut], n, &mut scratch)?;
                }
            }
            apply_mutations(&mut dg, &len_fields, muts);
            (dg, n, muts.len() <= 2)
        }
        HeaderCase::Raw { bytes, short_dcid_len } => {
            obs.class("family:raw");
            (bytes.clone(), *short_dcid_len as usize, false)
        }
        HeaderCase::Sample { which, muts, short_dcid_len } => {
            let samples = packet_samples();
            if samples.is_empty() {
                obs.class("family:sample-files-missing");
                return Ok(());
            }
            obs.class("family:sample");
            let mut b = samples[pick_index(*which, samples.len())].1.clone();
            apply_mutations(&mut b, &[], muts);
            (b, *short_dcid_len as usize, muts.len() <= 2)
        }
    };
    let agreed = diff_datagram(&dg, n, obs)?;
    obs.nontrivial(agreed >= 1 || near_valid);
    obs.sample = Some(serde_json::json!({ "datagram": hex(&dg), "short_dcid_len": n, "headers_decoded": agreed }));
    Ok(())
}

fn cid_strategy() -> BoxedStrategy<Vec<u8>> {
    prop_oneof![
        10 => (0usize..21, any::<u64>()).prop_map(|(n, k)| prf_vec(k, 0, n)),
        2 => (prop_oneof![Just(20usize), Just(21), Just(22), Just(255)], any::<u64>()).prop_map(|(n, k)| prf_vec(k, 0, n)),
        1 => (21usize..256, any::<u64>()).prop_map(|(n, k)| prf_vec(k, 0, n)),
    ]
    .boxed()
}

fn hdr_spec_strategy(last: bool) -> BoxedStrategy<HdrSpec> {
    let ty = if last { prop_oneof![2 => 0u8..3, 1 => Just(3u8), 1 => Just(4u8), 3 => Just(5u8)].boxed() } else { (0u8..3).boxed() };
    (
        (ty, any::<u8>(), prop_oneof![12 => Just(1u32), 1 => Just(0u32), 1 => any::<u32>(), 1 => Just(0xff00_001du32), 1 => Just(0x6b33_43cfu32)]),
        (cid_strategy(), cid_strategy()),
        prop_oneof![3 => Just(vec![]), 4 => pvec(any::<u8>(), 1..40), 1 => (62usize..67, any::<u64>()).prop_map(|(n, k)| prf_vec(k, 0, n))],
        prop_oneof![6 => (0usize..40, any::<u64>()).prop_map(|(n, k)| prf_vec(k, 0, n)), 2 => (62usize..67, any::<u64>()).prop_map(|(n, k)| prf_vec(k, 0, n)), 1 => (1190usize..1210, any::<u64>()).prop_map(|(n, k)| prf_vec(k, 0, n))],
        prop_oneof![8 => pvec(prop_oneof![Just(1u32), any::<u32>()], 1..5), 1 => Just(vec![])],
        (prop_oneof![5 => Just(0u8), 1 => 1u8..4], prop_oneof![5 => Just(0u8), 1 => 1u8..4]),
    )
        .prop_map(|((ty, low_bits, version), (dcid, scid), token, body, versions, (token_len_bump, length_bump))| HdrSpec {
            ty,
            low_bits,
            version,
            dcid,
            scid,
            token,
            body,
            versions,
            token_len_bump,
            length_bump,
        })
        .boxed()
}

fn header_strategy(_t: Tier) -> BoxedStrategy<HeaderCase> {
    let packets = prop_oneof![
        3 => hdr_spec_strategy(true).prop_map(|p| vec![p]),
        2 => (hdr_spec_strategy(false), hdr_spec_strategy(true)).prop_map(|(a, b)| vec![a, b]),
        1 => (hdr_spec_strategy(false), hdr_spec_strategy(false), hdr_spec_strategy(true)).prop_map(|(a, b, c)| vec![a, b, c]),
    ];
    prop_oneof![
        10 => (packets, 0u8..21, prop_oneof![3 => Just(vec![]), 4 => pvec(mutation_strategy(), 1..3), 1 => pvec(mutation_strategy(), 3..6)])
            .prop_map(|(packets, short_dcid_len, muts)| HeaderCase::Gen { packets, short_dcid_len, muts }),
        2 => (pvec(any::<u8>(), 0..64), 0u8..21).prop_map(|(bytes, short_dcid_len)| HeaderCase::Raw { bytes, short_dcid_len }),
        // long-header-looking noise
        2 => (prop_oneof![Just(0xc0u8), Just(0xd1), Just(0xe2), Just(0xf3), Just(0x80), 0x80u8..=0xff], prop_oneof![4 => Just(1u32), 1 => Just(0u32), 1 => any::<u32>()], pvec(prop_oneof![2 => any::<u8>(), 3 => 0u8..24], 0..60), 0u8..21)
            .prop_map(|(first, v, rest, short_dcid_len)| {
                let mut bytes = vec![first];
                bytes.extend_from_slice(&v.to_be_bytes());
                bytes.extend_from_slice(&rest);
                HeaderCase::Raw { bytes, short_dcid_len }
            }),
        2 => (any::<u16>(), pvec(mutation_strategy(), 0..4), prop_oneof![3 => Just(20u8), 1 => 0u8..21])
            .prop_map(|(which, muts, short_dcid_len)| HeaderCase::Sample { which, muts, short_dcid_len }),
    ]
    .boxed()
}

// ---------------------------------------------------------------------------------------
// sub-check `packet_numbers`

#[derive(Clone, Debug, Hash, PartialEq, Eq, Serialize, Deserialize)]
pub struct PnCase {
    /// 0 Initial, 1 Handshake, 2 ApplicationData
    pub space: u8,
    /// largest acknowledged (truncate) / largest received (expand)
    pub largest: u64,
    /// full packet number = largest + delta (clamped to the packet number space)
    pub delta: i64,
    /// arbitrary truncated value for the expand differential
    pub truncated: u32,
    /// its length in bytes, 1..=4
    pub len: u8,
}

fn pn_oracle(c: &PnCase, obs: &mut Obs) -> CaseResult {
    use s2n_quic_core::packet::number::PacketNumberSpace as Space;
    let space = [Space::Initial, Space::Handshake, Space::ApplicationData][c.space as usize % 3];
    let largest = c.largest.min(VARINT_MAX);
    let pn = (largest as i128 + c.delta as i128).clamp(0, VARINT_MAX as i128) as u64;
    let s_largest = space.new_packet_number(VarInt::new(largest).unwrap());
    let s_pn = space.new_packet_number(VarInt::new(pn).unwrap());

    // --- expand an arbitrary truncated value (A.3)
    let len = (c.len.clamp(1, 4)) as usize;
    let bits = 8 * len as u32;
    let t = if len == 4 { c.truncated as u64 } else { c.truncated as u64 & ((1u64 << bits) - 1) };
    let be = (t as u32).to_be_bytes();
    let wire = &be[4 - len..];
    let pn_len = space.new_packet_number_len((len - 1) as u8);
    ensure_that!(pn_len.bytesize() == len, "pn:len-from-tag", "packet number length bits {} give {} bytes", len - 1, pn_len.bytesize());
    let (tpn, rest) = match pn_len.decode_truncated_packet_number(DecoderBuffer::new(wire)) {
        Ok(x) => x,
        Err(e) => fail!("pn:decode-truncated", "{len}-byte packet number {} failed to decode: {e:?}", hex(wire)),
    };
    ensure_that!(rest.is_empty(), "pn:decode-truncated", "{len}-byte packet number {} left {} bytes", hex(wire), rest.len());
    ensure_that!(s2n_to_vec(&tpn) == wire, "pn:truncated-round-trip", "truncated packet number {} re-encodes to {}", hex(wire), hex(&s2n_to_vec(&tpn)));
    let want = refquic::decode_packet_number(largest, t, bits);
    let got = tpn.expand(s_largest).as_u64();
    if want <= VARINT_MAX {
        ensure_that!(got == want, "pn:expand", "expand(truncated {t:#x} on {bits} bits, largest {largest}) = {got}, RFC 9000 A.3 gives {want}");
        obs.class("expand:compared");
    } else {
        // A.3 yields a number outside the packet number space; nothing to compare
        obs.class("expand:beyond-2^62");
    }

    // --- truncate (A.2) and expand again
    let s_t = s_pn.truncate(s_largest);
    if pn <= largest {
        // A.2 is undefined for num_unacked <= 0; only totality is required
        obs.class("truncate:not-ahead");
        return Ok(());
    }
    let num_unacked = pn - largest;
    let a2 = refquic::encode_packet_number_len(pn, Some(largest)).unwrap();
    // §17.1 "MUST use a packet number size able to represent more than twice as large a
    // range as the difference"; A.2 "at least twice": both readings are accepted
    let strict = [1usize, 2, 3, 4, 5, 6, 7, 8].into_iter().find(|n| (1u128 << (8 * n)) > 2 * num_unacked as u128).unwrap();
    match s_t {
        None => {
            ensure_that!(strict > 4, "pn:truncate-none", "truncate(pn {pn}, largest acked {largest}) = None although {strict} bytes suffice");
            obs.class("truncate:too-far");
        }
        Some(tp) => {
            let n = tp.len().bytesize();
            ensure_that!(a2 <= 4 && n >= a2 && n <= strict, "pn:truncate-len", "truncate(pn {pn}, largest acked {largest}) uses {n} bytes; RFC 9000 A.2 requires {a2} (strict reading of §17.1: {strict})");
            let bytes = s2n_to_vec(&tp);
            let full = pn.to_be_bytes();
            ensure_that!(bytes == full[8 - n..], "pn:truncate-bytes", "truncate(pn {pn:#x}, {largest}) encodes {}, expected the {n} least significant bytes {}", hex(&bytes), hex(&full[8 - n..]));
            let back = tp.expand(s_largest).as_u64();
            ensure_that!(back == pn, "pn:round-trip", "pn {pn} truncated against {largest} ({n} bytes) expands to {back}");
            let mut tv = 0u64;
            for b in &bytes {
                tv = (tv << 8) | *b as u64;
            }
            let refback = refquic::decode_packet_number(largest, tv, 8 * n as u32);
            ensure_that!(refback == pn, "pn:round-trip-ref", "reference A.3 decodes s2n's truncation of {pn} (largest {largest}, {n} bytes) as {refback}");
            obs.class(match n { 1 => "truncate:1-byte", 2 => "truncate:2-byte", 3 => "truncate:3-byte", _ => "truncate:4-byte" });
            obs.class_if(n != a2, "truncate:one-more-than-A.2");
        }
    }
    obs.nontrivial(true);
    Ok(())
}

fn pn_strategy(_t: Tier) -> BoxedStrategy<PnCase> {
    let near = |p: i64| (Just(p), -3i64..=3, prop::bool::weighted(0.15)).prop_map(|(p, d, neg)| if neg { -(p + d) } else { p + d });
    let delta = prop_oneof![
        2 => near(1 << 7),
        2 => near(1 << 8),
        2 => near(1 << 15),
        2 => near(1 << 16),
        2 => near(1 << 23),
        2 => near(1 << 24),
        2 => near(1 << 31),
        2 => near(1 << 32),
        3 => 0i64..300,
        1 => -(1i64 << 33)..(1i64 << 33),
        2 => 0i64..(1i64 << 33),
        1 => any::<i64>(),
    ];
    let largest = prop_oneof![
        3 => varint_value(),
        2 => 0u64..100_000,
        2 => 0u64..=VARINT_MAX,
        2 => (0u64..(1u64 << 33)).prop_map(|b| VARINT_MAX - b),
        // just below / above a multiple of the window sizes
        2 => (1u64..(1 << 30), prop_oneof![Just(8u32), Just(16), Just(24), Just(32)], -3i64..=3).prop_map(|(k, b, d)| ((k << b) as i64 + d).max(0) as u64 & VARINT_MAX),
    ];
    (0u8..3, largest, delta, prop_oneof![any::<u32>(), Just(0u32), Just(u32::MAX), (0u32..4).prop_map(|k| 0x80808080u32 >> k)], 1u8..5)
        .prop_map(|(space, largest, delta, truncated, len)| PnCase { space, largest, delta, truncated, len })
        .boxed()
}

// ---------------------------------------------------------------------------------------
// sub-check `transport_params_codec`

use refquic::params as rp;
use refquic::{encode_transport_params_opts, parse_transport_params, RefParams, Role};
use s2n_quic_core::transport::parameters::{
    ClientTransportParameters, MigrationSupport, ServerTransportParameters,
};

#[derive(Clone, Debug, Hash, PartialEq, Eq, Serialize, Deserialize)]
pub enum ParamsCase {
    /// TLVs from the reference encoder (any order, duplicates, unknown ids), then mutations
    Tlvs { sender: Role, tlvs: Vec<(u64, Vec<u8>)>, bumps: Vec<u8>, muts: Vec<Mutation> },
    Raw { sender: Role, bytes: Vec<u8> },
}

/// s2n-quic's private transport parameters (`DcSupportedVersions`, `MtuProbingCompleteSupport`)
const S2N_EXTENSION_PARAMS: [u64; 2] = [0xdc0000, 0xdc0002];

macro_rules! cmp_common_params {
    ($r:expr, $s:expr) => {{
        let r: &RefParams = $r;
        let s = $s;
        same!("max_idle_timeout", r.max_idle_timeout, s.max_idle_timeout.as_u64());
        same!("max_udp_payload_size", r.max_udp_payload_size, s.max_udp_payload_size.as_u64());
        same!("initial_max_data", r.initial_max_data, s.initial_max_data.as_u64());
        same!("initial_max_stream_data_bidi_local", r.initial_max_stream_data_bidi_local, s.initial_max_stream_data_bidi_local.as_u64());
        same!("initial_max_stream_data_bidi_remote", r.initial_max_stream_data_bidi_remote, s.initial_max_stream_data_bidi_remote.as_u64());
        same!("initial_max_stream_data_uni", r.initial_max_stream_data_uni, s.initial_max_stream_data_uni.as_u64());
        same!("initial_max_streams_bidi", r.initial_max_streams_bidi, s.initial_max_streams_bidi.as_u64());
        same!("initial_max_streams_uni", r.initial_max_streams_uni, s.initial_max_streams_uni.as_u64());
        same!("max_datagram_frame_size", r.max_datagram_frame_size, s.max_datagram_frame_size.as_u64());
        same!("ack_delay_exponent", r.ack_delay_exponent, *s.ack_delay_exponent as u64);
        same!("max_ack_delay", r.max_ack_delay, s.max_ack_delay.as_u64());
        same!("disable_active_migration", r.disable_active_migration, s.migration_support == MigrationSupport::Disabled);
        same!("active_connection_id_limit", r.active_connection_id_limit, s.active_connection_id_limit.as_u64());
        same!("initial_source_connection_id", r.initial_source_connection_id.as_deref(), s.initial_source_connection_id.as_ref().map(|c| c.as_bytes()));
    }};
}

fn cmp_client_params(r: &RefParams, s: &ClientTransportParameters) -> Result<(), String> {
    cmp_common_params!(r, s);
    Ok(())
}

fn cmp_server_params(r: &RefParams, s: &ServerTransportParameters) -> Result<(), String> {
    cmp_common_params!(r, s);
    same!("original_destination_connection_id", r.original_destination_connection_id.as_deref(), s.original_destination_connection_id.as_ref().map(|c| c.as_bytes()));
    same!("retry_source_connection_id", r.retry_source_connection_id.as_deref(), s.retry_source_connection_id.as_ref().map(|c| c.as_bytes()));
    same!("stateless_reset_token", r.stateless_reset_token, s.stateless_reset_token.map(|t| t.into_inner()));
    match (&r.preferred_address, &s.preferred_address) {
        (None, None) => {}
        (Some(a), Some(b)) => {
            let mut v4 = a.ipv4.to_vec();
            v4.extend_from_slice(&a.ipv4_port.to_be_bytes());
            let mut v6 = a.ipv6.to_vec();
            v6.extend_from_slice(&a.ipv6_port.to_be_bytes());
            // s2n maps the all-zero address:port to None ("not specified", §18.2)
            same!("preferred_address.ipv4", v4, b.ipv4_address.as_ref().map(s2n_to_vec).unwrap_or(vec![0; 6]));
            same!("preferred_address.ipv6", v6, b.ipv6_address.as_ref().map(s2n_to_vec).unwrap_or(vec![0; 18]));
            same!("preferred_address.connection_id", &a.cid[..], b.connection_id.as_bytes());
            same!("preferred_address.stateless_reset_token", a.reset_token, b.stateless_reset_token.into_inner());
        }
        (a, b) => return Err(format!("field `preferred_address`: reference {a:?}, s2n {b:?}")),
    }
    Ok(())
}

/// everything RFC 9000 has an opinion on, without what is only s2n's
fn strip_unknown(mut p: RefParams) -> RefParams {
    p.unknown.clear();
    p
}

fn params_oracle(case: &ParamsCase, obs: &mut Obs) -> CaseResult {
    let (sender, bytes, near_valid) = match case {
        ParamsCase::Tlvs { sender, tlvs, bumps, muts } => {
            let mut b = vec![];
            encode_transport_params_opts(tlvs, bumps, &mut b);
            apply_mutations(&mut b, &[], muts);
            obs.class(if muts.is_empty() { "family:grammar" } else { "family:mutated" });
            (*sender, b, muts.len() <= 2 && tlvs.len() >= 2)
        }
        ParamsCase::Raw { sender, bytes } => {
            obs.class("family:raw");
            (*sender, bytes.clone(), false)
        }
    };
    obs.class(if sender == Role::Client { "sender:client" } else { "sender:server" });
    let raw = parse_transport_params(&bytes);
    let typed = raw.as_ref().ok().map(|t| RefParams::from_tlvs(t));

    // decode with s2n; keep a uniform view of the result
    let s_client = if sender == Role::Client { Some(DecoderBuffer::new(&bytes).decode::<ClientTransportParameters>()) } else { None };
    let s_server = if sender == Role::Server { Some(DecoderBuffer::new(&bytes).decode::<ServerTransportParameters>()) } else { None };
    let s2n_ok = s_client.as_ref().map_or(false, |r| r.is_ok()) || s_server.as_ref().map_or(false, |r| r.is_ok());
    let s2n_err = format!("{:?}{:?}", s_client.as_ref().and_then(|r| r.as_ref().err()), s_server.as_ref().and_then(|r| r.as_ref().err()));

    let tlvs = match raw {
        Err(e) => {
            ensure_that!(!s2n_ok, "tp:s2n-accepts-malformed", "block {} (from {sender:?}): not a sequence of complete TLVs ({e:?}) but s2n accepts it", hex(&bytes));
            obs.class("outcome:both-reject");
            return Ok(());
        }
        Ok(t) => t,
    };
    obs.nontrivial(tlvs.len() >= 2 || near_valid);
    let has_ext = tlvs.iter().any(|(id, _)| S2N_EXTENSION_PARAMS.contains(id));
    obs.class_if(has_ext, "skip:s2n-extension");
    obs.class_if(tlvs.iter().any(|(id, _)| !rp::KNOWN_IDS.contains(id) && !S2N_EXTENSION_PARAMS.contains(id)), "with-unknown-ids");
    let typed = typed.unwrap();
    let rparams = match typed {
        Err(e) => {
            // a known parameter whose value does not have the format of §18.2
            ensure_that!(!s2n_ok, "tp:s2n-accepts-bad-value-format", "block {} (from {sender:?}): {e:?}, but s2n accepts it", hex(&bytes));
            obs.class("outcome:value-format-rejected");
            return Ok(());
        }
        Ok(p) => p,
    };
    if !s2n_ok {
        let violations = rparams.range_violations(sender);
        // s2n-specific strictness that RFC 9000 neither demands nor forbids
        let short_cid = rparams.original_destination_connection_id.as_ref().map_or(false, |c| c.len() < 8)
            || rparams.retry_source_connection_id.as_ref().map_or(false, |c| c.len() < 4);
        let pa_unspecified = rparams.preferred_address.as_ref().map_or(false, |a| a.ipv4 == [0; 4] && a.ipv4_port == 0 && a.ipv6 == [0; 16] && a.ipv6_port == 0);
        if !violations.is_empty() {
            obs.class("latitude:range-or-role-rule(C14)");
        } else if has_ext {
            obs.class("latitude:s2n-extension-value");
        } else if short_cid {
            obs.class("latitude:short-connection-id-parameter");
        } else if pa_unspecified {
            obs.class("latitude:preferred-address-unspecified");
        } else {
            // §16: integers need not be in their shortest form; ack_delay_exponent is an integer (§18.2)
            let nonmin_ade = tlvs.iter().any(|(id, v)| *id == rp::ACK_DELAY_EXPONENT && v.len() > 1);
            let key = if nonmin_ade { "tp:s2n-rejects-valid:ack_delay_exponent-non-minimal-varint" } else { "tp:s2n-rejects-valid" };
            fail!(key, "block {} (from {sender:?}) is well-formed and within all ranges of RFC 9000 §18.2 ({:?}) but s2n rejects it: {s2n_err}", hex(&bytes), tlvs.iter().map(|(id, v)| (id, hex(v))).collect::<Vec<_>>());
        }
        obs.class("outcome:s2n-rejects");
        return Ok(());
    }

    // s2n accepted: every field it reports must be the reference's typed view
    let cmp = match (&s_client, &s_server) {
        (Some(Ok((p, _))), _) => cmp_client_params(&rparams, p),
        (_, Some(Ok((p, _)))) => cmp_server_params(&rparams, p),
        _ => unreachable!(),
    };
    if let Err(why) = cmp {
        fail!("tp:field-mismatch", "block {} (from {sender:?}): {why}", hex(&bytes));
    }
    obs.class("outcome:agree-value");
    obs.class_if(!rparams.range_violations(sender).is_empty(), "deferred:range-or-role-rule(C14)");

    // encode -> decode round trip with the announced size
    let (encoded, reparsed_equal) = match (s_client, s_server) {
        (Some(Ok((p, rest))), _) => {
            ensure_that!(rest.is_empty(), "tp:consumed", "s2n left {} bytes of the block", rest.len());
            let e = s2n_to_vec(&p);
            s2n_encode_checked(&p, &e, "tp:encode")?;
            let back = DecoderBuffer::new(&e).decode::<ClientTransportParameters>();
            (e.clone(), matches!(back, Ok((q, _)) if q == p))
        }
        (_, Some(Ok((p, rest)))) => {
            ensure_that!(rest.is_empty(), "tp:consumed", "s2n left {} bytes of the block", rest.len());
            let e = s2n_to_vec(&p);
            s2n_encode_checked(&p, &e, "tp:encode")?;
            let back = DecoderBuffer::new(&e).decode::<ServerTransportParameters>();
            (e.clone(), matches!(back, Ok((q, _)) if q == p))
        }
        _ => unreachable!(),
    };
    ensure_that!(reparsed_equal, "tp:round-trip", "block {}: s2n re-encodes it as {} which does not decode to the same parameters", hex(&bytes), hex(&encoded));
    // the re-encoded block means the same to the reference parser, and uses shortest varints
    let again = RefParams::parse(&encoded);
    let mut want = strip_unknown(rparams.clone());
    want.duplicates.clear();
    match again {
        Ok(a) => ensure_that!(strip_unknown(a.clone()) == want, "tp:reencode-differs", "block {}: s2n re-encodes it as {}; reference reads {:?}, original {:?}", hex(&bytes), hex(&encoded), strip_unknown(a), want),
        Err(e) => fail!("tp:reencode-malformed", "block {}: s2n re-encodes it as {} which the reference parser rejects: {e:?}", hex(&bytes), hex(&encoded)),
    }
    let mut minimal = vec![];
    refquic::encode_transport_params(&parse_transport_params(&encoded).unwrap(), &mut minimal);
    ensure_that!(minimal == encoded, "tp:reencode-not-minimal", "s2n emits {} — ids/lengths not in shortest form (shortest: {})", hex(&encoded), hex(&minimal));
    Ok(())
}

fn cid_value(min_ok: usize) -> BoxedStrategy<Vec<u8>> {
    prop_oneof![
        8 => (min_ok..21, any::<u64>()).prop_map(|(n, k)| prf_vec(k, 0, n)),
        1 => (0usize..min_ok.max(1), any::<u64>()).prop_map(|(n, k)| prf_vec(k, 0, n)),
        1 => (21usize..30, any::<u64>()).prop_map(|(n, k)| prf_vec(k, 0, n)),
    ]
    .boxed()
}

/// integer value: mostly shortest form, sometimes widened, rarely malformed
fn int_bytes(v: BoxedStrategy<u64>) -> BoxedStrategy<Vec<u8>> {
    (v, prop_oneof![10 => Just(0u8), 2 => 1u8..4], prop_oneof![14 => Just(0u8), 1 => Just(1u8), 1 => Just(2u8)])
        .prop_map(|(v, bump, damage)| {
            let mut b = vec![];
            let width = (varint_len(v) << bump).min(8);
            refquic::encode_varint_width(v, width, &mut b);
            match damage {
                1 => b.push(0),
                2 => {
                    b.pop();
                }
                _ => {}
            }
            b
        })
        .boxed()
}

fn tlv_strategy(sender: Role) -> BoxedStrategy<(u64, Vec<u8>)> {
    let generic = || int_bytes(vi());
    let known = prop_oneof![
        (Just(rp::MAX_IDLE_TIMEOUT), generic()),
        (Just(rp::MAX_UDP_PAYLOAD_SIZE), int_bytes(prop_oneof![6 => 1200u64..=65527, 1 => 0u64..1200, 1 => 65528u64..100000].boxed())),
        (Just(rp::INITIAL_MAX_DATA), generic()),
        (Just(rp::INITIAL_MAX_STREAM_DATA_BIDI_LOCAL), generic()),
        (Just(rp::INITIAL_MAX_STREAM_DATA_BIDI_REMOTE), generic()),
        (Just(rp::INITIAL_MAX_STREAM_DATA_UNI), generic()),
        (Just(rp::INITIAL_MAX_STREAMS_BIDI), int_bytes(max_streams_value())),
        (Just(rp::INITIAL_MAX_STREAMS_UNI), int_bytes(max_streams_value())),
        (Just(rp::ACK_DELAY_EXPONENT), int_bytes(prop_oneof![8 => 0u64..=20, 1 => 21u64..300].boxed())),
        (Just(rp::MAX_ACK_DELAY), int_bytes(prop_oneof![8 => 0u64..16384, 1 => 16384u64..40000].boxed())),
        (Just(rp::DISABLE_ACTIVE_MIGRATION), prop_oneof![9 => Just(vec![]), 1 => Just(vec![0u8])]),
        (Just(rp::ACTIVE_CONNECTION_ID_LIMIT), int_bytes(prop_oneof![8 => 2u64..100, 1 => 0u64..2, 1 => vi()].boxed())),
        (Just(rp::INITIAL_SOURCE_CONNECTION_ID), cid_value(0)),
        (Just(rp::MAX_DATAGRAM_FRAME_SIZE), generic()),
    ];
    let server_only = prop_oneof![
        (Just(rp::ORIGINAL_DESTINATION_CONNECTION_ID), cid_value(8)),
        (Just(rp::STATELESS_RESET_TOKEN), prop_oneof![9 => any::<[u8; 16]>().prop_map(|t| t.to_vec()), 1 => pvec(any::<u8>(), 0..20)]),
        (Just(rp::RETRY_SOURCE_CONNECTION_ID), cid_value(4)),
        (
            Just(rp::PREFERRED_ADDRESS),
            (any::<[u8; 4]>(), any::<u16>(), any::<[u8; 16]>(), any::<u16>(), prop_oneof![8 => cid_value(1), 1 => Just(vec![])], any::<[u8; 16]>(), 0u8..12, 0u8..12)
                .prop_map(|(ipv4, ipv4_port, ipv6, ipv6_port, cid, reset_token, zero, damage)| {
                    let mut a = rp::RefPreferredAddress { ipv4, ipv4_port, ipv6, ipv6_port, cid, reset_token };
                    if zero & 1 == 1 && zero < 6 {
                        a.ipv4 = [0; 4];
                        a.ipv4_port = 0;
                    }
                    if zero & 2 == 2 && zero < 6 {
                        a.ipv6 = [0; 16];
                        a.ipv6_port = 0;
                    }
                    let mut v = a.encode();
                    match damage {
                        0 => v.push(7),
                        1 => {
                            v.pop();
                        }
                        _ => {}
                    }
                    v
                })
        ),
    ];
    // unknown ids incl. the reserved "greasing" ids 31 * N + 27 (§18.1), and s2n's own
    let unknown_id = prop_oneof![
        3 => (0u64..1000).prop_map(|n| 31 * n + 27),
        2 => 0x11u64..0x20,
        2 => 0x21u64..0x4000,
        1 => vi().prop_map(|v| if rp::KNOWN_IDS.contains(&v) { 0x3f } else { v }),
    ];
    let server_weight = if sender == Role::Server { 5 } else { 1 };
    prop_oneof![
        14 => known,
        server_weight => server_only,
        4 => (unknown_id, pvec(any::<u8>(), 0..12)),
        1 => (prop_oneof![Just(0xdc0000u64), Just(0xdc0002)], prop_oneof![Just(vec![]), Just(vec![1u8]), pvec(any::<u8>(), 0..6)]),
    ]
    .boxed()
}

fn params_strategy(_t: Tier) -> BoxedStrategy<ParamsCase> {
    let role = prop_oneof![Just(Role::Client), Just(Role::Server)];
    let tlvs = role.clone().prop_flat_map(|sender| {
        (
            Just(sender),
            pvec(tlv_strategy(sender), 0..9),
            // make the ids distinct unless asked otherwise (duplicates are a C14 matter)
            prop::bool::weighted(0.1),
        )
            .prop_map(|(sender, mut tlvs, keep_dups)| {
                if !keep_dups {
                    let mut seen = vec![];
                    tlvs.retain(|(id, _)| {
                        let dup = seen.contains(id);
                        seen.push(*id);
                        !dup
                    });
                }
                (sender, tlvs)
            })
    });
    prop_oneof![
        10 => (tlvs, bumps_strategy(), prop_oneof![4 => Just(vec![]), 3 => pvec(mutation_strategy(), 1..3), 1 => pvec(mutation_strategy(), 3..6)])
            .prop_map(|((sender, tlvs), bumps, muts)| ParamsCase::Tlvs { sender, tlvs, bumps, muts }),
        1 => (role.clone(), pvec(any::<u8>(), 0..40)).prop_map(|(sender, bytes)| ParamsCase::Raw { sender, bytes }),
        // TLV-shaped noise: small ids, small lengths
        1 => (role, pvec(prop_oneof![0u8..0x12, 0u8..4, any::<u8>()], 0..40)).prop_map(|(sender, bytes)| ParamsCase::Raw { sender, bytes }),
    ]
    .boxed()
}

// ---------------------------------------------------------------------------------------

pub fn subs() -> Vec<Box<dyn SubCheck>> {
    vec![
        Box::new(EnumCheck::<VarintCase> {
            name: "varint_exhaustive",
            total: varint_enum_total,
            case: varint_enum_case,
            oracle: varint_oracle,
        }),
        Box::new(PropCheck::<VarintCase, _> {
            name: "varint",
            cases: |t| t.pick(400_000, 30_000_000),
            strategy: varint_strategy,
            oracle: varint_oracle,
            max_shrink_iters: 5_000,
        }),
        Box::new(PropCheck::<FrameValueCase, _> {
            name: "frame_values",
            cases: |t| t.pick(1_100_000, 80_000_000),
            strategy: frame_value_strategy,
            oracle: frame_value_oracle,
            max_shrink_iters: 20_000,
        }),
        Box::new(PropCheck::<FrameBytesCase, _> {
            name: "frame_bytes",
            cases: |t| t.pick(1_800_000, 120_000_000),
            strategy: frame_bytes_strategy,
            oracle: frame_bytes_oracle,
            max_shrink_iters: 20_000,
        }),
        Box::new(PropCheck::<HeaderCase, _> {
            name: "packet_headers",
            cases: |t| t.pick(1_100_000, 80_000_000),
            strategy: header_strategy,
            oracle: header_oracle,
            max_shrink_iters: 20_000,
        }),
        Box::new(PropCheck::<PnCase, _> {
            name: "packet_numbers",
            cases: |t| t.pick(800_000, 60_000_000),
            strategy: pn_strategy,
            oracle: pn_oracle,
            max_shrink_iters: 5_000,
        }),
        Box::new(PropCheck::<ParamsCase, _> {
            name: "transport_params_codec",
            cases: |t| t.pick(1_100_000, 80_000_000),
            strategy: params_strategy,
            oracle: params_oracle,
            max_shrink_iters: 20_000,
        }),
    ]
}

pub fn property() -> Property {
    Property {
        id: "C05",
        rule: "Differential of s2n-quic-core's codecs against refquic (independent RFC 9000 §16-§19 / RFC 9221 transcription). \
               varint: all 1- and 2-byte strings + first-byte/length/fill sweep (exhaustive), random and boundary-width byte strings <= 9 bytes, \
               values biased to 0, 63/64, 16383/16384, 2^30+-1, 2^62-1 and beyond. frame_values: one typed frame of every RFC 9000/9221 type \
               (all field ranges, ACK with 0-64 ranges incl. adversarial gaps, STREAM/DATAGRAM with every flag combination, payload lengths around \
               63/64 and 16383/16384) encoded minimally and with widened varints by the reference encoder, decoded by s2n, re-encoded by s2n into exactly \
               sized / oversized canary-guarded buffers and the length estimator, plus try_fit. frame_bytes: packet payloads: grammar sequences (every \
               truncation length), 1-6 byte-level mutations (flip, set, insert, delete, truncate, length field +-1, duplicate), splices, raw and \
               type-biased noise, mutated repo sample files; frame after frame both decoders must agree on error-vs-value, all fields and bytes consumed. \
               packet_headers: 1-3 coalesced generated packets of every type (short header with every DCID length 0-20, connection ids up to 255 bytes, \
               versions 1/0/other), every truncation, mutations, noise, repo samples; fields, packet number offset, packet length, and the cleartext view \
               under the no-op testing keys. packet_numbers: (largest, pn) with distances 2^7/8/15/16/23/24/31/32 +-3 vs the literal A.2/A.3 pseudocode. \
               transport_params_codec: TLV blocks from the reference encoder (any order, unknown/greasing ids, widened varints, malformed values), mutations, \
               noise, for both senders. Non-trivial: the reference parser decodes >= 1 complete multi-field frame / >= 1 complete header / >= 2 parameters \
               from the input, or the input is <= 2 byte edits away from such a message; for values: a valid multi-field frame, a defined varint, pn ahead of \
               largest. Distinct = distinct generated cases (hash of the case).",
        assumptions: &[
            "refquic (reference parser/encoder written from RFC 9000 §16-§19, App. A.2/A.3 and RFC 9221; self-tested by round trip and the RFC examples) is the trusted base",
            "latitude classes accept either outcome: non-minimal frame type (§12.4 MAY), s2n extension frame types/parameters 0xdc0000/0xdc0002, RFC validity rules on well-formed input (deferred or rejected), long headers of versions other than 1, Version Negotiation with connection ids > 20 bytes, Initial with connection ids > 20 bytes (validated after version negotiation), transport-parameter range/role/duplicate rules (property C14), ODCID < 8 / retry SCID < 4 bytes, all-unspecified preferred address",
            "version-1 Handshake/0-RTT/Retry headers with a connection id > 20 bytes must be rejected by ProtectedPacket::decode (RFC 9000 §17.2 MUST drop; this is where s2n enforces it)",
            "packet-number length: anything between RFC 9000 A.2 ('at least twice') and the strict reading of §17.1 ('more than twice') is accepted",
            "header protection / AEAD are out of scope (C06/C07); the cleartext view uses crypto::key::testing no-op keys and is compared only when s2n's unprotect/decrypt succeed",
            "repo sample files are read from $VERIF_REPO (default /repo); if absent that family is skipped and counted",
        ],
        subs: subs(),
        shards: 0,
    }
}
