//! C06 (component level): packet protection of `s2n-quic-crypto` for **every** QUIC cipher
//! suite (TLS_AES_128_GCM_SHA256, TLS_AES_256_GCM_SHA384, TLS_CHACHA20_POLY1305_SHA256),
//! the Initial keys, key updates and the generic plumbing in `s2n_quic_core::crypto`
//! (`encrypt` / `protect` / `unprotect` / `decrypt`), compared with an independent
//! transcription of RFC 9001 section 5 / 6 (module [`rfc`]).
//!
//! The reference is written directly on raw primitives: HKDF is built from `aws_lc_rs::hmac`
//! (RFC 5869), `HkdfLabel` is encoded by hand (RFC 8446 7.1), the AEAD is `aws_lc_rs::aead`
//! (seal/open with nonce = iv XOR left-padded packet number), the AES header-protection mask
//! is one raw AES-ECB block (`aws_lc_rs::cipher`), the ChaCha20 mask is an own RFC 8439
//! block function. None of `s2n_quic_crypto`, `s2n_quic_core::crypto::label`, `aws_lc_rs::hkdf`
//! or `aws_lc_rs::aead::quic` is used by the reference. It is validated against the RFC 9001
//! Appendix A vectors (A.1, A.2, A.3, A.5) before the first case of every process
//! (failure = harness error).
//!
//! Sub-checks
//! * `crypto_reference_differential`: AEAD and header protection are deterministic, so a packet
//!   sealed by s2n-quic must be byte-identical to the reference packet; the reference packet
//!   must open under s2n-quic (raw functions and, for well-formed headers, through
//!   `ProtectedPacket::decode` -> `unprotect` -> `decrypt`) to the original packet number and payload.
//! * `crypto_forgery`: a genuine packet is mutated (bit flip anywhere, truncation, extension,
//!   header/body splice with a second packet of the same key, different claimed packet number,
//!   key of another generation / direction / secret); the s2n-quic opener must agree with the
//!   reference opener (which rejects every effective mutation) and never panic.
//! * `crypto_bitflip_exhaustive`: every single-bit flip and every truncation of fixed packets
//!   (all suites and key levels).

use aws_lc_rs::{aead, cipher, hmac};
use bytes::Bytes;
use proptest::prelude::*;
use s2n_codec::{DecoderBufferMut, Encoder, EncoderBuffer};
use s2n_quic_core::{
    connection::id::ConnectionInfo,
    crypto::{self as qcrypto, scatter, HeaderKey, InitialKey as _, Key, OneRttKey as _, ProtectedPayload},
    endpoint,
    inet::SocketAddress,
    packet::{
        number::{PacketNumber, PacketNumberSpace},
        ProtectedPacket,
    },
    varint::VarInt,
};
use s2n_quic_crypto::{
    handshake::{HandshakeHeaderKey, HandshakeKey},
    initial::{InitialHeaderKey, InitialKey},
    one_rtt::{OneRttHeaderKey, OneRttKey},
    zero_rtt::{ZeroRttHeaderKey, ZeroRttKey},
    SecretPair,
};
use serde::{Deserialize, Serialize};
use std::sync::Once;
use vcore::{ensure_that, fail, gen::*, CaseResult, EnumCheck, Obs, PropCheck, SubCheck, Tier};

const TAG_LEN: usize = 16;
const MAX_PN: u64 = (1 << 62) - 1;

// ---------------------------------------------------------------------------------------
// reference: RFC 9001 section 5 transcription on raw primitives

pub mod rfc {
    use super::*;

    #[derive(Clone, Copy, Debug, PartialEq, Eq, Hash, Serialize, Deserialize)]
    pub enum Suite {
        Aes128,
        Aes256,
        ChaCha,
    }

    impl Suite {
        pub const ALL: [Suite; 3] = [Suite::Aes128, Suite::Aes256, Suite::ChaCha];

        pub fn name(self) -> &'static str {
            match self {
                Suite::Aes128 => "TLS_AES_128_GCM_SHA256",
                Suite::Aes256 => "TLS_AES_256_GCM_SHA384",
                Suite::ChaCha => "TLS_CHACHA20_POLY1305_SHA256",
            }
        }
        fn hash(self) -> hmac::Algorithm {
            match self {
                Suite::Aes256 => hmac::HMAC_SHA384,
                _ => hmac::HMAC_SHA256,
            }
        }
        pub fn hash_len(self) -> usize {
            match self {
                Suite::Aes256 => 48,
                _ => 32,
            }
        }
        pub fn key_len(self) -> usize {
            match self {
                Suite::Aes128 => 16,
                _ => 32,
            }
        }
        fn aead(self) -> &'static aead::Algorithm {
            match self {
                Suite::Aes128 => &aead::AES_128_GCM,
                Suite::Aes256 => &aead::AES_256_GCM,
                Suite::ChaCha => &aead::CHACHA20_POLY1305,
            }
        }
    }

    fn hmac_parts(alg: hmac::Algorithm, key: &[u8], parts: &[&[u8]]) -> Vec<u8> {
        let key = hmac::Key::new(alg, key);
        let mut ctx = hmac::Context::with_key(&key);
        for p in parts {
            ctx.update(p);
        }
        ctx.sign().as_ref().to_vec()
    }

    /// RFC 5869 2.2
    pub fn hkdf_extract(alg: hmac::Algorithm, salt: &[u8], ikm: &[u8]) -> Vec<u8> {
        hmac_parts(alg, salt, &[ikm])
    }

    /// RFC 5869 2.3
    pub fn hkdf_expand(alg: hmac::Algorithm, prk: &[u8], info: &[u8], len: usize) -> Vec<u8> {
        let mut out = Vec::with_capacity(len + 64);
        let mut t: Vec<u8> = vec![];
        let mut i = 1u8;
        while out.len() < len {
            t = hmac_parts(alg, prk, &[&t[..], info, &[i][..]]);
            out.extend_from_slice(&t);
            i += 1;
        }
        out.truncate(len);
        out
    }

    /// RFC 8446 7.1: HKDF-Expand-Label(Secret, Label, "", Length)
    pub fn expand_label(alg: hmac::Algorithm, secret: &[u8], label: &str, len: usize) -> Vec<u8> {
        let mut info = vec![];
        info.extend_from_slice(&(len as u16).to_be_bytes());
        info.push((6 + label.len()) as u8);
        info.extend_from_slice(b"tls13 ");
        info.extend_from_slice(label.as_bytes());
        info.push(0); // empty context
        hkdf_expand(alg, secret, &info, len)
    }

    #[derive(Clone, Debug)]
    pub struct Keys {
        pub suite: Suite,
        pub key: Vec<u8>,
        pub iv: [u8; 12],
        pub hp: Vec<u8>,
    }

    /// RFC 9001 5.1: key / iv / hp from a traffic secret
    pub fn keys(suite: Suite, secret: &[u8]) -> Keys {
        let h = suite.hash();
        let mut iv = [0u8; 12];
        iv.copy_from_slice(&expand_label(h, secret, "quic iv", 12));
        Keys {
            suite,
            key: expand_label(h, secret, "quic key", suite.key_len()),
            iv,
            hp: expand_label(h, secret, "quic hp", suite.key_len()),
        }
    }

    /// RFC 9001 6.1: secret_<n+1> = HKDF-Expand-Label(secret_<n>, "quic ku", "", Hash.length)
    pub fn next_secret(suite: Suite, secret: &[u8]) -> Vec<u8> {
        expand_label(suite.hash(), secret, "quic ku", suite.hash_len())
    }

    /// Keys of key-update generation `generation`: packet key and iv follow the updated
    /// secret, the header protection key stays the one of generation 0 (RFC 9001 6: "The
    /// header protection key is not updated").
    pub fn keys_at(suite: Suite, secret: &[u8], generation: u8) -> Keys {
        let hp = keys(suite, secret).hp;
        let mut s = secret.to_vec();
        for _ in 0..generation {
            s = next_secret(suite, &s);
        }
        let mut k = keys(suite, &s);
        k.hp = hp;
        k
    }

    pub const INITIAL_SALT_V1: [u8; 20] = [
        0x38, 0x76, 0x2c, 0xf7, 0xf5, 0x59, 0x34, 0xb3, 0x4d, 0x17, 0x9a, 0xe6, 0xa4, 0xc8, 0x0c, 0xad, 0xcc,
        0xbb, 0x7f, 0x0a,
    ];

    /// RFC 9001 5.2: (client_initial_secret, server_initial_secret)
    pub fn initial_secrets(dcid: &[u8]) -> (Vec<u8>, Vec<u8>) {
        let h = hmac::HMAC_SHA256;
        let initial = hkdf_extract(h, &INITIAL_SALT_V1, dcid);
        (expand_label(h, &initial, "client in", 32), expand_label(h, &initial, "server in", 32))
    }

    /// RFC 9001 5.3: the 62 bits of the packet number left-padded to the iv size, XOR iv
    pub fn nonce(iv: &[u8; 12], pn: u64) -> [u8; 12] {
        let mut n = *iv;
        for i in 0..8 {
            n[4 + i] ^= (pn >> (8 * (7 - i))) as u8;
        }
        n
    }

    fn aead_key(k: &Keys) -> aead::LessSafeKey {
        aead::LessSafeKey::new(aead::UnboundKey::new(k.suite.aead(), &k.key).expect("key length"))
    }

    pub fn aead_seal(k: &Keys, pn: u64, aad: &[u8], plaintext: &[u8]) -> Vec<u8> {
        let mut in_out = plaintext.to_vec();
        aead_key(k)
            .seal_in_place_append_tag(
                aead::Nonce::assume_unique_for_key(nonce(&k.iv, pn)),
                aead::Aad::from(aad),
                &mut in_out,
            )
            .expect("seal");
        in_out
    }

    pub fn aead_open(k: &Keys, pn: u64, aad: &[u8], ciphertext: &[u8]) -> Option<Vec<u8>> {
        if ciphertext.len() < TAG_LEN {
            return None;
        }
        let mut in_out = ciphertext.to_vec();
        let len = aead_key(k)
            .open_in_place(aead::Nonce::assume_unique_for_key(nonce(&k.iv, pn)), aead::Aad::from(aad), &mut in_out)
            .ok()?
            .len();
        in_out.truncate(len);
        Some(in_out)
    }

    /// RFC 8439 2.3: the ChaCha20 block function
    pub fn chacha20_block(key: &[u8], counter: u32, nonce: &[u8]) -> [u8; 64] {
        assert_eq!(key.len(), 32);
        assert_eq!(nonce.len(), 12);
        fn qr(s: &mut [u32; 16], a: usize, b: usize, c: usize, d: usize) {
            s[a] = s[a].wrapping_add(s[b]);
            s[d] = (s[d] ^ s[a]).rotate_left(16);
            s[c] = s[c].wrapping_add(s[d]);
            s[b] = (s[b] ^ s[c]).rotate_left(12);
            s[a] = s[a].wrapping_add(s[b]);
            s[d] = (s[d] ^ s[a]).rotate_left(8);
            s[c] = s[c].wrapping_add(s[d]);
            s[b] = (s[b] ^ s[c]).rotate_left(7);
        }
        let le = |b: &[u8]| u32::from_le_bytes([b[0], b[1], b[2], b[3]]);
        let mut init = [0u32; 16];
        init[0] = 0x6170_7865;
        init[1] = 0x3320_646e;
        init[2] = 0x7962_2d32;
        init[3] = 0x6b20_6574;
        for i in 0..8 {
            init[4 + i] = le(&key[4 * i..]);
        }
        init[12] = counter;
        for i in 0..3 {
            init[13 + i] = le(&nonce[4 * i..]);
        }
        let mut s = init;
        for _ in 0..10 {
            qr(&mut s, 0, 4, 8, 12);
            qr(&mut s, 1, 5, 9, 13);
            qr(&mut s, 2, 6, 10, 14);
            qr(&mut s, 3, 7, 11, 15);
            qr(&mut s, 0, 5, 10, 15);
            qr(&mut s, 1, 6, 11, 12);
            qr(&mut s, 2, 7, 8, 13);
            qr(&mut s, 3, 4, 9, 14);
        }
        let mut out = [0u8; 64];
        for i in 0..16 {
            out[4 * i..4 * i + 4].copy_from_slice(&s[i].wrapping_add(init[i]).to_le_bytes());
        }
        out
    }

    /// RFC 9001 5.4.3 / 5.4.4
    pub fn hp_mask(suite: Suite, hp: &[u8], sample: &[u8]) -> [u8; 5] {
        assert_eq!(sample.len(), 16);
        let mut mask = [0u8; 5];
        match suite {
            Suite::Aes128 | Suite::Aes256 => {
                let alg = if suite == Suite::Aes128 { &cipher::AES_128 } else { &cipher::AES_256 };
                let key = cipher::EncryptingKey::ecb(cipher::UnboundCipherKey::new(alg, hp).expect("hp key length"))
                    .expect("ecb");
                let mut block = [0u8; 16];
                block.copy_from_slice(sample);
                key.encrypt(&mut block).expect("aes-ecb");
                mask.copy_from_slice(&block[..5]);
            }
            Suite::ChaCha => {
                let counter = u32::from_le_bytes([sample[0], sample[1], sample[2], sample[3]]);
                let block = chacha20_block(hp, counter, &sample[4..16]);
                // ChaCha20(hp_key, counter, nonce, {0,0,0,0,0})
                mask.copy_from_slice(&block[..5]);
            }
        }
        mask
    }

    fn first_byte_mask(first: u8) -> u8 {
        if first & 0x80 == 0x80 {
            0x0f
        } else {
            0x1f
        }
    }

    /// RFC 9001 5.3 + 5.4: `header` is everything before the packet number field, with the
    /// packet-number-length bits already set in its first byte.
    pub fn seal(k: &Keys, header: &[u8], pn: u64, pn_len: usize, payload: &[u8]) -> Option<Vec<u8>> {
        let pn_offset = header.len();
        let mut pkt = header.to_vec();
        pkt.extend_from_slice(&pn.to_be_bytes()[8 - pn_len..]);
        let ct = aead_seal(k, pn, &pkt, payload);
        pkt.extend_from_slice(&ct);
        // sample_offset = pn_offset + 4
        if pkt.len() < pn_offset + 4 + 16 {
            return None; // the sender has to pad
        }
        let mask = hp_mask(k.suite, &k.hp, &pkt[pn_offset + 4..pn_offset + 20]);
        pkt[0] ^= mask[0] & first_byte_mask(pkt[0]);
        for i in 0..pn_len {
            pkt[pn_offset + i] ^= mask[1 + i];
        }
        Some(pkt)
    }

    /// RFC 9000 A.3
    pub fn decode_pn(largest: u64, truncated: u64, pn_nbits: u32) -> u64 {
        let expected = largest as u128 + 1;
        let win = 1u128 << pn_nbits;
        let hwin = win / 2;
        let mask = win - 1;
        let candidate = (expected & !mask) | truncated as u128;
        if candidate + hwin <= expected && candidate + win < (1u128 << 62) {
            return (candidate + win) as u64;
        }
        if candidate > expected + hwin && candidate >= win {
            return (candidate - win) as u64;
        }
        candidate as u64
    }

    #[derive(Debug, PartialEq, Eq)]
    pub struct Opened {
        pub pn: u64,
        pub pn_len: usize,
        pub header: Vec<u8>,
        pub payload: Vec<u8>,
    }

    /// receiver side of RFC 9001 5.4.1 / 5.3 for a packet whose packet number field starts
    /// at `pn_offset`; `largest` is the receiver's largest packet number (RFC 9000 A.3)
    pub fn open(k: &Keys, pkt: &[u8], pn_offset: usize, largest: u64) -> Option<Opened> {
        if pkt.len() < pn_offset + 4 + 16 || pn_offset == 0 {
            return None;
        }
        let mask = hp_mask(k.suite, &k.hp, &pkt[pn_offset + 4..pn_offset + 20]);
        let first = pkt[0] ^ (mask[0] & first_byte_mask(pkt[0]));
        let pn_len = (first & 0x03) as usize + 1;
        let mut header = pkt[..pn_offset + pn_len].to_vec();
        header[0] = first;
        let mut truncated = 0u64;
        for i in 0..pn_len {
            header[pn_offset + i] ^= mask[1 + i];
            truncated = (truncated << 8) | header[pn_offset + i] as u64;
        }
        let pn = decode_pn(largest, truncated, 8 * pn_len as u32);
        let payload = aead_open(k, pn, &header, &pkt[pn_offset + pn_len..])?;
        Some(Opened { pn, pn_len, header, payload })
    }

    fn unhex(s: &str) -> Vec<u8> {
        let s: Vec<u8> = s.bytes().filter(|b| !b.is_ascii_whitespace()).collect();
        assert!(s.len() % 2 == 0);
        s.chunks(2)
            .map(|c| u8::from_str_radix(std::str::from_utf8(c).unwrap(), 16).unwrap())
            .collect()
    }

    /// RFC 9001 Appendix A (and RFC 8439 2.3.2) vectors; panics (= harness error) on mismatch
    pub fn self_test() {
        // RFC 8439 2.3.2 block function vector
        let key: Vec<u8> = (0u8..32).collect();
        let block = chacha20_block(&key, 1, &unhex("000000090000004a00000000"));
        assert_eq!(
            block[..16].to_vec(),
            unhex("10f1e7e4d13b5915500fdd1fa32071c4"),
            "reference self-test: RFC 8439 2.3.2"
        );

        // A.1 keys
        let dcid = unhex("8394c8f03e515708");
        assert_eq!(
            hkdf_extract(hmac::HMAC_SHA256, &INITIAL_SALT_V1, &dcid),
            unhex("7db5df06e7a69e432496adedb00851923595221596ae2ae9fb8115c1e9ed0a44"),
            "reference self-test: A.1 initial_secret"
        );
        let (c, s) = initial_secrets(&dcid);
        assert_eq!(c, unhex("c00cf151ca5be075ed0ebfb5c80323c42d6b7db67881289af4008f1f6c357aea"), "A.1 client secret");
        assert_eq!(s, unhex("3c199828fd139efd216c155ad844cc81fb82fa8d7446fa7d78be803acdda951b"), "A.1 server secret");
        let ck = keys(Suite::Aes128, &c);
        assert_eq!(ck.key, unhex("1f369613dd76d5467730efcbe3b1a22d"), "A.1 client key");
        assert_eq!(ck.iv.to_vec(), unhex("fa044b2f42a3fd3b46fb255c"), "A.1 client iv");
        assert_eq!(ck.hp, unhex("9f50449e04a0e810283a1e9933adedd2"), "A.1 client hp");
        let sk = keys(Suite::Aes128, &s);
        assert_eq!(sk.key, unhex("cf3a5331653c364c88f0f379b6067e37"), "A.1 server key");
        assert_eq!(sk.iv.to_vec(), unhex("0ac1493ca1905853b0bba03e"), "A.1 server iv");
        assert_eq!(sk.hp, unhex("c206b8d9b9f0f37644430b490eeaa314"), "A.1 server hp");

        // A.2 client Initial: header protection step and the complete 1200-byte packet
        assert_eq!(
            hp_mask(Suite::Aes128, &ck.hp, &unhex("d1b1c98dd7689fb8ec11d242b123dc9b")).to_vec(),
            unhex("437b9aec36"),
            "A.2 mask"
        );
        {
            use s2n_quic_core::crypto::initial as ex; // RFC vector data (quoted from the RFC text there)
            let mut payload = ex::EXAMPLE_CLIENT_INITIAL_PAYLOAD.to_vec();
            payload.resize(1162, 0);
            let header = unhex("c300000001088394c8f03e5157080000449e");
            let pkt = seal(&ck, &header, 2, 4, &payload).unwrap();
            assert_eq!(pkt[..22].to_vec(), unhex("c000000001088394c8f03e5157080000449e7b9aec34"), "A.2 header");
            assert_eq!(pkt[..], ex::EXAMPLE_CLIENT_INITIAL_PROTECTED_PACKET[..], "A.2 packet");
            let o = open(&ck, &pkt, 18, 0).expect("A.2 opens");
            assert_eq!((o.pn, o.pn_len, &o.payload), (2, 4, &payload));

            // A.3 server Initial
            let payload = ex::EXAMPLE_SERVER_INITIAL_PAYLOAD.to_vec();
            let header = unhex("c1000000010008f067a5502a4262b5004075");
            let pkt = seal(&sk, &header, 1, 2, &payload).unwrap();
            assert_eq!(
                hp_mask(Suite::Aes128, &sk.hp, &unhex("2cd0991cd25b0aac406a5816b6394100")).to_vec(),
                unhex("2ec0d8356a"),
                "A.3 mask"
            );
            assert_eq!(pkt[..], ex::EXAMPLE_SERVER_INITIAL_PROTECTED_PACKET[..], "A.3 packet");
        }

        // A.5 ChaCha20-Poly1305 short header packet
        let secret = unhex("9ac312a7f877468ebe69422748ad00a15443f18203a07d6060f688f30f21632b");
        let k = keys(Suite::ChaCha, &secret);
        assert_eq!(k.key, unhex("c6d98ff3441c3fe1b2182094f69caa2ed4b716b65488960a7a984979fb23e1c8"), "A.5 key");
        assert_eq!(k.iv.to_vec(), unhex("e0459b3474bdd0e44a41c144"), "A.5 iv");
        assert_eq!(k.hp, unhex("25a282b9e82f06f21f488917a4fc8f1b73573685608597d0efcb076b0ab7a7a4"), "A.5 hp");
        assert_eq!(
            next_secret(Suite::ChaCha, &secret),
            unhex("1223504755036d556342ee9361d253421a826c9ecdf3c7148684b36b714881f9"),
            "A.5 ku"
        );
        assert_eq!(nonce(&k.iv, 654360564).to_vec(), unhex("e0459b3474bdd0e46d417eb0"), "A.5 nonce");
        assert_eq!(
            hp_mask(Suite::ChaCha, &k.hp, &unhex("5e5cd55c41f69080575d7999c25a5bfb")).to_vec(),
            unhex("aefefe7d03"),
            "A.5 mask"
        );
        let pkt = seal(&k, &[0x42], 654360564, 3, &[0x01]).unwrap();
        assert_eq!(pkt, unhex("4cfe4189655e5cd55c41f69080575d7999c25a5bfb"), "A.5 packet");
        let o = open(&k, &pkt, 1, 654360563).expect("A.5 opens");
        assert_eq!((o.pn, o.pn_len, &o.payload[..]), (654360564, 3, &[0x01u8][..]));
        assert!(open(&k, &pkt, 1, 0).is_none(), "A.5 under a wrong packet number expansion must not open");

        // SHA-384 suite: HkdfLabel for 48 / 32 / 12 byte outputs is the same construction; check the
        // multi-block expand against an independent single-shot formula T(1) = HMAC(prk, info | 0x01)
        let prk = [7u8; 48];
        let t1 = hmac_parts(hmac::HMAC_SHA384, &prk, &[&b"x"[..], &[1u8][..]]);
        assert_eq!(hkdf_expand(hmac::HMAC_SHA384, &prk, b"x", 48), t1);
        assert_eq!(decode_pn(0xa82f30ea, 0x9b32, 16), 0xa82f9b32, "RFC 9000 A.3 example");
    }
}

use rfc::Suite;

static SELF_TEST: Once = Once::new();

fn self_test_once() {
    SELF_TEST.call_once(rfc::self_test);
}

// ---------------------------------------------------------------------------------------
// case description (plain data)

#[derive(Clone, Copy, Debug, PartialEq, Eq, Hash, Serialize, Deserialize)]
pub enum Level {
    /// short header, 1-RTT keys (all suites, key updates)
    OneRtt,
    /// long header type 2, handshake keys (all suites)
    Handshake,
    /// long header type 1, 0-RTT key (AES-128-GCM only in s2n-quic-crypto)
    ZeroRtt,
    /// long header type 0, keys derived from the client's first DCID (AES-128-GCM)
    Initial,
}

#[derive(Clone, Debug, PartialEq, Eq, Hash, Serialize, Deserialize)]
pub struct Keying {
    pub level: Level,
    pub suite: Suite,
    /// traffic secrets are PRF(seed) of Hash.length bytes
    pub client_seed: u64,
    pub server_seed: u64,
    /// number of key updates applied on both sides (1-RTT only)
    pub generation: u8,
    /// DCID the Initial secrets are derived from
    pub initial_dcid: Vec<u8>,
    pub sender_is_client: bool,
}

#[derive(Clone, Debug, PartialEq, Eq, Hash, Serialize, Deserialize)]
pub struct Pkt {
    /// bits 2..=6 of the first byte (form bit and pn length are set by the harness)
    pub first: u8,
    /// fixed bit set, reserved bits clear, long packet type = key level, version 1
    pub wellformed: bool,
    pub version: u32,
    pub dcid: Vec<u8>,
    pub scid: Vec<u8>,
    pub token: Vec<u8>,
    pub pn: u64,
    /// 1..=4
    pub pn_len: u8,
    /// receiver state: >= 0: largest = pn - 1 - (recv mod half window); < 0: the packet is reordered
    pub recv: i32,
    pub payload_len: u16,
    pub payload_seed: u64,
    /// number of trailing payload bytes handed to `encrypt` as the scatter "extra" chunk
    pub extra_tail: u16,
    /// unused buffer space behind the packet
    pub slack: u8,
}

#[derive(Clone, Debug, PartialEq, Eq, Hash, Serialize, Deserialize)]
pub struct DiffCase {
    pub keying: Keying,
    pub pkt: Pkt,
}

#[derive(Clone, Copy, Debug, PartialEq, Eq, Hash, Serialize, Deserialize)]
pub enum Region {
    Any,
    First,
    Header,
    Pn,
    Sample,
    Body,
    Tag,
}

#[derive(Clone, Debug, PartialEq, Eq, Hash, Serialize, Deserialize)]
pub enum Mutation {
    FlipBit { region: Region, idx: u16, bit: u8 },
    /// absolute bit index (exhaustive check)
    FlipAbs { bit: u32 },
    SetByte { region: Region, idx: u16, value: u8 },
    /// new length = idx scaled into 0..len
    Truncate { idx: u16 },
    TruncateAbs { len: u32 },
    Extend { len: u8, seed: u64 },
    /// header + packet number bytes of the genuine packet, body of a second packet sealed under
    /// the same key with packet number pn + delta (delta != 0) — or the other way round
    Splice { delta: i32, other_payload_len: u16, other_seed: u64, genuine_body: bool },
    /// genuine bytes, but the receiver expands the packet number against another `largest`
    ClaimPn { largest: u64 },
    /// receiver holds the key of another key-update generation (1-RTT)
    OtherGeneration { generation: u8 },
    /// opened with the sender's own receive key (the other direction)
    OtherDirection,
    /// receiver derived its keys from another secret / another Initial DCID
    OtherSecret { seed: u64 },
}

impl Mutation {
    fn name(&self) -> &'static str {
        match self {
            Mutation::FlipBit { .. } | Mutation::FlipAbs { .. } => "flip",
            Mutation::SetByte { .. } => "setbyte",
            Mutation::Truncate { .. } | Mutation::TruncateAbs { .. } => "truncate",
            Mutation::Extend { .. } => "extend",
            Mutation::Splice { .. } => "splice",
            Mutation::ClaimPn { .. } => "claim-pn",
            Mutation::OtherGeneration { .. } => "other-generation",
            Mutation::OtherDirection => "other-direction",
            Mutation::OtherSecret { .. } => "other-secret",
        }
    }
}

#[derive(Clone, Debug, PartialEq, Eq, Hash, Serialize, Deserialize)]
pub struct ForgeCase {
    pub keying: Keying,
    pub pkt: Pkt,
    pub mutation: Mutation,
}

// ---------------------------------------------------------------------------------------
// packet layout

struct Layout {
    /// bytes before the packet number field, pn-length bits set in byte 0
    header: Vec<u8>,
    pn_len: usize,
    payload: Vec<u8>,
    largest: u64,
}

fn varint(out: &mut Vec<u8>, v: u64, minimal: bool) {
    if v < 64 && minimal {
        out.push(v as u8);
    } else if v < 16384 {
        out.extend_from_slice(&(0x4000u16 | v as u16).to_be_bytes());
    } else {
        out.extend_from_slice(&(0x8000_0000u32 | v as u32).to_be_bytes());
    }
}

fn half_window(pn_len: usize) -> u64 {
    1u64 << (8 * pn_len - 1)
}

fn layout(level: Level, p: &Pkt) -> Layout {
    let pn_len = p.pn_len.clamp(1, 4) as usize;
    let payload = prf_vec(p.payload_seed, 0, p.payload_len as usize);
    let mut header = vec![];
    let mut first = (p.first & 0x7c) | (pn_len as u8 - 1);
    if level == Level::OneRtt {
        if p.wellformed {
            first = (first | 0x40) & !0x18;
        }
        header.push(first);
        header.extend_from_slice(&p.dcid);
    } else {
        first |= 0x80;
        let mut version = p.version;
        if p.wellformed {
            let ty = match level {
                Level::Initial => 0x00,
                Level::ZeroRtt => 0x10,
                _ => 0x20,
            };
            first = ((first | 0x40) & !0x3c) | ty;
            version = 1;
        }
        header.push(first);
        header.extend_from_slice(&version.to_be_bytes());
        header.push(p.dcid.len() as u8);
        header.extend_from_slice(&p.dcid);
        header.push(p.scid.len() as u8);
        header.extend_from_slice(&p.scid);
        if level == Level::Initial {
            varint(&mut header, p.token.len() as u64, true);
            header.extend_from_slice(&p.token);
        }
        // Length: packet number + payload + tag; minimal or 2-byte encoding
        varint(&mut header, (pn_len + payload.len() + TAG_LEN) as u64, p.first & 0x04 != 0);
    }
    let hwin = half_window(pn_len);
    let largest = if p.recv >= 0 {
        p.pn.saturating_sub(1 + (p.recv as u64) % hwin)
    } else {
        (p.pn + ((-(p.recv as i64) - 1) as u64) % (hwin - 1)).min(MAX_PN - 1)
    };
    Layout { header, pn_len, payload, largest: largest.min(MAX_PN - 1) }
}

fn space_of(level: Level) -> PacketNumberSpace {
    match level {
        Level::Initial => PacketNumberSpace::Initial,
        Level::Handshake => PacketNumberSpace::Handshake,
        _ => PacketNumberSpace::ApplicationData,
    }
}

// ---------------------------------------------------------------------------------------
// the code under test

enum S2nKeys {
    OneRtt(OneRttKey, OneRttHeaderKey),
    Handshake(HandshakeKey, HandshakeHeaderKey),
    ZeroRtt(ZeroRttKey, ZeroRttHeaderKey),
    Initial(InitialKey, InitialHeaderKey),
}

macro_rules! with_keys {
    ($self:expr, |$k:ident, $h:ident| $e:expr) => {
        match $self {
            S2nKeys::OneRtt($k, $h) => $e,
            S2nKeys::Handshake($k, $h) => $e,
            S2nKeys::ZeroRtt($k, $h) => $e,
            S2nKeys::Initial($k, $h) => $e,
        }
    };
}

fn secret_of(suite: Suite, seed: u64) -> Vec<u8> {
    prf_vec(seed, 0, suite.hash_len())
}

fn s2n_prk(suite: Suite, secret: &[u8]) -> s2n_quic_crypto::Prk {
    use s2n_quic_crypto::hkdf;
    let alg = match suite {
        Suite::Aes256 => hkdf::HKDF_SHA384,
        _ => hkdf::HKDF_SHA256,
    };
    hkdf::Prk::new_less_safe(alg, secret)
}

fn s2n_alg(suite: Suite) -> &'static s2n_quic_crypto::aws_lc_aead::Algorithm {
    use s2n_quic_crypto::aws_lc_aead as a;
    match suite {
        Suite::Aes128 => &a::AES_128_GCM,
        Suite::Aes256 => &a::AES_256_GCM,
        Suite::ChaCha => &a::CHACHA20_POLY1305,
    }
}

/// normalised secrets / dcid of a keying (client and server secrets are distinct)
struct Secrets {
    suite: Suite,
    client: Vec<u8>,
    server: Vec<u8>,
}

fn secrets(k: &Keying) -> Secrets {
    let suite = match k.level {
        Level::ZeroRtt | Level::Initial => Suite::Aes128,
        _ => k.suite,
    };
    match k.level {
        Level::Initial => {
            let (client, server) = rfc::initial_secrets(&k.initial_dcid);
            Secrets { suite, client, server }
        }
        Level::ZeroRtt => {
            // one key, used by the client to seal and by the server to open
            let s = secret_of(suite, k.client_seed);
            Secrets { suite, client: s.clone(), server: s }
        }
        _ => {
            let server_seed = if k.server_seed == k.client_seed { k.server_seed ^ 1 } else { k.server_seed };
            Secrets { suite, client: secret_of(suite, k.client_seed), server: secret_of(suite, server_seed) }
        }
    }
}

fn generation_of(k: &Keying) -> u8 {
    if k.level == Level::OneRtt {
        k.generation
    } else {
        0
    }
}

/// keys an endpoint of the given role holds (the reference secrets feed s2n-quic only as
/// opaque traffic secrets, exactly as the TLS provider would hand them over)
fn s2n_keys(k: &Keying, role_is_client: bool, generation: u8, override_secrets: Option<&Secrets>) -> S2nKeys {
    let own;
    let s = match override_secrets {
        Some(s) => s,
        None => {
            own = secrets(k);
            &own
        }
    };
    let ep = if role_is_client { endpoint::Type::Client } else { endpoint::Type::Server };
    match k.level {
        Level::OneRtt => {
            let pair = SecretPair { client: s2n_prk(s.suite, &s.client), server: s2n_prk(s.suite, &s.server) };
            let (mut key, hk) = OneRttKey::new(ep, s2n_alg(s.suite), pair).expect("known algorithm");
            for i in 0..generation {
                // both public entry points of the update
                key = if i % 2 == 0 { key.derive_next_key() } else { key.update() };
            }
            S2nKeys::OneRtt(key, hk)
        }
        Level::Handshake => {
            let pair = SecretPair { client: s2n_prk(s.suite, &s.client), server: s2n_prk(s.suite, &s.server) };
            let (key, hk) = HandshakeKey::new(ep, s2n_alg(s.suite), pair).expect("known algorithm");
            S2nKeys::Handshake(key, hk)
        }
        Level::ZeroRtt => {
            let (key, hk) = ZeroRttKey::new(s2n_prk(s.suite, &s.client));
            S2nKeys::ZeroRtt(key, hk)
        }
        Level::Initial => {
            // Initial keys are derived by the code under test from the DCID itself
            let dcid: &[u8] = match override_secrets {
                Some(o) => &o.client, // see `OtherSecret`: carries the other DCID
                None => &k.initial_dcid,
            };
            let (key, hk) =
                if role_is_client { InitialKey::new_client(dcid) } else { InitialKey::new_server(dcid) };
            S2nKeys::Initial(key, hk)
        }
    }
}

fn ref_keys(s: &Secrets, sender_is_client: bool, generation: u8) -> rfc::Keys {
    let secret = if sender_is_client { &s.client } else { &s.server };
    rfc::keys_at(s.suite, secret, generation)
}

struct Sealed {
    bytes: Vec<u8>,
    remaining: usize,
}

fn s2n_seal_with<K: Key, H: HeaderKey>(
    key: &mut K,
    hk: &H,
    space: PacketNumberSpace,
    l: &Layout,
    pn: u64,
    extra_tail: usize,
    slack: usize,
) -> Result<Sealed, String> {
    let h = l.header.len();
    let extra_tail = extra_tail.min(l.payload.len());
    let inline = l.payload.len() - extra_tail;
    let total = h + l.pn_len + l.payload.len() + TAG_LEN;
    let mut buf = vec![0xa5u8; total + slack];
    buf[..h].copy_from_slice(&l.header);
    buf[h..h + l.pn_len].copy_from_slice(&pn.to_be_bytes()[8 - l.pn_len..]);
    buf[h + l.pn_len..h + l.pn_len + inline].copy_from_slice(&l.payload[..inline]);
    let packet_number = space.new_packet_number(VarInt::new(pn).expect("pn < 2^62"));
    let packet_number_len = space.new_packet_number_len(l.pn_len as u8 - 1);
    let remaining;
    {
        let mut encoder = EncoderBuffer::new(&mut buf);
        encoder.set_position(h + l.pn_len + inline);
        let extra = if extra_tail > 0 { Some(Bytes::copy_from_slice(&l.payload[inline..])) } else { None };
        let payload = scatter::Buffer::new_with_extra(encoder, extra);
        let (encrypted, rest) = qcrypto::encrypt(key, packet_number, packet_number_len, h, payload)
            .map_err(|e| format!("encrypt: {e:?}"))?;
        remaining = rest.remaining_capacity();
        let protected = qcrypto::protect(hk, encrypted).map_err(|e| format!("protect: {e:?}"))?;
        if protected.len() != total {
            return Err(format!("protected payload has {} bytes, expected {total}", protected.len()));
        }
    }
    buf.truncate(total);
    Ok(Sealed { bytes: buf, remaining })
}

#[derive(Debug, PartialEq, Eq)]
struct Opened {
    pn: u64,
    pn_len: usize,
    header: Vec<u8>,
    payload: Vec<u8>,
}

fn s2n_open_with<K: Key, H: HeaderKey>(
    key: &K,
    hk: &H,
    space: PacketNumberSpace,
    pkt: &[u8],
    pn_offset: usize,
    largest: u64,
) -> Result<Opened, String> {
    if pkt.len() < pn_offset {
        // the packet parser cannot produce a payload shorter than the header it parsed
        return Err("shorter than its header".into());
    }
    let mut buf = pkt.to_vec();
    let protected = ProtectedPayload::new(pn_offset, &mut buf);
    let (truncated, encrypted) = qcrypto::unprotect(hk, space, protected).map_err(|e| format!("unprotect: {e:?}"))?;
    let pn_len = truncated.len().bytesize();
    let pn = truncated.expand(space.new_packet_number(VarInt::new(largest).expect("largest < 2^62")));
    let (header, payload) = qcrypto::decrypt(key, pn, encrypted).map_err(|e| format!("decrypt: {e:?}"))?;
    Ok(Opened {
        pn: pn.as_u64(),
        pn_len,
        header: header.into_less_safe_slice().to_vec(),
        payload: payload.into_less_safe_slice().to_vec(),
    })
}

impl S2nKeys {
    fn seal(&mut self, level: Level, l: &Layout, pn: u64, extra_tail: usize, slack: usize) -> Result<Sealed, String> {
        with_keys!(self, |k, h| s2n_seal_with(k, h, space_of(level), l, pn, extra_tail, slack))
    }

    fn open(&self, level: Level, pkt: &[u8], pn_offset: usize, largest: u64) -> Result<Opened, String> {
        with_keys!(self, |k, h| s2n_open_with(k, h, space_of(level), pkt, pn_offset, largest))
    }

    /// the real receive path: `ProtectedPacket::decode` -> `unprotect` -> `decrypt`.
    /// `Ok(None)`: the parser did not produce a packet of this key level.
    fn open_via_packet(&self, pkt: &[u8], dcid_len: usize, largest: u64) -> Result<Option<(u64, Vec<u8>, usize)>, String> {
        let mut buf = pkt.to_vec();
        let addr = SocketAddress::default();
        let info = ConnectionInfo::new(&addr);
        let (packet, rest) = match ProtectedPacket::decode(DecoderBufferMut::new(&mut buf), &info, &dcid_len) {
            Ok(v) => v,
            Err(_) => return Ok(None),
        };
        let rest = rest.len();
        macro_rules! run {
            ($p:expr, $k:expr, $h:expr, $space:expr) => {{
                let largest = $space.new_packet_number(VarInt::new(largest).expect("largest < 2^62"));
                let p = $p.unprotect($h, largest).map_err(|e| format!("unprotect: {e:?}"))?;
                let p = p.decrypt($k).map_err(|e| format!("decrypt: {e:?}"))?;
                let pn: PacketNumber = p.packet_number;
                Ok(Some((pn.as_u64(), p.payload.into_less_safe_slice().to_vec(), rest)))
            }};
        }
        match (self, packet) {
            (S2nKeys::OneRtt(k, h), ProtectedPacket::Short(p)) => run!(p, k, h, PacketNumberSpace::ApplicationData),
            (S2nKeys::Handshake(k, h), ProtectedPacket::Handshake(p)) => run!(p, k, h, PacketNumberSpace::Handshake),
            (S2nKeys::ZeroRtt(k, h), ProtectedPacket::ZeroRtt(p)) => {
                run!(p, k, h, PacketNumberSpace::ApplicationData)
            }
            (S2nKeys::Initial(k, h), ProtectedPacket::Initial(p)) => run!(p, k, h, PacketNumberSpace::Initial),
            _ => Ok(None),
        }
    }

    fn metadata_ok(&self, suite: Suite) -> bool {
        use s2n_quic_core::crypto::tls::CipherSuite as C;
        let (tag, cs) = with_keys!(self, |k, _h| (k.tag_len(), k.cipher_suite()));
        let ok = match suite {
            Suite::Aes128 => matches!(cs, C::TLS_AES_128_GCM_SHA256),
            Suite::Aes256 => matches!(cs, C::TLS_AES_256_GCM_SHA384),
            Suite::ChaCha => matches!(cs, C::TLS_CHACHA20_POLY1305_SHA256),
        };
        tag == TAG_LEN && ok
    }
}

fn label(k: &Keying, s: &Secrets) -> &'static str {
    match k.level {
        Level::Initial => "initial",
        Level::ZeroRtt => "zero-rtt",
        _ => s.suite.name(),
    }
}

fn hex(b: &[u8]) -> String {
    let mut s = String::with_capacity(2 * b.len().min(96) + 8);
    for x in b.iter().take(96) {
        s.push_str(&format!("{x:02x}"));
    }
    if b.len() > 96 {
        s.push_str(&format!("..({} bytes)", b.len()));
    }
    s
}

fn first_diff(a: &[u8], b: &[u8]) -> usize {
    a.iter().zip(b).position(|(x, y)| x != y).unwrap_or(a.len().min(b.len()))
}

fn classes(obs: &mut Obs, k: &Keying, s: &Secrets, p: &Pkt, l: &Layout) {
    obs.class(match s.suite {
        Suite::Aes128 => "suite_aes128",
        Suite::Aes256 => "suite_aes256",
        Suite::ChaCha => "suite_chacha20",
    });
    obs.class(match k.level {
        Level::OneRtt => "level_1rtt",
        Level::Handshake => "level_handshake",
        Level::ZeroRtt => "level_0rtt",
        Level::Initial => "level_initial",
    });
    obs.class(if k.sender_is_client { "from_client" } else { "from_server" });
    obs.class(match l.pn_len {
        1 => "pn_len_1",
        2 => "pn_len_2",
        3 => "pn_len_3",
        _ => "pn_len_4",
    });
    obs.class_if(p.pn >= 1 << 32, "pn_above_2^32");
    obs.class_if(p.pn >= 1 << 61, "pn_above_2^61");
    obs.class_if(p.pn == MAX_PN, "pn_max");
    obs.class_if(p.pn == 0, "pn_zero");
    obs.class_if(l.payload.is_empty(), "payload_empty");
    obs.class_if(l.payload.len() >= 1200, "payload_ge_1200");
    obs.class_if(p.extra_tail > 0 && !l.payload.is_empty(), "scatter_extra");
    obs.class_if(p.dcid.is_empty(), "dcid_len_0");
    obs.class_if(p.dcid.len() == 20, "dcid_len_20");
    obs.class_if(p.wellformed, "wellformed_header");
    if k.level == Level::OneRtt {
        obs.class(match k.generation {
            0 => "generation_0",
            1 => "generation_1",
            2 => "generation_2",
            _ => "generation_ge_3",
        });
    }
    obs.class_if(p.recv < 0, "receiver_reordered");
}

// ---------------------------------------------------------------------------------------
// oracle 1: differential sealing / opening

fn diff_oracle(c: &DiffCase, obs: &mut Obs) -> CaseResult {
    self_test_once();
    let k = &c.keying;
    let p = &c.pkt;
    let s = secrets(k);
    let lab = label(k, &s);
    let generation = generation_of(k);
    // 0-RTT packets only travel client -> server
    let from_client = k.sender_is_client || k.level == Level::ZeroRtt;
    let l = layout(k.level, p);
    classes(obs, k, &s, p, &l);
    let pn = p.pn.min(MAX_PN);
    let pn_offset = l.header.len();

    let mut sender = s2n_keys(k, from_client, generation, None);
    let receiver = s2n_keys(k, !from_client, generation, None);
    ensure_that!(
        sender.metadata_ok(s.suite) && receiver.metadata_ok(s.suite),
        format!("crypto:key-metadata:{lab}"),
        "tag_len()/cipher_suite() of the {lab} key do not describe {}",
        s.suite.name()
    );

    let rk = ref_keys(&s, from_client, generation);
    let expected = rfc::seal(&rk, &l.header, pn, l.pn_len, &l.payload);
    let sealed = sender.seal(k.level, &l, pn, p.extra_tail as usize, p.slack as usize);

    let expected = match expected {
        None => {
            // fewer than 4 + 16 bytes behind the packet number offset: no sample exists
            obs.class("too_short_for_sample");
            ensure_that!(
                sealed.is_err(),
                format!("crypto:unsampled-packet-protected:{lab}"),
                "packet with pn_len {} and {} payload bytes has no complete header-protection sample, but was protected",
                l.pn_len,
                l.payload.len()
            );
            return Ok(());
        }
        Some(e) => e,
    };
    let sealed = match sealed {
        Ok(v) => v,
        Err(e) => fail!(
            format!("crypto:seal-failed:{lab}"),
            "sealing pn {pn} (len {}) header {} payload {} bytes failed: {e}",
            l.pn_len,
            hex(&l.header),
            l.payload.len()
        ),
    };
    ensure_that!(
        sealed.bytes == expected,
        format!("crypto:sealed-bytes-differ:{lab}"),
        "generation {generation}, pn {pn} (len {}), header {}, payload {} bytes: s2n-quic packet differs from the RFC 9001 \
         reference at byte {} (pn offset {pn_offset}, {} bytes)\n  s2n: {}\n  ref: {}",
        l.pn_len,
        hex(&l.header),
        l.payload.len(),
        first_diff(&sealed.bytes, &expected),
        expected.len(),
        hex(&sealed.bytes),
        hex(&expected)
    );
    ensure_that!(
        sealed.remaining == p.slack as usize,
        "crypto:remaining-buffer",
        "encrypt returned a remaining buffer of {} bytes, {} are behind the packet",
        sealed.remaining,
        p.slack
    );

    // the reference-sealed packet under the receiver's keys
    let want = rfc::open(&rk, &expected, pn_offset, l.largest);
    let got = receiver.open(k.level, &expected, pn_offset, l.largest);
    match (&want, &got) {
        (Some(w), Ok(g)) => {
            ensure_that!(
                w.pn == g.pn && w.pn_len == g.pn_len && w.payload == g.payload && w.header == g.header,
                format!("crypto:opened-differs:{lab}"),
                "reference packet pn {pn} opened as pn {} (len {}) payload {} / header {}; expected pn {} (len {}) payload {} / header {}",
                g.pn,
                g.pn_len,
                hex(&g.payload),
                hex(&g.header),
                w.pn,
                w.pn_len,
                hex(&w.payload),
                hex(&w.header)
            );
            assert!(w.pn == pn && w.payload == l.payload, "reference round trip");
        }
        (Some(_), Err(e)) => fail!(
            format!("crypto:reference-packet-rejected:{lab}"),
            "generation {generation}, pn {pn} (len {}), largest {}: the RFC 9001 reference packet {} was rejected: {e}",
            l.pn_len,
            l.largest,
            hex(&expected)
        ),
        (None, Ok(g)) => fail!(
            format!("crypto:forgery-accepted:{lab}:claim-pn"),
            "packet pn {pn} with receiver state largest {} does not expand to its packet number, but opened as pn {}",
            l.largest,
            g.pn
        ),
        (None, Err(_)) => {
            // only at the 2^62 edge, where the receiver state cannot be chosen to decode pn
            obs.class("undecodable_receiver_state");
        }
    }

    // the sender's own receive key must not open it (the other direction), unless it is the same key
    if k.level != Level::ZeroRtt {
        let back = sender.open(k.level, &expected, pn_offset, l.largest);
        ensure_that!(
            back.is_err(),
            format!("crypto:forgery-accepted:{lab}:other-direction"),
            "the sender's receive key opened its own packet (pn {pn})"
        );
    }

    // the real receive path
    if p.wellformed && want.is_some() {
        match receiver.open_via_packet(&expected, p.dcid.len(), l.largest) {
            Ok(Some((got_pn, payload, rest))) => {
                obs.class("opened_via_packet_decoder");
                ensure_that!(
                    got_pn == pn && payload == l.payload && rest == 0,
                    format!("crypto:opened-differs:{lab}"),
                    "ProtectedPacket path: pn {got_pn} payload {} rest {rest}; expected pn {pn} payload {}",
                    hex(&payload),
                    hex(&l.payload)
                );
            }
            Ok(None) => obs.class("packet_decoder_declined"),
            Err(e) => fail!(
                format!("crypto:reference-packet-rejected:{lab}"),
                "ProtectedPacket path rejected the reference packet {} (pn {pn}, largest {}): {e}",
                hex(&expected),
                l.largest
            ),
        }
    }

    obs.units = 1;
    obs.nontrivial(want.is_some());
    Ok(())
}

// ---------------------------------------------------------------------------------------
// oracle 2: forgeries

fn region_range(r: Region, pn_offset: usize, pn_len: usize, len: usize) -> (usize, usize) {
    let body = pn_offset + pn_len;
    let (a, b) = match r {
        Region::Any => (0, len),
        Region::First => (0, 1),
        Region::Header => (1.min(pn_offset), pn_offset),
        Region::Pn => (pn_offset, body),
        Region::Sample => (pn_offset + 4, pn_offset + 20),
        Region::Body => (body, len.saturating_sub(TAG_LEN)),
        Region::Tag => (len.saturating_sub(TAG_LEN), len),
    };
    let b = b.min(len);
    if a >= b {
        (0, len)
    } else {
        (a, b)
    }
}

fn forge_oracle(c: &ForgeCase, obs: &mut Obs) -> CaseResult {
    self_test_once();
    let k = &c.keying;
    let p = &c.pkt;
    let s = secrets(k);
    let lab = label(k, &s);
    let generation = generation_of(k);
    let from_client = k.sender_is_client || k.level == Level::ZeroRtt;
    let mut l = layout(k.level, p);
    // every genuine packet of this check carries a complete sample
    while l.pn_len + l.payload.len() < 4 {
        l.payload.push(0);
    }
    classes(obs, k, &s, p, &l);
    let pn = p.pn.min(MAX_PN);
    let pn_offset = l.header.len();

    // genuine packet, sealed by the code under test
    let mut sender = s2n_keys(k, from_client, generation, None);
    let genuine = match sender.seal(k.level, &l, pn, p.extra_tail as usize, 0) {
        Ok(v) => v.bytes,
        Err(e) => fail!(format!("crypto:seal-failed:{lab}"), "sealing pn {pn} failed: {e}"),
    };
    let mut rk = ref_keys(&s, from_client, generation);
    let genuine_ref = rfc::open(&rk, &genuine, pn_offset, l.largest);

    let mut receiver = s2n_keys(k, !from_client, generation, None);
    let mut bytes = genuine.clone();
    let mut largest = l.largest;
    let mut key_changed = false;
    let len = genuine.len();

    match &c.mutation {
        Mutation::FlipBit { region, idx, bit } => {
            let (a, b) = region_range(*region, pn_offset, l.pn_len, len);
            bytes[a + pick_index(*idx, b - a)] ^= 1 << (bit % 8);
        }
        Mutation::FlipAbs { bit } => {
            let bit = *bit as usize % (8 * len);
            bytes[bit / 8] ^= 1 << (bit % 8);
        }
        Mutation::SetByte { region, idx, value } => {
            let (a, b) = region_range(*region, pn_offset, l.pn_len, len);
            bytes[a + pick_index(*idx, b - a)] = *value;
        }
        Mutation::Truncate { idx } => bytes.truncate(pick_index(*idx, len)),
        Mutation::TruncateAbs { len: n } => bytes.truncate(*n as usize % len),
        Mutation::Extend { len: n, seed } => bytes.extend_from_slice(&prf_vec(*seed, 0, 1 + *n as usize)),
        Mutation::Splice { delta, other_payload_len, other_seed, genuine_body } => {
            let delta = if *delta == 0 { 1 } else { *delta as i64 };
            let cand = if delta > 0 {
                pn.saturating_add(delta as u64).min(MAX_PN)
            } else {
                pn.saturating_sub((-delta) as u64)
            };
            let other_pn = if cand != pn {
                cand
            } else if pn == 0 {
                1
            } else {
                pn - 1
            };
            let mut ol = layout(k.level, p);
            ol.payload = prf_vec(*other_seed, 7, (*other_payload_len as usize).max(4));
            // long headers carry the length of their own body
            if k.level != Level::OneRtt {
                let mut q = p.clone();
                q.payload_len = ol.payload.len() as u16;
                ol.header = layout(k.level, &q).header;
            }
            let other = match sender.seal(k.level, &ol, other_pn, 0, 0) {
                Ok(v) => v.bytes,
                Err(e) => fail!(format!("crypto:seal-failed:{lab}"), "sealing pn {other_pn} failed: {e}"),
            };
            let o_off = ol.header.len();
            bytes = if *genuine_body {
                // header (incl. packet number bytes) of the other packet, body of the genuine one
                let mut b = other[..o_off + ol.pn_len].to_vec();
                b.extend_from_slice(&genuine[pn_offset + l.pn_len..]);
                b
            } else {
                let mut b = genuine[..pn_offset + l.pn_len].to_vec();
                b.extend_from_slice(&other[o_off + ol.pn_len..]);
                b
            };
            if o_off != pn_offset {
                // (different Length encoding) — keep the receiver's view consistent with the header it parses
                obs.class("splice_header_len_differs");
                if *genuine_body {
                    return splice_with_offset(obs, k, lab, &receiver, &rk, &bytes, o_off, largest, &genuine);
                }
            }
        }
        Mutation::ClaimPn { largest: other } => largest = (*other).min(MAX_PN - 1),
        Mutation::OtherGeneration { generation: g } => {
            if k.level == Level::OneRtt {
                let g = if *g == generation { generation + 1 } else { *g };
                receiver = s2n_keys(k, !from_client, g, None);
                rk = ref_keys(&s, from_client, g);
                key_changed = true;
            } else {
                // no generations below 1-RTT: degrade to the other direction
                receiver = s2n_keys(k, from_client, generation, None);
                rk = ref_keys(&s, !from_client, generation);
                key_changed = k.level != Level::ZeroRtt;
            }
        }
        Mutation::OtherDirection => {
            receiver = s2n_keys(k, from_client, generation, None);
            rk = ref_keys(&s, !from_client, generation);
            key_changed = k.level != Level::ZeroRtt;
        }
        Mutation::OtherSecret { seed } => {
            let other = match k.level {
                Level::Initial => {
                    let mut dcid = k.initial_dcid.clone();
                    if dcid.is_empty() {
                        dcid.push(*seed as u8);
                    } else {
                        let i = (*seed as usize) % dcid.len();
                        dcid[i] ^= 1 << ((*seed >> 32) % 8);
                    }
                    let (client, server) = rfc::initial_secrets(&dcid);
                    // s2n-quic derives from the DCID itself
                    let carrier = Secrets { suite: s.suite, client: dcid, server: vec![] };
                    receiver = s2n_keys(k, !from_client, generation, Some(&carrier));
                    Secrets { suite: s.suite, client, server }
                }
                _ => {
                    let mut o = Secrets { suite: s.suite, client: s.client.clone(), server: s.server.clone() };
                    let i = (*seed as usize) % o.client.len();
                    o.client[i] ^= 1 << ((*seed >> 32) % 8);
                    o.server[i] ^= 1 << ((*seed >> 40) % 8);
                    if o.client == o.server {
                        o.server[0] ^= 0x80;
                    }
                    receiver = s2n_keys(k, !from_client, generation, Some(&o));
                    o
                }
            };
            rk = ref_keys(&other, from_client, generation);
            key_changed = true;
        }
    }
    obs.class(match c.mutation.name() {
        "flip" => "mut_flip",
        "setbyte" => "mut_setbyte",
        "truncate" => "mut_truncate",
        "extend" => "mut_extend",
        "splice" => "mut_splice",
        "claim-pn" => "mut_claim_pn",
        "other-generation" => "mut_other_generation",
        "other-direction" => "mut_other_direction",
        _ => "mut_other_secret",
    });
    if let Mutation::FlipBit { region, .. } | Mutation::SetByte { region, .. } = &c.mutation {
        obs.class(match region {
            Region::Any => "region_any",
            Region::First => "region_first_byte",
            Region::Header => "region_header",
            Region::Pn => "region_pn",
            Region::Sample => "region_sample",
            Region::Body => "region_body",
            Region::Tag => "region_tag",
        });
    }

    // sanity of the genuine packet itself (sealed by s2n-quic, judged by the reference);
    // at the 2^62 edge the receiver state may be unable to decode pn, then nothing is claimed
    let bits = 8 * l.pn_len as u32;
    if rfc::decode_pn(l.largest, pn & ((1u64 << bits) - 1), bits) == pn {
        ensure_that!(
            genuine_ref.as_ref().map(|o| (o.pn, &o.payload)) == Some((pn, &l.payload)),
            format!("crypto:sealed-bytes-differ:{lab}"),
            "the packet sealed by s2n-quic (pn {pn}, len {}) does not open under the RFC 9001 reference: {}",
            l.pn_len,
            hex(&genuine)
        );
    }

    let changed = bytes != genuine || key_changed || largest != l.largest;
    let want = rfc::open(&rk, &bytes, pn_offset, largest);
    let got = receiver.open(k.level, &bytes, pn_offset, largest);
    let mname = c.mutation.name();
    match (&want, &got) {
        (None, Ok(g)) => fail!(
            format!("crypto:forgery-accepted:{lab}:{mname}"),
            "mutation {:?} of the genuine packet (pn {pn}, len {}, pn offset {pn_offset}, generation {generation}) was accepted as pn {} \
             with payload {}\n  genuine: {}\n  mutated: {}",
            c.mutation,
            l.pn_len,
            g.pn,
            hex(&g.payload),
            hex(&genuine),
            hex(&bytes)
        ),
        (Some(w), Err(e)) => fail!(
            format!("crypto:genuine-rejected:{lab}"),
            "packet that is authentic under RFC 9001 (pn {}, mutation {:?} without effect) was rejected: {e}",
            w.pn,
            c.mutation
        ),
        (Some(w), Ok(g)) => {
            obs.class("mutation_without_effect");
            ensure_that!(
                w.pn == g.pn && w.payload == g.payload && w.header == g.header,
                format!("crypto:opened-differs:{lab}"),
                "opened as pn {} payload {}, reference says pn {} payload {}",
                g.pn,
                hex(&g.payload),
                w.pn,
                hex(&w.payload)
            );
            // an AEAD forgery cannot be produced by these mutations: whatever still opens is the genuine packet
            assert!(w.pn == pn && w.payload == l.payload && !key_changed, "reference accepted a forged packet");
        }
        (None, Err(_)) => {}
    }

    // the real receive path must not hand out a packet either
    if p.wellformed && want.is_none() && changed {
        let coalesced_tail = matches!(c.mutation, Mutation::Extend { .. }) && k.level != Level::OneRtt;
        if !coalesced_tail {
            match receiver.open_via_packet(&bytes, p.dcid.len(), largest) {
                Ok(Some((got_pn, payload, _))) => fail!(
                    format!("crypto:forgery-accepted:{lab}:{mname}"),
                    "ProtectedPacket path accepted mutation {:?} as pn {got_pn} payload {}\n  genuine: {}\n  mutated: {}",
                    c.mutation,
                    hex(&payload),
                    hex(&genuine),
                    hex(&bytes)
                ),
                Ok(None) => obs.class("packet_decoder_declined"),
                Err(_) => obs.class("rejected_via_packet_decoder"),
            }
        }
    }

    obs.units = 1;
    // non-trivial: the mutation changed what the receiver parses / holds, and the reference rejects it
    obs.nontrivial(changed && want.is_none());
    Ok(())
}

/// splice whose foreign header has another length than the genuine one: the receiver parses
/// the foreign header, so the packet number offset is the foreign one
#[allow(clippy::too_many_arguments)]
fn splice_with_offset(
    obs: &mut Obs,
    k: &Keying,
    lab: &'static str,
    receiver: &S2nKeys,
    rk: &rfc::Keys,
    bytes: &[u8],
    pn_offset: usize,
    largest: u64,
    genuine: &[u8],
) -> CaseResult {
    obs.class("mut_splice");
    let want = rfc::open(rk, bytes, pn_offset, largest);
    let got = receiver.open(k.level, bytes, pn_offset, largest);
    assert!(want.is_none(), "reference accepted a spliced packet");
    if let Ok(g) = got {
        fail!(
            format!("crypto:forgery-accepted:{lab}:splice"),
            "spliced packet accepted as pn {} payload {}\n  genuine: {}\n  spliced: {}",
            g.pn,
            hex(&g.payload),
            hex(genuine),
            hex(bytes)
        );
    }
    obs.units = 1;
    obs.nontrivial(true);
    Ok(())
}

// ---------------------------------------------------------------------------------------
// generators

const PN_POINTS: &[u64] = &[
    0,
    (1 << 7),
    (1 << 8),
    (1 << 15),
    (1 << 16),
    (1 << 23),
    (1 << 24),
    (1 << 31),
    (1 << 32),
    (1 << 40),
    (1 << 48),
    (1 << 56),
    (1 << 61),
    (1 << 62) - 1,
];

fn suite_strategy() -> impl Strategy<Value = Suite> {
    prop_oneof![Just(Suite::Aes128), Just(Suite::Aes256), Just(Suite::ChaCha)]
}

fn cid_strategy() -> impl Strategy<Value = Vec<u8>> {
    prop_oneof![
        1 => Just(vec![]),
        1 => proptest::collection::vec(any::<u8>(), 20),
        2 => proptest::collection::vec(any::<u8>(), 8),
        4 => proptest::collection::vec(any::<u8>(), 0..=20),
    ]
}

fn keying_strategy() -> impl Strategy<Value = Keying> {
    (
        prop_oneof![
            6 => Just(Level::OneRtt),
            3 => Just(Level::Handshake),
            1 => Just(Level::ZeroRtt),
            3 => Just(Level::Initial),
        ],
        suite_strategy(),
        any::<u64>(),
        any::<u64>(),
        prop_oneof![2 => Just(0u8), 2 => 1u8..=3, 1 => 4u8..=6],
        cid_strategy(),
        any::<bool>(),
    )
        .prop_map(|(level, suite, client_seed, server_seed, generation, initial_dcid, sender_is_client)| Keying {
            level,
            suite,
            client_seed,
            server_seed,
            generation: if level == Level::OneRtt { generation } else { 0 },
            initial_dcid: if level == Level::Initial { initial_dcid } else { vec![] },
            sender_is_client,
        })
}

fn pkt_strategy(allow_short: bool) -> impl Strategy<Value = Pkt> {
    (
        (any::<u8>(), prop_oneof![3 => Just(true), 2 => Just(false)], prop_oneof![1 => Just(1u32), 1 => any::<u32>()]),
        (cid_strategy(), cid_strategy(), proptest::collection::vec(any::<u8>(), 0..=40)),
        (biased_u64(MAX_PN, PN_POINTS), 1u8..=4, prop_oneof![3 => 0i32..=300, 2 => any::<i32>()]),
        (
            prop_oneof![
                3 => 0u16..=8,
                4 => 0u16..=80,
                2 => 0u16..=1500,
                1 => 1150u16..=1500,
            ],
            any::<u64>(),
            prop_oneof![2 => Just(0u16), 1 => 1u16..=64, 1 => any::<u16>()],
            prop_oneof![1 => Just(0u8), 1 => 0u8..=40],
            0u8..=19,
        ),
    )
        .prop_map(
            move |(
                (first, wellformed, version),
                (dcid, scid, token),
                (pn, pn_len, recv),
                (payload_len, payload_seed, extra_tail, slack, short_roll),
            )| {
                // the minimum needed for header-protection sampling is pn_len + payload >= 4;
                // one case in 20 stays below it on purpose (differential check only)
                let min = 4u16.saturating_sub(pn_len as u16);
                let payload_len = if allow_short && short_roll == 0 { payload_len.min(min.saturating_sub(1)) } else { payload_len.max(min) };
                Pkt {
                    first,
                    wellformed,
                    version,
                    dcid,
                    scid,
                    token,
                    pn,
                    pn_len,
                    recv,
                    payload_len,
                    payload_seed,
                    extra_tail,
                    slack,
                }
            },
        )
}

fn diff_strategy(_t: Tier) -> BoxedStrategy<DiffCase> {
    (keying_strategy(), pkt_strategy(true)).prop_map(|(keying, pkt)| DiffCase { keying, pkt }).boxed()
}

fn region_strategy() -> impl Strategy<Value = Region> {
    prop_oneof![
        3 => Just(Region::Any),
        2 => Just(Region::First),
        2 => Just(Region::Header),
        2 => Just(Region::Pn),
        2 => Just(Region::Sample),
        2 => Just(Region::Body),
        2 => Just(Region::Tag),
    ]
}

fn mutation_strategy() -> impl Strategy<Value = Mutation> {
    prop_oneof![
        8 => (region_strategy(), any::<u16>(), 0u8..8).prop_map(|(region, idx, bit)| Mutation::FlipBit { region, idx, bit }),
        2 => (region_strategy(), any::<u16>(), any::<u8>()).prop_map(|(region, idx, value)| Mutation::SetByte { region, idx, value }),
        3 => any::<u16>().prop_map(|idx| Mutation::Truncate { idx }),
        1 => (0u32..40).prop_map(|len| Mutation::TruncateAbs { len }),
        2 => (any::<u8>(), any::<u64>()).prop_map(|(len, seed)| Mutation::Extend { len, seed }),
        3 => (prop_oneof![-3i32..=3, any::<i32>()], 0u16..=200, any::<u64>(), any::<bool>()).prop_map(
            |(delta, other_payload_len, other_seed, genuine_body)| Mutation::Splice {
                delta,
                other_payload_len,
                other_seed,
                genuine_body
            }
        ),
        3 => biased_u64(MAX_PN, PN_POINTS).prop_map(|largest| Mutation::ClaimPn { largest }),
        2 => (0u8..=6).prop_map(|generation| Mutation::OtherGeneration { generation }),
        1 => Just(Mutation::OtherDirection),
        1 => any::<u64>().prop_map(|seed| Mutation::OtherSecret { seed }),
    ]
}

fn forge_strategy(_t: Tier) -> BoxedStrategy<ForgeCase> {
    (keying_strategy(), pkt_strategy(false), mutation_strategy())
        .prop_map(|(keying, mut pkt, mutation)| {
            // forgeries are judged on modest packets; the differential check covers the sizes
            pkt.payload_len = pkt.payload_len.min(300);
            ForgeCase { keying, pkt, mutation }
        })
        .boxed()
}

// ---------------------------------------------------------------------------------------
// exhaustive single-bit flips and truncations of fixed packets

fn fixed_packets() -> Vec<(Keying, Pkt)> {
    let mut v = vec![];
    let pkt = |pn: u64, pn_len: u8, dcid_len: usize, payload_len: u16| Pkt {
        first: 0,
        wellformed: true,
        version: 1,
        dcid: prf_vec(11, 0, dcid_len),
        scid: prf_vec(12, 0, 5),
        token: prf_vec(13, 0, 3),
        pn,
        pn_len,
        recv: 0,
        payload_len,
        payload_seed: 99,
        extra_tail: 0,
        slack: 0,
    };
    for (i, suite) in Suite::ALL.iter().enumerate() {
        for (level, generation) in [(Level::OneRtt, 0u8), (Level::OneRtt, 2), (Level::Handshake, 0)] {
            v.push((
                Keying {
                    level,
                    suite: *suite,
                    client_seed: 1000 + i as u64,
                    server_seed: 2000 + i as u64,
                    generation,
                    initial_dcid: vec![],
                    sender_is_client: generation == 0,
                },
                pkt(0x1234_5678 + generation as u64, 1 + ((i as u8 + generation) % 4), 8, 24),
            ));
        }
    }
    for sender_is_client in [true, false] {
        v.push((
            Keying {
                level: Level::Initial,
                suite: Suite::Aes128,
                client_seed: 0,
                server_seed: 0,
                generation: 0,
                initial_dcid: prf_vec(21, 0, 8),
                sender_is_client,
            },
            pkt(2, 4, 8, 30),
        ));
    }
    v.push((
        Keying {
            level: Level::ZeroRtt,
            suite: Suite::Aes128,
            client_seed: 5,
            server_seed: 6,
            generation: 0,
            initial_dcid: vec![],
            sender_is_client: true,
        },
        pkt(7, 2, 4, 16),
    ));
    v
}

fn wire_len(k: &Keying, p: &Pkt) -> u64 {
    let l = layout(k.level, p);
    (l.header.len() + l.pn_len + l.payload.len().max(4 - l.pn_len.min(4)) + TAG_LEN) as u64
}

fn enum_total(_t: Tier) -> u64 {
    // per packet: 8 * len bit flips + len truncations
    fixed_packets().iter().map(|(k, p)| 9 * wire_len(k, p)).sum()
}

fn enum_case(_t: Tier, mut i: u64) -> ForgeCase {
    for (k, p) in fixed_packets() {
        let len = wire_len(&k, &p);
        if i < 9 * len {
            let mutation = if i < 8 * len {
                Mutation::FlipAbs { bit: i as u32 }
            } else {
                Mutation::TruncateAbs { len: (i - 8 * len) as u32 }
            };
            return ForgeCase { keying: k, pkt: p, mutation };
        }
        i -= 9 * len;
    }
    unreachable!("index beyond enum_total")
}

pub fn subs() -> Vec<Box<dyn SubCheck>> {
    vec![
        Box::new(PropCheck::<DiffCase, _> {
            name: "crypto_reference_differential",
            cases: |t| t.pick(100_000, 10_000_000),
            strategy: diff_strategy,
            oracle: diff_oracle,
            max_shrink_iters: 4_000,
        }),
        Box::new(PropCheck::<ForgeCase, _> {
            name: "crypto_forgery",
            cases: |t| t.pick(100_000, 10_000_000),
            strategy: forge_strategy,
            oracle: forge_oracle,
            max_shrink_iters: 4_000,
        }),
        Box::new(EnumCheck::<ForgeCase> {
            name: "crypto_bitflip_exhaustive",
            total: enum_total,
            case: enum_case,
            oracle: forge_oracle,
        }),
    ]
}
