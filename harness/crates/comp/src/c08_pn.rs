//! C08 (component level): packet-number truncation / expansion against a literal
//! transcription of RFC 9000 §17.1 + Appendix A.2 / A.3, and the `ack::Ranges` →
//! `frame::Ack` encoding against an own ACK-frame parser.
//!
//! Everything the oracle computes is done in `i128`/`u128` in this module; the only
//! s2n-quic functions used on the oracle side are constructors (`VarInt::new`,
//! `PacketNumberSpace::new_packet_number`).

use proptest::prelude::*;
use s2n_codec::{DecoderBuffer, Encoder, EncoderBuffer, EncoderValue};
use s2n_quic_core::{
    ack,
    frame::{self, ack::EcnCounts},
    packet::number::{PacketNumber, PacketNumberSpace, TruncatedPacketNumber},
    varint::VarInt,
};
use serde::{Deserialize, Serialize};
use std::collections::BTreeSet;
use vcore::{ensure_that, fail, gen::pick_index, CaseResult, Obs, PropCheck, Property, SubCheck, Tier};

const MAX: u64 = (1 << 62) - 1;
/// distances at which the smallest admissible encoding grows by one byte
/// (`2^(8·len) ≥ 2·d + 1`  ⇔  `d ≤ 2^(8·len−1) − 1`)
const LEN_BOUNDARIES: [u64; 4] = [1 << 7, 1 << 15, 1 << 23, 1 << 31];

fn space_of(s: u8) -> PacketNumberSpace {
    match s % 3 {
        0 => PacketNumberSpace::Initial,
        1 => PacketNumberSpace::Handshake,
        _ => PacketNumberSpace::ApplicationData,
    }
}

fn pn_of(space: PacketNumberSpace, v: u64) -> PacketNumber {
    space.new_packet_number(VarInt::new(v).expect("harness: pn within varint range"))
}

// ---------------------------------------------------------------------------------------
// RFC 9000 transcriptions

/// RFC 9000 Appendix A.3, literally, in i128 (so that neither `expected_pn - pn_hwin` nor
/// `candidate_pn + pn_win` can wrap). `largest_pn == -1` stands for "nothing received yet".
fn a3_decode(largest_pn: i128, truncated_pn: u64, pn_nbits: u32) -> i128 {
    let expected_pn = largest_pn + 1;
    let pn_win: i128 = 1 << pn_nbits;
    let pn_hwin = pn_win / 2;
    let pn_mask = pn_win - 1;
    let candidate_pn = (expected_pn & !pn_mask) | truncated_pn as i128;
    if candidate_pn <= expected_pn - pn_hwin && candidate_pn < (1i128 << 62) - pn_win {
        return candidate_pn + pn_win;
    }
    if candidate_pn > expected_pn + pn_hwin && candidate_pn >= pn_win {
        return candidate_pn - pn_win;
    }
    candidate_pn
}

/// Is `len` bytes an admissible encoding of `pn` given the largest acknowledged `a`?
///
/// * `a = Some(la)`: RFC 9000 §17.1 "MUST use a packet number size able to represent more
///   than twice as large a range as the difference between the largest acknowledged packet
///   number and the packet number being sent": `2^(8·len) > 2·(pn − la)`, i.e.
///   `2^(8·len) ≥ 2·(pn − la) + 1`.
/// * `a = None`: §17.1 does not define the difference; Appendix A.2 does
///   (`num_unacked = full_pn + 1`, `min_bits = log2(num_unacked) + 1`), i.e.
///   `2^(8·len) ≥ 2·(pn + 1)`.
fn a2_admissible(pn: u64, la: Option<u64>, len: u32) -> bool {
    let win: u128 = 1u128 << (8 * len);
    match la {
        Some(la) => win >= 2 * (pn as u128 - la as u128) + 1,
        None => win >= 2 * (pn as u128 + 1),
    }
}

// ---------------------------------------------------------------------------------------
// helpers around the s2n API

/// (tag bits, wire bytes, big-endian value) of a truncated packet number
fn wire_of(t: TruncatedPacketNumber) -> (u8, Vec<u8>, u64) {
    let mut buf = [0u8; 8];
    let mut enc = EncoderBuffer::new(&mut buf);
    t.encode(&mut enc);
    let n = enc.len();
    let bytes = buf[..n].to_vec();
    let value = bytes.iter().fold(0u64, |acc, b| (acc << 8) | *b as u64);
    (t.len().into_packet_tag_mask(), bytes, value)
}

/// builds a `TruncatedPacketNumber` the way a receiver does: first-byte tag bits + bytes
fn truncated_from_wire(space: PacketNumberSpace, first_byte: u8, bytes: &[u8]) -> Result<TruncatedPacketNumber, String> {
    let len = space.new_packet_number_len(first_byte);
    match len.decode_truncated_packet_number(DecoderBuffer::new(bytes)) {
        Ok((t, rest)) => {
            if rest.len() + len.bytesize() != bytes.len() {
                return Err(format!("decoder consumed {} bytes for a {}-byte packet number", bytes.len() - rest.len(), len.bytesize()));
            }
            Ok(t)
        }
        Err(e) => Err(format!("decode error {e}")),
    }
}

// ---------------------------------------------------------------------------------------
// sub-check 1: sender side (truncate) + round trips

#[derive(Clone, Debug, Hash, PartialEq, Eq, Serialize, Deserialize)]
pub struct TruncCase {
    pub pn: u64,
    /// largest acknowledged by the peer, `None` = nothing acknowledged yet
    pub largest_acked: Option<u64>,
    pub space: u8,
    /// selects one more receiver state `largest ∈ [largest_acked, pn)`
    pub recv_choice: u16,
    /// upper six bits of the first packet byte (must not influence the length decoding)
    pub tag_noise: u8,
}

fn near_boundary(d: u128) -> bool {
    LEN_BOUNDARIES.iter().any(|b| (d as i128 - *b as i128).abs() <= 2)
}

fn trunc_oracle(c: &TruncCase, obs: &mut Obs) -> CaseResult {
    let space = space_of(c.space);
    let pn = c.pn.min(MAX);
    let la = c.largest_acked.map(|v| v.min(MAX));
    let s2n_pn = pn_of(space, pn);
    // With nothing acknowledged s2n's sender uses packet number 0 as the basis
    // (`TxPacketNumbers::new`: `largest_sent_acked = initial_packet_number`).
    let basis = pn_of(space, la.unwrap_or(0));

    if let Some(la) = la {
        if pn < la {
            // not a state a sender can be in (it never got an ACK for a packet it has not sent
            // yet); only absence of a panic is required
            obs.class("pn-below-largest-acked");
            let _ = s2n_pn.truncate(basis);
            return Ok(());
        }
    }

    // distance as RFC A.2 defines it (num_unacked)
    let d: u128 = match la {
        Some(la) => (pn - la) as u128,
        None => pn as u128 + 1,
    };
    let representable = (1..=4).any(|len| a2_admissible(pn, la, len));
    let got = s2n_pn.truncate(basis);

    obs.nontrivial(near_boundary(d));
    obs.class_if(la.is_none(), "largest-acked-none");
    obs.class_if(pn >= MAX - 2, "pn-at-2^62-1");
    obs.class_if(pn <= 2, "pn-at-0");
    obs.class_if(!representable, "not-representable");
    for (i, b) in LEN_BOUNDARIES.iter().enumerate() {
        if (d as i128 - *b as i128).abs() <= 2 {
            obs.class(["dist-2^7±2", "dist-2^15±2", "dist-2^23±2", "dist-2^31±2"][i]);
        }
    }

    let t = match got {
        None => {
            ensure_that!(!representable, "pn:truncate-refused", "pn {pn} largest_acked {la:?}: truncate returned None although the distance {d} is representable in <= 4 bytes");
            return Ok(());
        }
        Some(t) => t,
    };
    ensure_that!(representable, "pn:truncate-unrepresentable", "pn {pn} largest_acked {la:?}: truncate returned {t:?} although no encoding of <= 4 bytes can represent twice the distance {d}");

    let (tag, bytes, value) = wire_of(t);
    let len = t.len().bytesize() as u32;
    obs.class(["", "len-1", "len-2", "len-3", "len-4"][len as usize]);
    ensure_that!((1..=4).contains(&len), "pn:len-range", "pn {pn}: length {len}");
    ensure_that!(t.space() == space, "pn:space", "pn {pn}: truncated number is in space {:?}, expected {space:?}", t.space());

    // A.2 / §17.1: large enough
    ensure_that!(
        a2_admissible(pn, la, len),
        "pn:len-too-short",
        "pn {pn} largest_acked {la:?}: chosen length {len} bytes cannot represent more than twice the distance {d} (2^{} < {})",
        8 * len,
        match la { Some(_) => 2 * d + 1, None => 2 * d }
    );
    // A.2: the least significant bytes of the full packet number
    let mask = (1u64 << (8 * len)) - 1;
    ensure_that!(value == pn & mask, "pn:truncated-value", "pn {pn}: truncated value {value:#x} is not the low {len} bytes {:#x}", pn & mask);

    // wire: length, tag bits, and decode of the bytes with arbitrary upper tag bits
    ensure_that!(bytes.len() as u32 == len, "pn:wire-len", "pn {pn}: {} bytes on the wire for length {len}", bytes.len());
    ensure_that!(tag as u32 == len - 1, "pn:tag-bits", "pn {pn}: tag bits {tag:#04b} for length {len} (RFC 9000 §17.2: one less than the length in bytes)");
    let first_byte = (c.tag_noise << 2) | tag;
    let mut wire = bytes.clone();
    wire.extend_from_slice(&[0xa5, 0x5a]); // payload after the packet number must be left alone
    match truncated_from_wire(space, first_byte, &wire) {
        Ok(back) => {
            ensure_that!(back == t, "pn:wire-roundtrip", "pn {pn}: wire bytes {bytes:02x?} with first byte {first_byte:#010b} decode to {back:?}, sent {t:?}");
        }
        Err(e) => fail!("pn:wire-roundtrip", "pn {pn}: wire bytes {bytes:02x?} do not decode: {e}"),
    }

    // A.3 at the receiver: any largest in [a, pn) must give pn back
    let a: i128 = la.map(|v| v as i128).unwrap_or(-1);
    let span = pn as i128 - a; // number of admissible receiver states
    if span > 0 {
        let mut states: Vec<i128> = vec![a, pn as i128 - 1, a + span / 2, a + std::cmp::min(1, span - 1)];
        states.push(a + ((c.recv_choice as i128 * span) >> 16));
        // the receiver states around every half-window distance from pn
        for b in LEN_BOUNDARIES {
            for k in [-1i128, 0, 1] {
                let l = pn as i128 - b as i128 + k;
                if l >= a && l < pn as i128 {
                    states.push(l);
                }
            }
        }
        for largest in states {
            let rfc = a3_decode(largest, value, 8 * len);
            ensure_that!(
                rfc == pn as i128,
                "pn:a3-mismatch",
                "pn {pn} largest_acked {la:?} sent as {len} bytes {value:#x}: a receiver whose largest is {largest} reconstructs {rfc} by RFC 9000 A.3"
            );
            if largest >= 0 {
                let s2n = t.expand(pn_of(space, largest as u64));
                ensure_that!(
                    s2n.as_u64() == pn && s2n.space() == space,
                    "pn:expand-mismatch",
                    "pn {pn} largest_acked {la:?} sent as {len} bytes {value:#x}: s2n expand with largest {largest} gives {s2n:?}"
                );
            }
        }
    }
    Ok(())
}

fn dist_strategy() -> impl Strategy<Value = u64> {
    prop_oneof![
        // around the length boundaries
        5 => (0usize..4, 0u64..=4).prop_map(|(i, k)| LEN_BOUNDARIES[i] + k - 2),
        // around twice / half the boundaries (where a wrong factor would put them)
        2 => (0usize..4, 0u64..=4, any::<bool>()).prop_map(|(i, k, dbl)| if dbl { LEN_BOUNDARIES[i] * 2 + k - 2 } else { LEN_BOUNDARIES[i] / 2 + k - 2 }),
        2 => 0u64..300,
        2 => 0u64..(1 << 17),
        2 => 0u64..(1 << 33),
        1 => 0u64..=MAX,
    ]
}

fn anchor_strategy() -> impl Strategy<Value = u64> {
    prop_oneof![
        3 => 0u64..=MAX,
        2 => 0u64..8,
        2 => (0u64..8).prop_map(|k| MAX - k),
        1 => (0u32..62, 0u64..=4).prop_map(|(b, k)| ((1u64 << b) + k).saturating_sub(2).min(MAX)),
        1 => 0u64..(1 << 34),
        1 => (0u64..(1 << 34)).prop_map(|k| MAX - k),
    ]
}

fn trunc_strategy(_t: Tier) -> impl Strategy<Value = TruncCase> {
    let pair = prop_oneof![
        // largest_acked anchored, pn above it
        5 => (anchor_strategy(), dist_strategy()).prop_map(|(la, d)| (la.saturating_add(d).min(MAX), Some(la))),
        // pn anchored, largest_acked below it
        5 => (anchor_strategy(), dist_strategy()).prop_map(|(pn, d)| (pn, Some(pn.saturating_sub(d)))),
        // nothing acknowledged yet: distance is pn + 1
        3 => dist_strategy().prop_map(|d| (d.saturating_sub(1).min(MAX), None)),
        // both uniform (mostly not representable, or pn below largest_acked)
        1 => (0u64..=MAX, 0u64..=MAX).prop_map(|(pn, la)| (pn, Some(la))),
    ];
    (pair, 0u8..3, any::<u16>(), 0u8..64).prop_map(|((pn, largest_acked), space, recv_choice, tag_noise)| TruncCase {
        pn,
        largest_acked,
        space,
        recv_choice,
        tag_noise,
    })
}

// ---------------------------------------------------------------------------------------
// sub-check 2: receiver side (expand) differential against A.3 on arbitrary inputs

#[derive(Clone, Debug, Hash, PartialEq, Eq, Serialize, Deserialize)]
pub struct ExpandCase {
    pub largest: u64,
    /// encoded length in bytes, 1..=4
    pub len: u8,
    pub value: Val,
    pub space: u8,
}

#[derive(Clone, Copy, Debug, Hash, PartialEq, Eq, Serialize, Deserialize)]
pub enum Val {
    Abs(u32),
    /// low bytes of `largest + 1 + delta`
    NearExpected(i64),
    /// low bytes of `largest + 1 ± half window + delta`
    HalfWindow { up: bool, delta: i8 },
}

fn expand_oracle(c: &ExpandCase, obs: &mut Obs) -> CaseResult {
    let space = space_of(c.space);
    let len = (c.len.clamp(1, 4)) as u32;
    let largest = c.largest.min(MAX);
    let win: i128 = 1 << (8 * len);
    let expected = largest as i128 + 1;
    let target: i128 = match c.value {
        Val::Abs(v) => v as i128,
        Val::NearExpected(d) => expected + d as i128,
        Val::HalfWindow { up, delta } => expected + if up { win / 2 } else { -(win / 2) } + delta as i128,
    };
    let value = target.rem_euclid(win) as u64;
    let bytes: Vec<u8> = (0..len).rev().map(|i| (value >> (8 * i)) as u8).collect();
    let t = match truncated_from_wire(space, (len - 1) as u8, &bytes) {
        Ok(t) => t,
        Err(e) => fail!("pn:wire-decode", "{len}-byte packet number {bytes:02x?} does not decode: {e}"),
    };
    let (tag, back, v2) = wire_of(t);
    ensure_that!(back == bytes && v2 == value && tag as u32 == len - 1, "pn:wire-roundtrip", "bytes {bytes:02x?} decode to {t:?} which re-encodes as {back:02x?} tag {tag}");

    let rfc = a3_decode(largest as i128, value, 8 * len);
    let got = t.expand(pn_of(space, largest));

    // distance of the *candidate* from the expected pn, relative to the half window
    let candidate = (expected & !(win - 1)) | value as i128;
    let dist = (candidate - expected).abs();
    let at_edge = (dist - win / 2).abs() <= 2;
    let corner = largest >= MAX - (win as u64) || (largest as i128) < win;
    obs.nontrivial(at_edge);
    obs.class_if(at_edge, "half-window-edge±2");
    obs.class_if(dist == win / 2, "exactly-half-window");
    obs.class_if(corner && largest >= MAX - (win as u64), "near-2^62");
    obs.class_if(corner && (largest as i128) < win, "near-0");
    obs.class_if(rfc != candidate, "window-adjusted");
    obs.class(["", "len-1", "len-2", "len-3", "len-4"][len as usize]);

    ensure_that!(got.space() == space, "pn:space", "expand changed the space to {:?}", got.space());
    if (0..=MAX as i128).contains(&rfc) {
        ensure_that!(
            got.as_u64() as i128 == rfc,
            "pn:expand-vs-a3",
            "largest {largest}, truncated {value:#x} ({len} bytes): s2n expands to {}, RFC 9000 A.3 gives {rfc}",
            got.as_u64()
        );
    } else {
        // A.3 itself leaves [0, 2^62) (only possible for largest = 2^62-1 and a candidate at or
        // above 2^62): no packet number exists for this input; any in-range answer is
        // acceptable, the packet cannot authenticate.
        obs.class("a3-out-of-range");
    }
    Ok(())
}

fn expand_strategy(_t: Tier) -> impl Strategy<Value = ExpandCase> {
    let value = prop_oneof![
        2 => any::<u32>().prop_map(Val::Abs),
        2 => (-300i64..300).prop_map(Val::NearExpected),
        1 => any::<i64>().prop_map(|d| Val::NearExpected(d >> 20)),
        5 => (any::<bool>(), -3i8..=3).prop_map(|(up, delta)| Val::HalfWindow { up, delta }),
    ];
    let largest = prop_oneof![
        3 => 0u64..=MAX,
        2 => 0u64..600,
        2 => (0u64..600).prop_map(|k| MAX - k),
        // around multiples of the windows and half windows
        3 => (1u32..=4, 0u64..(1 << 30), any::<bool>(), 0u64..=6).prop_map(|(len, m, half, k)| {
            let win = 1u64 << (8 * len);
            let base = (m % ((MAX >> (8 * len)) + 1)) * win + if half { win / 2 } else { 0 };
            (base + k).saturating_sub(3).min(MAX)
        }),
        2 => (1u32..=4, 0u64..=6, any::<bool>()).prop_map(|(len, k, top)| {
            let win = 1u64 << (8 * len);
            if top { (MAX - win + k).saturating_sub(3).min(MAX) } else { (win + k).saturating_sub(3) }
        }),
        1 => 0u64..(1 << 34),
        1 => (0u64..(1 << 34)).prop_map(|k| MAX - k),
    ];
    (largest, 1u8..=4, value, 0u8..3).prop_map(|(largest, len, value, space)| ExpandCase { largest, len, value, space })
}

// ---------------------------------------------------------------------------------------
// sub-check 3: ack::Ranges -> frame::Ack -> own parser

#[derive(Clone, Debug, Hash, PartialEq, Eq, Serialize, Deserialize)]
pub struct AckCase {
    pub space: u8,
    pub limit: u8,
    pub base: u64,
    pub ack_delay: u64,
    pub ecn: Option<(u64, u64, u64)>,
    pub inserts: Vec<Ins>,
}

#[derive(Clone, Copy, Debug, Hash, PartialEq, Eq, Serialize, Deserialize)]
pub enum Ins {
    /// next in order (largest + 1 + gap)
    Next { gap: u8 },
    /// below the largest received so far
    Behind { back: u16 },
    /// duplicate of something received (by choice)
    Dup { choice: u16 },
    /// just below the smallest range held
    BelowMin { back: u8 },
}

/// minimal varint reader (RFC 9000 §16)
fn read_varint(b: &[u8], pos: &mut usize) -> Result<u64, String> {
    let first = *b.get(*pos).ok_or("truncated frame")?;
    let n = 1usize << (first >> 6);
    if *pos + n > b.len() {
        return Err("truncated varint".into());
    }
    let mut v = (first & 0x3f) as u64;
    for i in 1..n {
        v = (v << 8) | b[*pos + i] as u64;
    }
    *pos += n;
    Ok(v)
}

struct ParsedAck {
    delay: u64,
    /// inclusive (smallest, largest), descending
    ranges: Vec<(u64, u64)>,
    ecn: Option<(u64, u64, u64)>,
    consumed: usize,
}

/// RFC 9000 §19.3 / §19.3.1 transcription
fn parse_ack(b: &[u8]) -> Result<ParsedAck, String> {
    let mut pos = 0;
    let ty = read_varint(b, &mut pos)?;
    if ty != 0x02 && ty != 0x03 {
        return Err(format!("frame type {ty:#x} is not ACK"));
    }
    let largest = read_varint(b, &mut pos)? as i128;
    let delay = read_varint(b, &mut pos)?;
    let count = read_varint(b, &mut pos)?;
    let first = read_varint(b, &mut pos)? as i128;
    let mut smallest = largest - first;
    if smallest < 0 {
        return Err(format!("first ACK range {first} exceeds largest acknowledged {largest}"));
    }
    let mut ranges = vec![(smallest as u64, largest as u64)];
    for i in 0..count {
        let gap = read_varint(b, &mut pos)? as i128;
        let len = read_varint(b, &mut pos)? as i128;
        // §19.3.1: largest = previous_smallest - gap - 2; smallest = largest - ack_range
        let l = smallest - gap - 2;
        let s = l - len;
        if s < 0 {
            return Err(format!("ACK range {i} reaches below packet number 0 (largest {l}, length {len})"));
        }
        ranges.push((s as u64, l as u64));
        smallest = s;
    }
    let ecn = if ty == 0x03 {
        Some((read_varint(b, &mut pos)?, read_varint(b, &mut pos)?, read_varint(b, &mut pos)?))
    } else {
        None
    };
    Ok(ParsedAck { delay, ranges, ecn, consumed: pos })
}

fn ack_oracle(c: &AckCase, obs: &mut Obs) -> CaseResult {
    let space = space_of(c.space);
    let limit = (c.limit as usize).max(1);
    let mut ranges = ack::Ranges::new(limit);
    let mut received: BTreeSet<u64> = BTreeSet::new();
    let mut order: Vec<u64> = vec![];
    let base = c.base.min(MAX - (1 << 20));
    let mut buf = vec![0u8; 64 + 20 * (limit + 2)];
    let mut max_ranges_seen = 0usize;
    let mut dropped = false;
    let mut frames = 0u64;

    for (step, ins) in c.inserts.iter().enumerate() {
        let largest = received.iter().next_back().copied();
        let pn = match *ins {
            Ins::Next { gap } => largest.map(|l| l + 1 + gap as u64).unwrap_or(base),
            Ins::Behind { back } => largest.map(|l| l.saturating_sub(back as u64)).unwrap_or(base),
            Ins::Dup { choice } => {
                if order.is_empty() {
                    base
                } else {
                    order[pick_index(choice, order.len())]
                }
            }
            Ins::BelowMin { back } => match ranges.min_value() {
                Some(m) => m.as_u64().saturating_sub(1 + back as u64),
                None => base,
            },
        };
        let pn = pn.min(MAX);
        // the receiver records a packet number once its packet was processed
        received.insert(pn);
        order.push(pn);
        if ranges.insert_packet_number(pn_of(space, pn)).is_err() {
            dropped = true;
        }
        if ranges.is_empty() {
            continue;
        }

        // the frame exactly as `AckManager::on_transmit` builds it
        let frame = frame::Ack {
            ack_delay: VarInt::new(c.ack_delay.min(MAX)).unwrap(),
            ack_ranges: &ranges,
            ecn_counts: c.ecn.map(|(a, b, ce)| EcnCounts {
                ect_0_count: VarInt::new(a.min(MAX)).unwrap(),
                ect_1_count: VarInt::new(b.min(MAX)).unwrap(),
                ce_count: VarInt::new(ce.min(MAX)).unwrap(),
            }),
        };
        let n = {
            let mut enc = EncoderBuffer::new(&mut buf);
            frame.encode(&mut enc);
            enc.len()
        };
        frames += 1;
        let parsed = match parse_ack(&buf[..n]) {
            Ok(p) => p,
            Err(e) => fail!("ack:frame-malformed", "step {step} (pn {pn}): encoded ACK frame {:02x?} is malformed: {e}", &buf[..n]),
        };
        ensure_that!(parsed.consumed == n, "ack:frame-trailing", "step {step}: {} trailing bytes after the ACK frame", n - parsed.consumed);
        ensure_that!(parsed.delay == c.ack_delay.min(MAX), "ack:delay", "step {step}: ack delay field {} != {}", parsed.delay, c.ack_delay.min(MAX));
        ensure_that!(parsed.ecn == c.ecn.map(|(a, b, ce)| (a.min(MAX), b.min(MAX), ce.min(MAX))), "ack:ecn", "step {step}: ECN counts {:?} != {:?}", parsed.ecn, c.ecn);

        // 1. every acknowledged pn was received
        let mut acked: u64 = 0;
        for (s, l) in &parsed.ranges {
            ensure_that!(s <= l, "ack:range-order", "step {step}: range {s}..={l}");
            let span = l - s + 1;
            ensure_that!(
                span <= received.len() as u64,
                "ack:not-received",
                "step {step}: ACK range {s}..={l} names {span} packets, only {} were ever received",
                received.len()
            );
            for p in *s..=*l {
                ensure_that!(received.contains(&p), "ack:not-received", "step {step}: ACK frame acknowledges {p} (range {s}..={l}) which was never received; received {:?}", received);
            }
            acked += span;
        }
        // 2. ranges are descending and separated by at least one unacknowledged number (wire format)
        for w in parsed.ranges.windows(2) {
            ensure_that!(w[1].1 + 1 < w[0].0, "ack:range-order", "step {step}: ranges {:?} then {:?} are not descending with a gap", w[0], w[1]);
        }
        // 3. the frame says exactly what the range set holds (nothing lost in the encoding), in particular
        //    the largest received pn
        let held: Vec<(u64, u64)> = ranges.inclusive_ranges().rev().map(|r| (r.start().as_u64(), r.end().as_u64())).collect();
        ensure_that!(parsed.ranges == held, "ack:frame-vs-ranges", "step {step}: frame ranges {:?}, range set holds {:?}", parsed.ranges, held);
        let top = *received.iter().next_back().unwrap();
        ensure_that!(parsed.ranges[0].1 == top, "ack:largest-missing", "step {step}: largest acknowledged {} but the largest received is {top}", parsed.ranges[0].1);
        ensure_that!(parsed.ranges.len() <= limit, "ack:range-limit", "step {step}: {} ranges with limit {limit}", parsed.ranges.len());
        // 4. the highest `limit` ranges of the received set are never the ones sacrificed:
        //    whatever is acknowledged below the top range is a suffix-closed selection
        if !dropped {
            ensure_that!(acked == received.len() as u64, "ack:lost-without-limit", "step {step}: {acked} packets acknowledged, {} received, and the range limit was never hit", received.len());
        }
        max_ranges_seen = max_ranges_seen.max(parsed.ranges.len());
    }
    obs.units = frames;
    obs.nontrivial(max_ranges_seen >= 3);
    obs.class_if(dropped, "range-limit-hit");
    obs.class_if(c.ecn.is_some(), "with-ecn");
    obs.class_if(max_ranges_seen >= 3, ">=2-gaps");
    obs.class_if(base >= (1 << 30), "pn>=2^30");
    Ok(())
}

fn ack_strategy(_t: Tier) -> impl Strategy<Value = AckCase> {
    let ins = prop_oneof![
        6 => prop_oneof![4 => Just(0u8), 3 => 1u8..4, 1 => any::<u8>()].prop_map(|gap| Ins::Next { gap }),
        3 => prop_oneof![3 => 1u16..6, 2 => 1u16..80, 1 => any::<u16>()].prop_map(|back| Ins::Behind { back }),
        1 => any::<u16>().prop_map(|choice| Ins::Dup { choice }),
        1 => (0u8..4).prop_map(|back| Ins::BelowMin { back }),
    ];
    (
        0u8..3,
        prop_oneof![Just(1u8), Just(2), Just(3), Just(10), 1u8..40],
        vcore::gen::varint_value(),
        vcore::gen::varint_value(),
        prop::option::of((vcore::gen::varint_value(), vcore::gen::varint_value(), vcore::gen::varint_value())),
        prop::collection::vec(ins, 1..60),
    )
        .prop_map(|(space, limit, base, ack_delay, ecn, inserts)| AckCase { space, limit, base, ack_delay, ecn, inserts })
}

// ---------------------------------------------------------------------------------------

pub fn subs() -> Vec<Box<dyn SubCheck>> {
    vec![
        Box::new(PropCheck::<TruncCase, _> {
            name: "pn_truncate_expand",
            cases: |t| t.pick(2_000_000, 60_000_000),
            strategy: trunc_strategy,
            oracle: trunc_oracle,
            max_shrink_iters: 4_000,
        }),
        Box::new(PropCheck::<ExpandCase, _> {
            name: "pn_expand_a3",
            cases: |t| t.pick(2_000_000, 60_000_000),
            strategy: expand_strategy,
            oracle: expand_oracle,
            max_shrink_iters: 4_000,
        }),
        Box::new(PropCheck::<AckCase, _> {
            name: "ack_ranges_to_frame",
            cases: |t| t.pick(100_000, 3_000_000),
            strategy: ack_strategy,
            oracle: ack_oracle,
            max_shrink_iters: 20_000,
        }),
    ]
}

pub fn property() -> Property {
    Property {
        id: "C08",
        rule: "component level. pn_truncate_expand: triples (pn, largest_acked | none, space) over all of [0, 2^62): anchors uniform / at 0 / \
               at 2^62-1 / at powers of two, distances uniform and concentrated at 2^7, 2^15, 2^23, 2^31 (±2) and at half/twice those; \
               s2n truncate must succeed exactly when some length <= 4 bytes satisfies 2^(8·len) >= 2·(pn − largest_acked) + 1, the chosen \
               length must satisfy it (longer than minimal is allowed), the value must be the low bytes of pn, the wire encoding (tag bits, bytes) \
               must round-trip, and RFC 9000 A.3 (own i128 transcription) as well as s2n expand must give pn back for every probed receiver state \
               largest ∈ [largest_acked, pn) (both ends, middle, a generated one, and the states at every half-window distance from pn). \
               pn_expand_a3: arbitrary (largest, length, truncated value) with values concentrated at expected ± half window (±3) and largest at \
               0, 2^62-1 and window multiples: s2n expand == A.3 whenever A.3 stays inside [0, 2^62). ack_ranges_to_frame: generated receive \
               histories (in order, gaps, reordering, duplicates, below the smallest range) into ack::Ranges with limit 1..40; after every insert the \
               frame::Ack built as the ack manager builds it is encoded and parsed by an own RFC 9000 §19.3 parser: every acknowledged pn was \
               received, ranges descend with gaps, the frame equals the range set, the largest received is acknowledged, nothing is lost unless the \
               limit was hit. Non-trivial: distance (pn − largest_acked, or pn + 1 for none) within 2 of 2^7/2^15/2^23/2^31; expand: candidate \
               within 2 of the half-window edge; ack: a frame with >= 3 ranges. Distinct = distinct generated cases.",
        assumptions: &[
            "RFC 9000 §17.1, A.2, A.3 and §19.3 as transcribed in c08_pn.rs (i128 arithmetic) are the trusted base",
            "largest_acked = none: s2n has no such state; its sender (TxPacketNumbers::new) uses packet number 0 as basis, which is what the check passes. \
             The requirement checked is A.2's literal num_unacked = pn + 1: 2^(8·len) >= 2·(pn + 1); §17.1's 'more than twice the difference' is undefined \
             without an acknowledged packet (with a = −1 it would demand 2 bytes for pn 127, A.2's pseudocode computes 1)",
            "pn < largest_acked is not a reachable sender state; only absence of a panic is checked there",
            "where A.3 itself leaves [0, 2^62) (largest = 2^62−1) no packet number exists; s2n's clamp to 2^62−1 is accepted",
            "which packet numbers the ack manager inserts into ack::Ranges (only successfully processed ones) is decided by the end-to-end monitor, not here",
        ],
        subs: subs(),
        shards: 0,
    }
}
