//! C09 (component level): `recovery::RttEstimator`, `recovery::loss::detect` and
//! `recovery::pto::Pto` against a transcription of RFC 9002 §5, §6.1, §6.2 and Appendix A
//! in integer nanoseconds (u128).
//!
//! The estimator is compared step by step: the expected next state is computed from the
//! estimator's own previous state (read through its getters) and the op, so truncation does
//! not accumulate in the comparison; the range invariants of the property are tracked
//! independently from the generated samples.

use core::task::Poll;
use core::time::Duration;
use proptest::prelude::*;
use s2n_quic_core::{
    packet::number::{PacketNumber, PacketNumberSpace},
    recovery::{loss, Pto, RttEstimator},
    time::{timer::Provider as _, Timestamp},
    transport::parameters::MaxAckDelay,
    varint::VarInt,
};
use serde::{Deserialize, Serialize};
use vcore::{ensure_that, fail, CaseResult, Obs, PropCheck, Property, SubCheck, Tier};

const MAX_PN: u64 = (1 << 62) - 1;
const US: u64 = 1_000;
const MS: u64 = 1_000_000;
const SEC: u64 = 1_000_000_000;
/// RFC 9002 §6.1.2 kGranularity (recommended value, the one the property names)
const K_GRANULARITY_NS: u64 = MS;
/// RFC 9002 §6.1.1 kPacketThreshold (the property: "at least three packet numbers older")
const K_PACKET_THRESHOLD: u64 = 3;
/// the estimator's documented floor for a sample (`rtt_estimator::MIN_RTT`)
const MIN_SAMPLE_NS: u64 = US;
/// worst case accumulated downward drift of `smoothed_rtt` caused by the divide-first
/// `weighted_average` (s' >= (7s + A − 56)/8  ⇒  s >= lo − 56 is inductive)
const SRTT_DRIFT_NS: u64 = 56;

fn space_of(s: u8) -> PacketNumberSpace {
    match s % 3 {
        0 => PacketNumberSpace::Initial,
        1 => PacketNumberSpace::Handshake,
        _ => PacketNumberSpace::ApplicationData,
    }
}

fn ts(micros: u64) -> Timestamp {
    // the harness is the time source here
    unsafe { Timestamp::from_duration(Duration::from_micros(micros.max(1))) }
}

fn ts_micros(t: Timestamp) -> u64 {
    unsafe { t.as_duration().as_micros() as u64 }
}

fn ns(d: Duration) -> u64 {
    d.as_nanos() as u64
}

// ---------------------------------------------------------------------------------------
// sub-check 1: RttEstimator

#[derive(Clone, Copy, Debug, Hash, PartialEq, Eq, Serialize, Deserialize)]
pub enum Sample {
    /// absolute, nanoseconds
    Abs(u64),
    /// `min_rtt + effective ack delay + delta` ns (the boundary of the ack-delay adjustment)
    AtAdjustBoundary(i32),
    /// `min_rtt + delta` ns
    NearMin(i32),
    /// `smoothed_rtt + delta` ns
    NearSmoothed(i32),
}

#[derive(Clone, Copy, Debug, Hash, PartialEq, Eq, Serialize, Deserialize)]
pub enum RttOp {
    Update { sample: Sample, ack_delay_ns: u64, confirmed: bool, space: u8, dt_us: u32 },
    MaxAckDelay { ms: u16 },
    PersistentCongestion,
    NewPath { initial_rtt_us: u32 },
    Query { backoff: u32, space: u8 },
}

#[derive(Clone, Debug, Hash, PartialEq, Eq, Serialize, Deserialize)]
pub struct RttCase {
    pub initial_rtt_us: u32,
    pub ops: Vec<RttOp>,
}

/// `got` is an admissible result of `((w−1)·a + b) / w`: never above the exact value and less
/// than `w` ns below it (s2n divides before multiplying: "it's more accurate to multiply first
/// but it risks overflow so we divide first"; loss < (w−1) + 1 ns).
fn wavg_ok(a: u64, b: u64, w: u64, got: u64) -> bool {
    let exact_num = (w as u128 - 1) * a as u128 + b as u128; // = exact · w
    let got_num = got as u128 * w as u128;
    got_num <= exact_num && exact_num - got_num < (w as u128) * (w as u128)
}

#[derive(Clone, Copy, Debug)]
struct Snapshot {
    latest: u64,
    min: u64,
    srtt: u64,
    rttvar: u64,
    mad: u64,
}

fn snap(e: &RttEstimator) -> Snapshot {
    Snapshot { latest: ns(e.latest_rtt()), min: ns(e.min_rtt()), srtt: ns(e.smoothed_rtt()), rttvar: ns(e.rttvar()), mad: ns(e.max_ack_delay()) }
}

/// range of the samples observed since the estimator was (re)initialised
#[derive(Clone, Copy, Debug)]
struct Seen {
    /// a first sample is pending (RFC 9002 §5.2/§5.3: the next sample initialises everything)
    awaiting_first: bool,
    /// any sample since creation / new path (until then the initial RTT is reported)
    any_sample: bool,
    sample_min: u64,
    adj_lo: u64,
    adj_hi: u64,
    /// bound for rttvar: max(first/2, spread)
    var_hi: u64,
}

fn check_queries(step: usize, e: &RttEstimator, backoff: u32, space: PacketNumberSpace) -> CaseResult {
    let s = snap(e);
    // RFC 9002 §6.2.1: PTO = smoothed_rtt + max(4*rttvar, kGranularity) + max_ack_delay
    // (max_ack_delay = 0 for Initial and Handshake), times 2^pto_count.
    let exact_base: u128 = s.srtt as u128 + (4 * s.rttvar as u128).max(K_GRANULARITY_NS as u128) + if space.is_application_data() { s.mad as u128 } else { 0 };
    let base = e.pto_period(1, space).as_nanos();
    // s2n computes in whole microseconds ("We operate on microseconds rather than `Duration` to
    // improve efficiency"): smoothed_rtt loses < 1 µs, 4·rttvar loses < 4 µs.
    ensure_that!(
        base <= exact_base && exact_base - base < 5 * US as u128,
        "rtt:pto-period",
        "step {step}: pto_period(1, {space:?}) = {base} ns, RFC 9002 §6.2.1 gives {exact_base} ns (srtt {} rttvar {} max_ack_delay {})",
        s.srtt, s.rttvar, s.mad
    );
    ensure_that!(base >= K_GRANULARITY_NS as u128, "rtt:pto-below-granularity", "step {step}: pto_period(1, {space:?}) = {base} ns < kGranularity");
    let p = e.pto_period(backoff, space).as_nanos();
    ensure_that!(p >= K_GRANULARITY_NS as u128, "rtt:pto-below-granularity", "step {step}: pto_period({backoff}, {space:?}) = {p} ns < kGranularity");
    if backoff >= 1 {
        ensure_that!(p == base * backoff as u128, "rtt:pto-backoff", "step {step}: pto_period({backoff}, {space:?}) = {p} ns, expected {backoff} x {base}");
        if let Some(b2) = backoff.checked_mul(2) {
            let p2 = e.pto_period(b2, space).as_nanos();
            ensure_that!(p2 == 2 * p, "rtt:pto-doubling", "step {step}: pto_period({b2}) = {p2} ns is not twice pto_period({backoff}) = {p} ns ({space:?})");
        }
    }
    Ok(())
}

fn check_thresholds(step: usize, e: &RttEstimator) -> CaseResult {
    let s = snap(e);
    // RFC 9002 §6.1.2: max(kTimeThreshold * max(smoothed_rtt, latest_rtt), kGranularity), kTimeThreshold = 9/8
    let t = s.srtt.max(s.latest) as u128;
    let expect = (9 * t / 8).max(K_GRANULARITY_NS as u128);
    let got = ns(e.loss_time_threshold()) as u128;
    ensure_that!(got == expect, "rtt:loss-time-threshold", "step {step}: loss_time_threshold {got} ns, expected max(9/8 x max({}, {}), 1 ms) = {expect} ns", s.srtt, s.latest);
    Ok(())
}

fn rtt_oracle(c: &RttCase, obs: &mut Obs) -> CaseResult {
    let init = (c.initial_rtt_us as u64).max(1) * US;
    let mut e = RttEstimator::new(Duration::from_nanos(init));
    let mut seen = Seen { awaiting_first: true, any_sample: false, sample_min: init, adj_lo: init, adj_hi: init, var_hi: init / 2 };
    let mut now_us: u64 = 1_000;
    let (mut saw_first, mut saw_skip, mut saw_backoff, mut saw_adjust) = (false, false, false, false);

    {
        let s = snap(&e);
        ensure_that!(s.srtt == init && s.rttvar == init / 2 && s.latest == init && s.min == init && s.mad == 0, "rtt:initial", "new({init} ns): {s:?} (RFC 9002 §5.3: smoothed_rtt = kInitialRtt, rttvar = kInitialRtt / 2)");
    }

    for (step, op) in c.ops.iter().enumerate() {
        let prev = snap(&e);
        match *op {
            RttOp::MaxAckDelay { ms } => {
                let ms = (ms as u64).min((1 << 14) - 1);
                e.on_max_ack_delay(MaxAckDelay::try_from(Duration::from_millis(ms)).expect("harness: valid max_ack_delay"));
                let s = snap(&e);
                ensure_that!(s.mad == ms * MS, "rtt:max-ack-delay", "step {step}: max_ack_delay {} after on_max_ack_delay({ms} ms)", s.mad);
                ensure_that!((s.latest, s.min, s.srtt, s.rttvar) == (prev.latest, prev.min, prev.srtt, prev.rttvar), "rtt:max-ack-delay", "step {step}: on_max_ack_delay changed the estimates");
            }
            RttOp::PersistentCongestion => {
                // RFC 9002 §5.2: "Endpoints SHOULD set the min_rtt to the newest RTT sample after
                // persistent congestion is established"; s2n re-initialises smoothed_rtt/rttvar from
                // that sample as well (§5.2 last paragraph permits resetting both).
                e.on_persistent_congestion();
                let s = snap(&e);
                ensure_that!((s.latest, s.min, s.srtt, s.rttvar, s.mad) == (prev.latest, prev.min, prev.srtt, prev.rttvar, prev.mad), "rtt:persistent-congestion", "step {step}: on_persistent_congestion changed the estimates immediately");
                seen.awaiting_first = true;
            }
            RttOp::NewPath { initial_rtt_us } => {
                let init = (initial_rtt_us as u64).max(1) * US;
                e = e.for_new_path(Duration::from_nanos(init));
                let s = snap(&e);
                ensure_that!(s.srtt == init && s.rttvar == init / 2 && s.latest == init && s.min == init && s.mad == prev.mad, "rtt:initial", "step {step}: for_new_path({init} ns): {s:?}");
                seen = Seen { awaiting_first: true, any_sample: false, sample_min: init, adj_lo: init, adj_hi: init, var_hi: init / 2 };
            }
            RttOp::Query { backoff, space } => {
                check_queries(step, &e, backoff, space_of(space))?;
                if backoff >= 2 {
                    saw_backoff = true;
                }
                obs.class_if(backoff == 0, "query-backoff-0");
            }
            RttOp::Update { sample, ack_delay_ns, confirmed, space, dt_us } => {
                let space = space_of(space);
                now_us += dt_us as u64;
                let now = ts(now_us);
                let ack_delay = ack_delay_ns.min(20 * SEC);
                // s2n's own effective delay, used only to aim the generated sample at the boundary
                let aim_delay = if space.is_initial() { 0 } else if confirmed { ack_delay.min(prev.mad) } else { ack_delay };
                let rel = |base: u64, d: i32| -> u64 { if d >= 0 { base.saturating_add(d as u64) } else { base.saturating_sub((-(d as i64)) as u64) } };
                let sample_ns = match sample {
                    Sample::Abs(v) => v,
                    Sample::AtAdjustBoundary(d) => rel(prev.min + aim_delay, d),
                    Sample::NearMin(d) => rel(prev.min, d),
                    Sample::NearSmoothed(d) => rel(prev.srtt, d),
                }
                .min(100 * SEC);

                e.update_rtt(Duration::from_nanos(ack_delay), Duration::from_nanos(sample_ns), now, confirmed, space);
                let s = snap(&e);

                // latest_rtt: the sample, floored at 1 µs as the estimator documents (MIN_RTT)
                let latest = sample_ns.max(MIN_SAMPLE_NS);
                ensure_that!(s.latest == latest, "rtt:latest", "step {step} {op:?}: latest_rtt {} after a sample of {sample_ns} ns", s.latest);
                ensure_that!(s.mad == prev.mad, "rtt:max-ack-delay", "step {step}: update_rtt changed max_ack_delay");

                if seen.awaiting_first {
                    // RFC 9002 §5.2: min_rtt MUST be set to the latest_rtt on the first RTT sample.
                    // §5.3: smoothed_rtt = latest_rtt, rttvar = latest_rtt / 2
                    ensure_that!(s.min == latest, "rtt:first-min", "step {step} {op:?}: min_rtt {} after the first sample {latest}", s.min);
                    ensure_that!(s.srtt == latest, "rtt:first-smoothed", "step {step} {op:?}: smoothed_rtt {} after the first sample {latest}", s.srtt);
                    ensure_that!(s.rttvar == latest / 2, "rtt:first-rttvar", "step {step} {op:?}: rttvar {} after the first sample {latest}", s.rttvar);
                    ensure_that!(e.first_rtt_sample() == Some(now), "rtt:first-timestamp", "step {step}: first_rtt_sample {:?}, expected {now:?}", e.first_rtt_sample());
                    seen = Seen { awaiting_first: false, any_sample: true, sample_min: latest, adj_lo: latest, adj_hi: latest, var_hi: latest / 2 };
                    saw_first = true;
                    obs.class("first-sample");
                } else {
                    // §5.2: min_rtt MUST be set to the lesser of min_rtt and latest_rtt on all other samples
                    let min = prev.min.min(latest);
                    ensure_that!(s.min == min, "rtt:min", "step {step} {op:?}: min_rtt {} expected min({}, {latest})", s.min, prev.min);
                    seen.sample_min = seen.sample_min.min(latest);

                    // §5.3 / A.7: the admissible acknowledgement delays
                    let mut delays: Vec<u64> = vec![];
                    if confirmed {
                        // MUST use the lesser of the acknowledgement delay and max_ack_delay after confirmation
                        delays.push(ack_delay.min(prev.mad));
                    } else {
                        // SHOULD ignore max_ack_delay until the handshake is confirmed
                        delays.push(ack_delay);
                        delays.push(ack_delay.min(prev.mad));
                    }
                    if space.is_initial() {
                        // MAY ignore the acknowledgment delay for Initial packets
                        delays.push(0);
                    }
                    // the admissible outcomes: Some(adjusted_rtt) or None = sample ignored
                    let mut outcomes: Vec<(Option<u64>, &'static str)> = vec![];
                    for d in delays {
                        let bound = min as u128 + d as u128;
                        if (latest as u128) > bound {
                            outcomes.push((Some(latest - d), "adjusted-by-ack-delay"));
                        } else if (latest as u128) == bound {
                            // A.7 subtracts (`latest_rtt >= min_rtt + ack_delay`), §5.3 only forbids
                            // subtracting when the result is *smaller* than min_rtt: both are accepted.
                            outcomes.push((Some(latest - d), "adjusted-by-ack-delay"));
                            outcomes.push((Some(latest), "boundary-not-adjusted"));
                            if !confirmed {
                                // s2n's skip rule (`min_rtt + ack_delay < latest_rtt` else return) also drops the
                                // sample at equality; no MUST is involved, the estimates stay within range.
                                outcomes.push((None, "ignored-unconfirmed-at-boundary"));
                            }
                        } else {
                            // MUST NOT subtract the acknowledgement delay if the result is smaller than min_rtt
                            outcomes.push((Some(latest), "ack-delay-skipped"));
                            if !confirmed {
                                // "prior to handshake confirmation, an endpoint MAY ignore RTT samples if adjusting
                                // the RTT sample for acknowledgement delay causes the sample to be less than the min_rtt"
                                outcomes.push((None, "ignored-unconfirmed"));
                            }
                        }
                    }
                    let mut matched: Option<(Option<u64>, &'static str)> = None;
                    for (o, name) in &outcomes {
                        let ok = match o {
                            None => s.srtt == prev.srtt && s.rttvar == prev.rttvar,
                            Some(adj) => {
                                // A.7 (and erratum 7539 for §5.3): rttvar first, with the *old* smoothed_rtt
                                //   rttvar = 3/4 * rttvar + 1/4 * abs(smoothed_rtt - adjusted_rtt)
                                //   smoothed_rtt = 7/8 * smoothed_rtt + 1/8 * adjusted_rtt
                                let var_sample = prev.srtt.abs_diff(*adj);
                                wavg_ok(prev.rttvar, var_sample, 4, s.rttvar) && wavg_ok(prev.srtt, *adj, 8, s.srtt)
                            }
                        };
                        if ok {
                            matched = Some((*o, name));
                            break;
                        }
                    }
                    let Some((used, name)) = matched else {
                        fail!(
                            "rtt:update",
                            "step {step} {op:?} (sample {latest} ns, ack_delay {ack_delay} ns, confirmed {confirmed}, {space:?}): from {prev:?} to {s:?}; RFC 9002 §5.3/A.7 admits {outcomes:?} (adjusted_rtt or None = ignored), tolerance = truncation of the weighted average (< 8 ns)"
                        );
                    };
                    obs.class(name);
                    if matches!(name, "ack-delay-skipped" | "ignored-unconfirmed") {
                        saw_skip = true;
                    }
                    if name == "adjusted-by-ack-delay" && used != Some(latest) {
                        saw_adjust = true;
                    }
                    if let Some(adj) = used {
                        seen.adj_lo = seen.adj_lo.min(adj);
                        seen.adj_hi = seen.adj_hi.max(adj);
                        seen.var_hi = seen.var_hi.max(seen.adj_hi - seen.adj_lo + SRTT_DRIFT_NS);
                    }
                }
            }
        }

        // invariants of the property after every op
        let s = snap(&e);
        if seen.any_sample {
            ensure_that!(s.min == seen.sample_min || seen.awaiting_first, "rtt:min-of-samples", "step {step} {op:?}: min_rtt {} but the smallest sample so far is {}", s.min, seen.sample_min);
            ensure_that!(s.min <= s.latest || seen.awaiting_first, "rtt:min-above-latest", "step {step}: min_rtt {} > latest_rtt {}", s.min, s.latest);
        }
        ensure_that!(
            s.srtt + SRTT_DRIFT_NS >= seen.adj_lo && s.srtt <= seen.adj_hi,
            "rtt:smoothed-out-of-range",
            "step {step} {op:?}: smoothed_rtt {} outside the range [{}, {}] of the (adjusted) samples seen",
            s.srtt, seen.adj_lo, seen.adj_hi
        );
        ensure_that!(s.rttvar <= seen.var_hi, "rtt:rttvar-out-of-range", "step {step} {op:?}: rttvar {} exceeds max(first sample / 2, spread of the samples + drift) = {}", s.rttvar, seen.var_hi);
        check_thresholds(step, &e)?;
        check_queries(step, &e, 1, PacketNumberSpace::ApplicationData)?;
    }
    obs.units = c.ops.len() as u64;
    obs.nontrivial(saw_first && saw_skip && saw_backoff);
    obs.class_if(saw_adjust, "seq-with-adjustment");
    obs.class_if(saw_skip, "seq-with-skip");
    obs.class_if(saw_backoff, "seq-with-backoff>=2");
    Ok(())
}

fn sample_abs() -> impl Strategy<Value = u64> {
    prop_oneof![
        // around the 1 ms granularity and its 8/9 (where 9/8·rtt crosses 1 ms)
        3 => (0u64..=40).prop_map(|k| MS + k * 50 - 1000),
        2 => (0u64..=40).prop_map(|k| MS * 8 / 9 + k * 10 - 200),
        // the documented 1 µs floor and below
        2 => 0u64..3 * US,
        3 => US..50 * MS,
        3 => (1u64..500).prop_map(|ms| ms * MS),
        2 => US..10 * SEC,
        1 => (0u64..8).prop_map(|k| 10 * SEC - k),
    ]
}

fn ack_delay_strategy() -> impl Strategy<Value = u64> {
    prop_oneof![
        3 => Just(0u64),
        3 => (0u64..60).prop_map(|ms| ms * MS),
        2 => (0u64..30_000).prop_map(|us| us * US),
        1 => 0u64..SEC,
        1 => (0u64..4).prop_map(|k| SEC - k * US),
    ]
}

fn backoff_strategy() -> impl Strategy<Value = u32> {
    prop_oneof![
        4 => (0u32..12).prop_map(|k| 1 << k),
        2 => (0u32..31).prop_map(|k| 1 << k),
        2 => 1u32..100,
        1 => Just(0u32),
        1 => any::<u32>(),
    ]
}

fn rtt_op_strategy() -> impl Strategy<Value = RttOp> {
    let sample = prop_oneof![
        6 => sample_abs().prop_map(Sample::Abs),
        4 => prop_oneof![Just(0i32), Just(1), Just(-1), -20i32..20, -2_000_000i32..2_000_000].prop_map(Sample::AtAdjustBoundary),
        2 => prop_oneof![Just(0i32), -10i32..10, -100_000i32..100_000].prop_map(Sample::NearMin),
        2 => prop_oneof![Just(0i32), -10i32..10, -3_000_000i32..3_000_000].prop_map(Sample::NearSmoothed),
    ];
    prop_oneof![
        14 => (sample, ack_delay_strategy(), prop::bool::weighted(0.6), 0u8..3, prop_oneof![Just(0u32), 0u32..100_000]).prop_map(|(sample, ack_delay_ns, confirmed, space, dt_us)| RttOp::Update { sample, ack_delay_ns, confirmed, space, dt_us }),
        2 => prop_oneof![Just(0u16), Just(25), 0u16..100, 0u16..16384].prop_map(|ms| RttOp::MaxAckDelay { ms }),
        1 => Just(RttOp::PersistentCongestion),
        1 => prop_oneof![Just(333_000u32), 1u32..2_000_000].prop_map(|initial_rtt_us| RttOp::NewPath { initial_rtt_us }),
        4 => (backoff_strategy(), 0u8..3).prop_map(|(backoff, space)| RttOp::Query { backoff, space }),
    ]
}

fn rtt_strategy(_t: Tier) -> impl Strategy<Value = RttCase> {
    (prop_oneof![Just(333_000u32), 1u32..2_000_000, Just(1u32)], prop::collection::vec(rtt_op_strategy(), 1..50)).prop_map(|(initial_rtt_us, ops)| RttCase { initial_rtt_us, ops })
}

// ---------------------------------------------------------------------------------------
// sub-check 2: loss::detect

#[derive(Clone, Debug, Hash, PartialEq, Eq, Serialize, Deserialize)]
pub struct LossCase {
    pub space: u8,
    pub pn: u64,
    /// largest_acked = pn + dist, dist >= 1 (`detect` documents that it must only be called for
    /// packets sent before the largest acknowledged one)
    pub dist: u64,
    pub time_sent_us: u64,
    pub threshold_ns: u64,
    /// now = time_sent + threshold (rounded down to µs) + now_rel_us, floored at time_sent
    pub now_rel_us: i64,
    /// None = s2n's own `K_PACKET_THRESHOLD` is passed (as the recovery manager does) and the
    /// oracle uses the RFC's 3; Some(k) = k is passed and used
    pub pkt_threshold: Option<u64>,
}

fn loss_oracle(c: &LossCase, obs: &mut Obs) -> CaseResult {
    let space = space_of(c.space);
    let dist = c.dist.max(1);
    let pn = c.pn.min(MAX_PN - dist.min(MAX_PN));
    let la = pn.saturating_add(dist).min(MAX_PN);
    let dist = la - pn;
    if dist == 0 {
        return Ok(());
    }
    let time_sent_us = c.time_sent_us.max(1);
    let thr = c.threshold_ns;
    let deadline_ns: u128 = time_sent_us as u128 * 1000 + thr as u128; // time_sent + loss_delay
    let deadline_us = (deadline_ns / 1000) as u64;
    let now_us = if c.now_rel_us >= 0 { deadline_us.saturating_add(c.now_rel_us as u64) } else { deadline_us.saturating_sub(c.now_rel_us.unsigned_abs()) }.max(time_sent_us);
    let now_ns: u128 = now_us as u128 * 1000;
    let (k_passed, k_oracle) = match c.pkt_threshold {
        None => (loss::K_PACKET_THRESHOLD, K_PACKET_THRESHOLD),
        Some(k) => (k, k),
    };

    // RFC 9002 A.10 DetectAndRemoveLostPackets:
    //   lost_send_time = now() - loss_delay
    //   if (unacked.time_sent <= lost_send_time || largest_acked >= unacked.packet_number + kPacketThreshold): lost
    //   else: loss_time = min(loss_time, unacked.time_sent + loss_delay)
    let by_time = deadline_ns <= now_ns;
    let by_pn = la as u128 >= pn as u128 + k_oracle as u128;
    let lost_rfc = by_time || by_pn;

    let mk = |v: u64| -> PacketNumber { space.new_packet_number(VarInt::new(v).unwrap()) };
    let got = loss::detect(Duration::from_nanos(thr), ts(time_sent_us), k_passed, mk(pn), mk(la), ts(now_us));

    let pn_edge = (dist as i128 - k_oracle as i128).abs() <= 1;
    let time_edge = (now_ns as i128 - deadline_ns as i128).abs() <= 1000;
    obs.nontrivial(pn_edge || time_edge);
    obs.class_if(pn_edge, "pn-threshold±1");
    obs.class_if(time_edge, "time-threshold±1us");
    obs.class_if(by_time && !by_pn, "rfc-lost-by-time");
    obs.class_if(by_pn && !by_time, "rfc-lost-by-pn");
    obs.class_if(!lost_rfc, "rfc-not-lost");
    obs.class_if(c.pkt_threshold.is_none(), "s2n-K_PACKET_THRESHOLD");

    match got {
        loss::Outcome::Lost => {
            if !lost_rfc {
                let early_ns = deadline_ns - now_ns;
                if early_ns < K_GRANULARITY_NS as u128 {
                    // `Timestamp::has_elapsed` treats a deadline less than kGranularity in the future as
                    // elapsed; for loss detection this declares packets lost up to 1 ms before the time
                    // threshold (so the effective threshold can be ~0, below kGranularity)
                    fail!(
                        "c09:lost-before-time-threshold-within-granularity",
                        "pn {pn}, largest_acked {la} (distance {dist} < {k_oracle}), sent at {time_sent_us} us, time threshold {thr} ns, now {now_us} us: declared Lost {early_ns} ns before the time threshold is reached (sent only {} ns ago); RFC 9002 §6.1/A.10: lost iff time_sent <= now - loss_delay or largest_acked >= pn + kPacketThreshold",
                        now_ns - time_sent_us as u128 * 1000
                    );
                }
                fail!(
                    "loss-detect:lost-too-early",
                    "pn {pn}, largest_acked {la} (distance {dist}, packet threshold {k_oracle}), sent at {time_sent_us} us, time threshold {thr} ns, now {now_us} us: declared Lost {early_ns} ns before the time threshold and below the packet threshold"
                );
            }
        }
        loss::Outcome::NotLostYet { lost_time } => {
            ensure_that!(
                !lost_rfc,
                "loss-detect:not-declared-lost",
                "pn {pn}, largest_acked {la} (distance {dist}, packet threshold {k_oracle}), sent at {time_sent_us} us, time threshold {thr} ns, now {now_us} us: NotLostYet although RFC 9002 A.10 declares it lost (by_time {by_time}, by_pn {by_pn})"
            );
            // loss_time = time_sent + loss_delay, at the 1 µs resolution of `Timestamp`
            let lt = ts_micros(lost_time) as u128 * 1000;
            ensure_that!(lt <= deadline_ns && deadline_ns - lt < 1000, "loss-detect:loss-time", "pn {pn} sent at {time_sent_us} us, threshold {thr} ns: loss time {} us, expected time_sent + threshold = {deadline_ns} ns", ts_micros(lost_time));
        }
    }
    Ok(())
}

fn loss_strategy(_t: Tier) -> impl Strategy<Value = LossCase> {
    let dist = prop_oneof![
        5 => 1u64..=2,
        4 => 3u64..=4,
        1 => 1u64..40,
        1 => 1u64..=MAX_PN,
    ];
    let thr = prop_oneof![
        3 => Just(MS),
        // 9/8 of round RTTs
        3 => (1u64..400).prop_map(|ms| 9 * ms * MS / 8),
        2 => MS..3 * SEC,
        1 => (0u64..2000).prop_map(|k| MS + k),
        1 => 0u64..MS,
    ];
    let now_rel = prop_oneof![
        5 => -3i64..=3,
        // around one granularity before the threshold
        3 => -1003i64..=-997,
        2 => -5_000i64..5_000,
        2 => -2_000_000i64..2_000_000,
        1 => Just(i64::MIN / 2),
    ];
    (
        0u8..3,
        prop_oneof![3 => 0u64..1000, 1 => 0u64..=MAX_PN, 1 => (0u64..10).prop_map(|k| MAX_PN - k)],
        dist,
        prop_oneof![2 => 1u64..5_000_000, 1 => 1u64..(1 << 50)],
        thr,
        now_rel,
        prop_oneof![8 => Just(None), 2 => (1u64..10).prop_map(Some)],
    )
        .prop_map(|(space, pn, dist, time_sent_us, threshold_ns, now_rel_us, pkt_threshold)| LossCase { space, pn, dist, time_sent_us, threshold_ns, now_rel_us, pkt_threshold })
}

// ---------------------------------------------------------------------------------------
// sub-check 3: Pto (timer + probe count) driven the way the recovery manager drives it

#[derive(Clone, Copy, Debug, Hash, PartialEq, Eq, Serialize, Deserialize)]
pub enum PtoOp {
    /// a new RTT sample arrives (changes the base period)
    Rtt { sample_us: u32, ack_delay_us: u32 },
    /// ack-eliciting packet sent / acknowledged: PTO backoff is reset when `acked`, timer re-armed from now
    Arm { acked: bool },
    /// time passes; `to_deadline` jumps relative to the armed deadline instead
    Advance { us: u32 },
    AdvanceToDeadline { rel_us: i32 },
    /// the connection's timers fire: `on_timeout(packets_in_flight, now)`
    Timeout { in_flight: bool },
    /// one probe packet is written
    TransmitOnce,
    Cancel,
    ForceTransmit,
}

#[derive(Clone, Debug, Hash, PartialEq, Eq, Serialize, Deserialize)]
pub struct PtoCase {
    pub space: u8,
    pub max_ack_delay_ms: u16,
    pub ops: Vec<PtoOp>,
}

fn pto_oracle(c: &PtoCase, obs: &mut Obs) -> CaseResult {
    let space = space_of(c.space);
    let mut rtt = RttEstimator::default();
    rtt.on_max_ack_delay(MaxAckDelay::try_from(Duration::from_millis((c.max_ack_delay_ms as u64).min(16383))).expect("harness: valid max_ack_delay"));
    let mut pto = Pto::default();
    let mut now_us: u64 = 1_000_000;
    // model
    let mut deadline_us: Option<u64> = None;
    let mut pending: u8 = 0;
    // consecutive expiries since the last acknowledgement (RFC 9002 pto_count); the multiplier is kept
    // by the caller of `Pto` (path.pto_backoff in s2n-quic-transport), mirrored here
    let mut pto_count: u32 = 0;
    let mut base_at_first_expiry: Option<u64> = None;
    let mut max_consecutive = 0u32;
    let mut expiries = 0u32;

    ensure_that!(pto.transmissions() == 0 && !pto.is_armed(), "pto:initial", "a new Pto is armed or wants to transmit");

    for (step, op) in c.ops.iter().enumerate() {
        match *op {
            PtoOp::Rtt { sample_us, ack_delay_us } => {
                rtt.update_rtt(Duration::from_micros(ack_delay_us as u64), Duration::from_micros(sample_us as u64), ts(now_us), true, space);
                base_at_first_expiry = None;
            }
            PtoOp::Arm { acked } => {
                if acked {
                    // RFC 9002 §6.2.1: "The PTO backoff factor is reset when an acknowledgment is received"
                    pto_count = 0;
                    base_at_first_expiry = None;
                }
                let backoff = 1u32 << pto_count;
                let period = rtt.pto_period(backoff, space);
                pto.update(ts(now_us), period);
                let p = ns(period);
                ensure_that!(p >= K_GRANULARITY_NS, "pto:period-below-granularity", "step {step}: PTO period {p} ns < kGranularity");
                ensure_that!(p % 1000 == 0, "pto:period-resolution", "step {step}: PTO period {p} ns is not a whole number of microseconds");
                if let Some(base) = base_at_first_expiry {
                    // same estimates as when the first of the consecutive expiries was armed:
                    // the armed period doubles with each consecutive expiry
                    ensure_that!(p as u128 == (base as u128) << pto_count, "pto:period-not-doubled", "step {step}: after {pto_count} consecutive expiries the armed period is {p} ns, base {base} ns");
                }
                deadline_us = Some(now_us + p / 1000);
                ensure_that!(
                    pto.next_expiration().map(ts_micros) == deadline_us,
                    "pto:armed-deadline",
                    "step {step}: armed at {now_us} us with period {p} ns: deadline {:?}, expected {deadline_us:?}",
                    pto.next_expiration()
                );
            }
            PtoOp::Advance { us } => now_us += us as u64,
            PtoOp::AdvanceToDeadline { rel_us } => {
                if let Some(d) = deadline_us {
                    let t = if rel_us >= 0 { d + rel_us as u64 } else { d.saturating_sub((-(rel_us as i64)) as u64) };
                    now_us = now_us.max(t);
                }
            }
            PtoOp::Timeout { in_flight } => {
                let before = pto.transmissions();
                let got = pto.on_timeout(in_flight, ts(now_us));
                match deadline_us {
                    None => {
                        ensure_that!(got == Poll::Pending, "pto:expired-unarmed", "step {step}: on_timeout reported an expiry although the timer is not armed");
                    }
                    Some(d) => {
                        if now_us >= d {
                            ensure_that!(got == Poll::Ready(()), "pto:expiry-missed", "step {step}: deadline {d} us, now {now_us} us: on_timeout returned Pending");
                        } else if d - now_us >= K_GRANULARITY_NS / 1000 {
                            ensure_that!(got == Poll::Pending, "pto:expired-early", "step {step}: deadline {d} us, now {now_us} us: expiry reported {} us early (more than kGranularity)", d - now_us);
                        } else {
                            // less than kGranularity before the deadline: `Timestamp::has_elapsed` documents
                            // that this already counts as elapsed ("any finer resolution would result in
                            // excessive timer churn"); either answer is accepted
                            obs.class("timeout-within-granularity");
                        }
                    }
                }
                if got.is_ready() {
                    expiries += 1;
                    // RFC 9002 §6.2.4: MUST send at least one ack-eliciting packet, MAY send up to two
                    let n = pto.transmissions();
                    ensure_that!((1..=2).contains(&n), "pto:probe-count", "step {step}: {n} probe transmissions requested on PTO expiry");
                    // s2n's documented choice: two when packets are in flight, otherwise one
                    ensure_that!(n == if in_flight { 2 } else { 1 }, "pto:probe-count-choice", "step {step}: {n} probes requested with packets_in_flight = {in_flight}");
                    ensure_that!(!pto.is_armed(), "pto:armed-after-expiry", "step {step}: timer still armed after it expired");
                    pending = n;
                    deadline_us = None;
                    obs.class(if n == 2 { "expiry-2-probes" } else { "expiry-1-probe" });
                    // the caller doubles the backoff and re-arms (recovery::Manager::on_timeout)
                    if base_at_first_expiry.is_none() {
                        base_at_first_expiry = Some(ns(rtt.pto_period(1, space)));
                    }
                    if pto_count < 20 {
                        pto_count += 1;
                    }
                    max_consecutive = max_consecutive.max(pto_count);
                } else {
                    ensure_that!(pto.transmissions() == before, "pto:pending-changed-state", "step {step}: on_timeout returned Pending but transmissions went from {before} to {}", pto.transmissions());
                    ensure_that!(pto.is_armed() == deadline_us.is_some(), "pto:pending-changed-state", "step {step}: on_timeout returned Pending and changed the timer");
                }
            }
            PtoOp::TransmitOnce => {
                if pending > 0 {
                    pto.on_transmit_once();
                    pending -= 1;
                }
            }
            PtoOp::Cancel => {
                pto.cancel();
                deadline_us = None;
            }
            PtoOp::ForceTransmit => {
                pto.force_transmit();
                if pending == 0 {
                    pending = 1;
                }
            }
        }
        ensure_that!(pto.transmissions() == pending, "pto:transmissions", "step {step} {op:?}: {} transmissions pending, model {pending}", pto.transmissions());
        ensure_that!(pto.is_armed() == deadline_us.is_some(), "pto:armed", "step {step} {op:?}: armed {}, model {deadline_us:?}", pto.is_armed());
        ensure_that!(pto.next_expiration().map(ts_micros) == deadline_us, "pto:armed-deadline", "step {step} {op:?}: deadline {:?}, model {deadline_us:?}", pto.next_expiration());
    }
    obs.units = c.ops.len() as u64;
    obs.nontrivial(max_consecutive >= 2);
    obs.class_if(expiries > 0, "seq-with-expiry");
    obs.class_if(max_consecutive >= 2, ">=2-consecutive-expiries");
    obs.class_if(max_consecutive >= 4, ">=4-consecutive-expiries");
    Ok(())
}

fn pto_strategy(_t: Tier) -> impl Strategy<Value = PtoCase> {
    let op = prop_oneof![
        2 => (prop_oneof![1u32..3000, 1u32..500_000, 1u32..10_000_000], prop_oneof![Just(0u32), 0u32..30_000]).prop_map(|(sample_us, ack_delay_us)| PtoOp::Rtt { sample_us, ack_delay_us }),
        5 => prop::bool::weighted(0.25).prop_map(|acked| PtoOp::Arm { acked }),
        2 => prop_oneof![0u32..2000, 0u32..3_000_000].prop_map(|us| PtoOp::Advance { us }),
        6 => prop_oneof![3 => -2i32..=2, 2 => -1002i32..=-998, 2 => -3000i32..3000, 1 => 0i32..5_000_000].prop_map(|rel_us| PtoOp::AdvanceToDeadline { rel_us }),
        7 => any::<bool>().prop_map(|in_flight| PtoOp::Timeout { in_flight }),
        3 => Just(PtoOp::TransmitOnce),
        1 => Just(PtoOp::Cancel),
        1 => Just(PtoOp::ForceTransmit),
    ];
    (0u8..3, prop_oneof![Just(0u16), Just(25), 0u16..16384], prop::collection::vec(op, 1..60)).prop_map(|(space, max_ack_delay_ms, ops)| PtoCase { space, max_ack_delay_ms, ops })
}

// ---------------------------------------------------------------------------------------

pub fn subs() -> Vec<Box<dyn SubCheck>> {
    vec![
        Box::new(PropCheck::<RttCase, _> {
            name: "rtt_estimator_ops",
            cases: |t| t.pick(200_000, 5_000_000),
            strategy: rtt_strategy,
            oracle: rtt_oracle,
            max_shrink_iters: 20_000,
        }),
        Box::new(PropCheck::<LossCase, _> {
            name: "loss_detect",
            cases: |t| t.pick(3_000_000, 75_000_000),
            strategy: loss_strategy,
            oracle: loss_oracle,
            max_shrink_iters: 4_000,
        }),
        Box::new(PropCheck::<PtoCase, _> {
            name: "pto_ops",
            cases: |t| t.pick(200_000, 5_000_000),
            strategy: pto_strategy,
            oracle: pto_oracle,
            max_shrink_iters: 20_000,
        }),
    ]
}

pub fn property() -> Property {
    Property {
        id: "C09",
        rule: "component level. rtt_estimator_ops: op sequences (1..50) of update_rtt (samples 0 ns .. 10 s absolute, or relative to min_rtt + ack_delay / \
               min_rtt / smoothed_rtt ± few ns; ack delays 0 .. 1 s; handshake confirmed or not; all spaces), on_max_ack_delay, on_persistent_congestion, \
               for_new_path and pto_period queries (backoff 0, powers of two, arbitrary) on RttEstimator; after every update the new state must be one of the \
               outcomes RFC 9002 §5.2/§5.3/A.7 admits, computed in integer ns from the estimator's own previous state; after every op: min_rtt = min(samples), \
               latest_rtt = last sample (>= 1 us), smoothed_rtt within the range of the adjusted samples, rttvar within the spread, pto_period = RFC §6.2.1 \
               formula x backoff (>= 1 ms, doubling exactly), loss_time_threshold = max(9/8 max(srtt, latest), 1 ms). Non-trivial: the sequence contains a \
               first sample, a sample below min_rtt + ack_delay (adjustment skipped) and a query with backoff >= 2. loss_detect: (pn, largest_acked = pn + 1.., \
               time sent, time threshold, now at threshold ± 0..3 us / ± 1 ms / far, packet threshold = s2n's constant or 1..9) -> Lost / NotLostYet(loss time) \
               must equal RFC 9002 §6.1 / A.10; non-trivial: distance within 1 of the packet threshold or now within 1 us of the time threshold. pto_ops: \
               sequences of arm / advance (relative to the deadline) / on_timeout / transmit / cancel / force_transmit on Pto with periods from pto_period: \
               deadline = now + period, expiry exactly as armed (up to the documented granularity), 1 or 2 probes per expiry, period = 2^k x base after k \
               consecutive expiries; non-trivial: >= 2 consecutive expiries. Distinct = distinct generated cases.",
        assumptions: &[
            "RFC 9002 §5, §6.1, §6.2 and Appendix A.7/A.10 as transcribed in c09_recovery.rs (u128 ns) are the trusted base; kGranularity = 1 ms, kPacketThreshold = 3, kTimeThreshold = 9/8",
            "weighted_average divides before multiplying (documented in the code): a result is accepted when it is <= the exact value and < weight (4 resp. 8) ns below it; \
             the resulting accumulated drift of smoothed_rtt below the smallest adjusted sample is bounded by 56 ns (s' >= (7s + A − 56)/8), which the range check allows",
            "pto_period is computed in whole microseconds (documented in the code): accepted when <= the RFC value and < 5 us below it (before the backoff multiplication)",
            "RFC 9002 §5.3 latitude accepted: Initial-space ack delay may be ignored (MAY); max_ack_delay may or may not be applied before confirmation (SHOULD); at \
             latest_rtt == min_rtt + ack_delay both subtracting (A.7) and not subtracting are accepted; before confirmation a sample whose adjustment is skipped may be \
             ignored (MAY) - s2n also ignores the sample at equality, including every new minimum with ack_delay 0, which is accepted and counted as class ignored-unconfirmed-at-boundary",
            "rttvar is updated before smoothed_rtt with the old smoothed_rtt (A.7, erratum 7539)",
            "on_persistent_congestion: the next sample re-initialises min_rtt, smoothed_rtt and rttvar (RFC 9002 §5.2 SHOULD / permitted reset)",
            "loss::detect is only called with pn < largest_acked (its documented precondition, enforced by a debug assertion); that packets at or above largest_acked are never \
             declared lost is the caller's (recovery::Manager) obligation and is checked by the end-to-end monitor",
            "Timestamp has 1 us resolution: loss time may be rounded down by < 1 us",
            "Pto::on_timeout within less than kGranularity before the deadline may report either Pending or Ready (Timestamp::has_elapsed documents the 1 ms slack)",
            "the PTO backoff multiplier itself lives in s2n-quic-transport (path.pto_backoff, recovery::Manager::on_timeout) and is not reachable from this crate: pto_ops mirrors \
             the caller (backoff = 2^pto_count, reset on acknowledgement) and checks Pto + pto_period under it; the doubling of path.pto_backoff is checked end to end via pto_count",
        ],
        subs: subs(),
        shards: 0,
    }
}
