//! C10 (component level): `CubicCongestionController` and `BbrCongestionController` driven
//! through the `CongestionController` trait by generated op sequences that follow the calling
//! discipline of `s2n-quic-transport` (`recovery::Manager`, `path::Path`, `connection_impl`),
//! compared after **every** trait call with a ledger of outstanding packets and the RFC 9002
//! window rules.
//!
//! Calling discipline reproduced here (each item is what the only real caller does; violating
//! one of them would produce false alarms, e.g. `debug_assert` panics):
//!
//! * time is monotone; every packet of a transmission burst carries the burst's timestamp;
//!   a packet is only written once `earliest_departure_time()` has elapsed
//!   (`Path::can_transmit`) — the pacing timer fires at that time, which the interpreter
//!   models by moving the clock forward (bounded, otherwise the burst ends);
//! * a congestion-controlled packet (`bytes > 0`, at most `max_datagram_size`) is written only
//!   when `!is_congestion_limited() || requires_fast_retransmission()`
//!   (`Path::transmission_constraint`); packets that are not congestion controlled (pure
//!   ACKs) are passed with `sent_bytes = 0` at any time; PMTU probes (larger than the current
//!   `max_datagram_size`) only when not limited; PTO probes (second family only) ignore the
//!   window, at most two per expiry;
//! * `app_limited = Some(true)` is only ever reported when the window still has room for a
//!   full datagram after the packet (`application::is_app_limited`); `None` = Initial/Handshake;
//! * ACK frame: the newly acknowledged packets leave the ledger, then — in this order —
//!   `RttEstimator::update_rtt` + `on_rtt_update` (only if the frame newly acknowledges an
//!   ack-eliciting packet), loss detection (`on_packet_lost` per packet in ascending packet
//!   number order, same `persistent_congestion` flag for the batch, first packet of a batch
//!   is a new loss burst, followed by `RttEstimator::on_persistent_congestion`), ECN
//!   (`on_explicit_congestion`, incremental CE count ≥ 1 and never more CE marks than packets
//!   sent), and finally ONE `on_ack` with the sum of the acknowledged bytes (only if > 0) and
//!   time-sent / `PacketInfo` of the largest newly acknowledged packet (which may be a
//!   zero-byte packet) exactly as returned by its `on_packet_sent`;
//! * only packets older than the largest acknowledged packet are ever declared lost
//!   (`detect_lost_packets` stops at `largest_acked_packet`), with the `PacketInfo` returned
//!   at send time; zero-byte packets are never reported lost;
//! * `on_packet_discarded` gets the byte sum of the packets dropped with a packet number space
//!   (possibly 0) or the size of one lost PMTU probe;
//! * `on_mtu_update` with any value in 1200..=9000.

use proptest::prelude::*;
use s2n_quic_core::{
    event,
    packet::number::PacketNumberSpace,
    path,
    random,
    recovery::{
        bbr::BbrCongestionController, congestion_controller::PathPublisher, CongestionController,
        CubicCongestionController, RttEstimator,
    },
    time::{Clock as _, NoopClock, Timestamp},
};
use serde::{Deserialize, Serialize};
use std::time::Duration;
use vcore::{ensure_that, gen::pick_index, CaseResult, Fail, Obs, PropCheck, Property, SubCheck, Tier};

// ---------------------------------------------------------------------------------------
// case description (plain data, replayable)

#[derive(Clone, Copy, Debug, Hash, PartialEq, Eq, Serialize, Deserialize)]
pub enum Size {
    /// not congestion controlled (pure ACK): `sent_bytes = 0`
    Zero,
    /// exactly `max_datagram_size`
    Full,
    /// `max_datagram_size - k`
    Minus(u16),
    /// `min(v, max_datagram_size)`, at least 1
    Abs(u16),
    /// a PMTU probe: larger than the current `max_datagram_size` (at most 9000), one packet
    MtuProbe(u16),
}

/// `len` consecutive entries of a state-dependent list starting at `pick_index(at, list.len())`
#[derive(Clone, Copy, Debug, Hash, PartialEq, Eq, Serialize, Deserialize)]
pub struct Run {
    pub at: u16,
    pub len: u8,
}

#[derive(Clone, Copy, Debug, Hash, PartialEq, Eq, Serialize, Deserialize)]
pub enum RttSrc {
    /// the frame does not newly acknowledge its largest acknowledged packet: no RTT sample
    NoSample,
    /// `now - time_sent(largest newly acked)`, as `recovery::Manager` computes it
    Clock,
    /// generated sample in microseconds (1 µs … 10 s), as the in-tree fuzz target does
    Us(u32),
}

#[derive(Clone, Debug, Hash, PartialEq, Eq, Serialize, Deserialize)]
pub struct Loss {
    pub runs: Vec<Run>,
    pub persistent: bool,
    /// bit i set: the i-th lost packet starts a new loss burst even if adjacent
    pub burst_mask: u16,
}

#[derive(Clone, Debug, Hash, PartialEq, Eq, Serialize, Deserialize)]
pub enum Op {
    Advance { us: u32 },
    Send { count: u8, size: Size, app_limited: Option<bool>, pto_probe: bool },
    Ack { runs: Vec<Run>, rtt: RttSrc, ack_delay_us: u32, handshake_confirmed: bool, loss: Option<Loss>, ce: u8 },
    /// loss timer expiry
    Lose(Loss),
    Ecn { ce: u8 },
    Mtu { mds: u16 },
    Discard { runs: Vec<Run> },
}

#[derive(Clone, Debug, Hash, PartialEq, Eq, Serialize, Deserialize)]
pub struct Case {
    pub mds: u16,
    pub seed: u8,
    pub ops: Vec<Op>,
}

// ---------------------------------------------------------------------------------------
// interpreter + oracle

#[derive(Clone, Copy, Debug, PartialEq, Eq)]
enum Kind {
    Cubic,
    Bbr,
}

impl Kind {
    fn name(self) -> &'static str {
        match self {
            Kind::Cubic => "cubic",
            Kind::Bbr => "bbr",
        }
    }
    /// minimum window in datagrams: RFC 9002 §7.2 kMinimumWindow = 2 (CUBIC), BBRv2 draft §2.8
    /// BBRMinPipeCwnd = 4
    fn min_packets(self) -> u32 {
        match self {
            Kind::Cubic => 2,
            Kind::Bbr => 4,
        }
    }
    /// RFC 9002 §7.2 initial window for a datagram size (never below the controller's minimum)
    fn initial_window(self, mds: u16) -> u32 {
        let mds = mds as u32;
        (10 * mds).min(14720u32.max(2 * mds)).max(self.min_packets() * mds)
    }
}

struct Pkt<I> {
    seq: u64,
    bytes: u32,
    time_sent: Timestamp,
    info: I,
    app_limited: Option<bool>,
}

/// upper bound for one pacing-timer sleep inside a transmission burst
const MAX_PACING_WAIT: Duration = Duration::from_secs(10);

struct Sim<CC: CongestionController> {
    kind: Kind,
    cc: CC,
    mds: u16,
    now: Timestamp,
    rtt: RttEstimator,
    rng: random::testing::Generator,
    /// the ledger: packets sent and neither acknowledged, lost nor discarded (send order)
    out: Vec<Pkt<CC::PacketInfo>>,
    next_seq: u64,
    max_acked_seq: Option<u64>,
    /// bytes of packets already taken off the ledger whose `on_ack` / `on_packet_lost` call is
    /// still to come within the current op
    pending: u32,
    packets_sent: u64,
    ce_total: u64,
    prev_fast_retx: bool,
    // --- CUBIC window model
    /// last congestion-controlled packet was sent while the model is certain the window was
    /// under-utilised and the application had nothing more to send
    under_utilized: bool,
    /// `next_seq` at the time of the last loss/ECN window reduction (None: none yet, or the
    /// recovery epoch was reset by persistent congestion, RFC 9002 B.8)
    last_reduction_seq: Option<u64>,
    /// an `on_ack` whose newest packet was sent after the last reduction has happened
    round_trip_elapsed: bool,
    // --- measurements
    reductions: u32,
    congestion_events: u32,
    grew_after_event: bool,
    app_limited_acks: u32,
    units: u64,
}

type P<'a> = PathPublisher<'a, event::testing::Publisher>;

impl<CC: CongestionController> Sim<CC> {
    fn key(&self, what: &str) -> String {
        format!("{}:{}", self.kind.name(), what)
    }

    fn ledger_sum(&self) -> u64 {
        self.out.iter().map(|p| p.bytes as u64).sum::<u64>() + self.pending as u64
    }

    /// invariants that hold after every single trait call
    fn check(&mut self, step: usize, call: &str, may_request_fast_retx: bool) -> CaseResult {
        self.units += 1;
        let cwnd = self.cc.congestion_window();
        let bif = self.cc.bytes_in_flight();
        let mds = self.mds as u32;
        let floor = self.kind.min_packets() * mds;
        ensure_that!(
            cwnd >= floor,
            self.key("window-below-minimum"),
            "step {step} after {call}: congestion_window {cwnd} < {} * max_datagram_size {mds}",
            self.kind.min_packets()
        );
        // the window is kept as f32 (CUBIC) / grown with saturating adds (BBR): a saturated
        // value is an overflow; no sequence within the bounds can legitimately get near it
        // (at most 400*50*9000 bytes are ever sent, an MTU change scales by at most 7.5)
        ensure_that!(cwnd < u32::MAX, self.key("window-overflow"), "step {step} after {call}: congestion_window saturated at u32::MAX");
        let want = self.ledger_sum();
        ensure_that!(
            bif as u64 == want,
            self.key("bytes-in-flight-ledger"),
            "step {step} after {call}: bytes_in_flight() = {bif}, packets outstanding sum to {want}"
        );
        // trait doc: "true if the congestion window does not have sufficient space for a packet
        // of max_datagram_size considering the current bytes in flight"
        let limited = self.cc.is_congestion_limited();
        ensure_that!(
            limited == (cwnd.saturating_sub(bif) < mds),
            self.key("is-congestion-limited-definition"),
            "step {step} after {call}: is_congestion_limited() = {limited} with cwnd {cwnd}, in flight {bif}, mds {mds}"
        );
        // RFC 9002 §7.3.2: the single-packet allowance exists only on entering a recovery
        // period, i.e. it can only be raised by a loss / ECN signal
        let fr = self.cc.requires_fast_retransmission();
        ensure_that!(
            may_request_fast_retx || !fr || self.prev_fast_retx,
            self.key("fast-retransmission-without-congestion-event"),
            "step {step} after {call}: requires_fast_retransmission() became true without a loss or ECN signal"
        );
        self.prev_fast_retx = fr;
        Ok(())
    }

    fn resolve(&self, runs: &[Run], eligible: &[usize]) -> Vec<usize> {
        let mut sel = vec![false; eligible.len()];
        for r in runs {
            if eligible.is_empty() {
                break;
            }
            let start = pick_index(r.at, eligible.len());
            for s in sel.iter_mut().skip(start).take(r.len.max(1) as usize) {
                *s = true;
            }
        }
        eligible.iter().zip(sel).filter(|(_, s)| *s).map(|(i, _)| *i).collect()
    }

    /// removes the given (ascending) ledger indices and returns the packets in send order
    fn take(&mut self, idxs: &[usize]) -> Vec<Pkt<CC::PacketInfo>> {
        let mut taken = Vec::with_capacity(idxs.len());
        for &i in idxs.iter().rev() {
            taken.push(self.out.remove(i));
        }
        taken.reverse();
        taken
    }

    fn size(&self, size: Size) -> u32 {
        let mds = self.mds as u32;
        match size {
            Size::Zero => 0,
            Size::Full => mds,
            Size::Minus(k) => mds - (k as u32).min(mds - 1),
            Size::Abs(v) => (v as u32).clamp(1, mds),
            Size::MtuProbe(v) => (v as u32).clamp((mds + 1).min(9000), 9000),
        }
    }

    fn send(&mut self, step: usize, count: u8, size: Size, app_limited: Option<bool>, pto_probe: bool, p: &mut P, obs: &mut Obs) -> CaseResult {
        let mtu_probe = matches!(size, Size::MtuProbe(_));
        let count = if mtu_probe {
            1
        } else if pto_probe {
            count.min(2)
        } else {
            count
        };
        for _ in 0..count {
            let mut bytes = self.size(size);
            if pto_probe && bytes == 0 {
                // probes are ack-eliciting
                bytes = self.mds as u32;
            }
            // Path::can_transmit: wait for the pacer
            if let Some(edt) = self.cc.earliest_departure_time() {
                if !edt.has_elapsed(self.now) {
                    if edt - self.now > MAX_PACING_WAIT {
                        obs.class("pacing-wait-too-long");
                        break;
                    }
                    self.now = edt;
                    obs.class("pacing-wait");
                }
            }
            let limited = self.cc.is_congestion_limited();
            let fast = self.cc.requires_fast_retransmission();
            if bytes > 0 {
                if mtu_probe {
                    if limited {
                        break;
                    }
                } else if pto_probe {
                    obs.class_if(limited && !fast, "pto-probe-while-limited");
                } else if limited && !fast {
                    obs.class("congestion-limited");
                    break;
                }
                obs.class_if(limited && fast && !pto_probe, "fast-retransmission-sent");
            }
            let cwnd = self.cc.congestion_window();
            let bif = self.cc.bytes_in_flight();
            let mut al = app_limited;
            if al == Some(true) && cwnd.saturating_sub(bif.saturating_add(bytes)) < self.mds as u32 {
                al = Some(false);
            }
            let info = self.cc.on_packet_sent(self.now, bytes as usize, al, &self.rtt, p);
            self.out.push(Pkt { seq: self.next_seq, bytes, time_sent: self.now, info, app_limited: al });
            self.next_seq += 1;
            self.packets_sent += 1;
            self.check(step, "on_packet_sent", false)?;
            if bytes > 0 {
                // RFC 9002 §7.3.2: "a single packet can be sent prior to reduction"
                ensure_that!(
                    !self.cc.requires_fast_retransmission(),
                    self.key("fast-retransmission-more-than-one-packet"),
                    "step {step}: requires_fast_retransmission() still true after a congestion-controlled packet was sent"
                );
                // under-utilisation as documented in cubic.rs: flagged app-limited at send time
                // (Initial/Handshake: unknown, treated as app-limited) AND more than 3 datagrams
                // of window left AND (slow start only) less than half the window used. The
                // model keeps only the case that is under-utilised under every reading.
                let cwnd = self.cc.congestion_window();
                let bif = self.cc.bytes_in_flight();
                let avail = cwnd.saturating_sub(bif);
                self.under_utilized = al != Some(false) && avail > 3 * self.mds as u32 && bif < cwnd / 2;
            }
        }
        Ok(())
    }

    /// CUBIC rules for one loss / ECN signal
    fn congestion_signal(&mut self, step: usize, call: &str, before: u32, persistent: bool, lost_seq: Option<u64>, obs: &mut Obs) -> CaseResult {
        let after = self.cc.congestion_window();
        self.congestion_events += 1;
        if self.kind != Kind::Cubic {
            return Ok(());
        }
        // exact integer comparison: multiplicative decrease is `max(cwnd * 0.7, minimum)` in
        // f32; rounding of a product with 0.7 can never exceed the (larger) operand and the
        // minimum is <= cwnd by the floor invariant, so no tolerance is needed
        ensure_that!(
            after <= before,
            self.key("congestion-signal-increased-window"),
            "step {step} {call}: window grew from {before} to {after} on a loss/ECN signal"
        );
        if persistent {
            let min = 2 * self.mds as u32;
            ensure_that!(
                after == min,
                self.key("persistent-congestion-window"),
                "step {step} {call}: persistent congestion left the window at {after}, minimum window is {min}"
            );
            // RFC 9002 B.8: congestion_recovery_start_time = 0, slow start restarts
            self.last_reduction_seq = None;
            self.round_trip_elapsed = false;
            obs.class("persistent-congestion");
        } else if after < before {
            if let Some(seq) = self.last_reduction_seq {
                ensure_that!(
                    self.round_trip_elapsed,
                    self.key("second-reduction-within-round-trip"),
                    "step {step} {call}: window reduced again ({before} -> {after}) although no packet sent after the previous reduction (packets #{seq}..) has been acknowledged"
                );
                obs.class("reduction-after-round-trip");
                // RFC 9002 B.6 would ignore this loss (sent_time <= congestion_recovery_start_time);
                // the property only demands one reduction per round trip, which holds: measured only
                obs.class_if(lost_seq.is_some_and(|l| l < seq), "reduction-by-packet-sent-before-previous-reduction");
            }
            self.last_reduction_seq = Some(self.next_seq);
            self.round_trip_elapsed = false;
            self.reductions += 1;
        }
        Ok(())
    }

    fn lose(&mut self, step: usize, loss: &Loss, p: &mut P, obs: &mut Obs) -> CaseResult {
        let Some(max_acked) = self.max_acked_seq else { return Ok(()) };
        let eligible: Vec<usize> = (0..self.out.len()).filter(|i| self.out[*i].seq < max_acked).collect();
        let idxs = self.resolve(&loss.runs, &eligible);
        let lost = self.take(&idxs);
        self.pending += lost.iter().map(|p| p.bytes).sum::<u32>();
        let mut prev: Option<u64> = None;
        for (i, pkt) in lost.iter().enumerate() {
            let new_burst = prev.is_none_or(|s| s + 1 != pkt.seq) || (i < 16 && loss.burst_mask >> i & 1 == 1);
            prev = Some(pkt.seq);
            if pkt.bytes == 0 {
                continue;
            }
            let before = self.cc.congestion_window();
            self.cc.on_packet_lost(pkt.bytes, pkt.info, loss.persistent, new_burst, &mut self.rng, self.now, p);
            self.pending -= pkt.bytes;
            if loss.persistent {
                self.rtt.on_persistent_congestion();
            }
            self.congestion_signal(step, "on_packet_lost", before, loss.persistent, Some(pkt.seq), obs)?;
            self.check(step, "on_packet_lost", true)?;
        }
        Ok(())
    }

    fn ecn(&mut self, step: usize, ce: u8, p: &mut P, obs: &mut Obs) -> CaseResult {
        let ce = (ce as u64).min(self.packets_sent - self.ce_total);
        if ce == 0 {
            return Ok(());
        }
        self.ce_total += ce;
        let before = self.cc.congestion_window();
        self.cc.on_explicit_congestion(ce, self.now, p);
        obs.class("ecn-ce");
        self.congestion_signal(step, "on_explicit_congestion", before, false, None, obs)?;
        self.check(step, "on_explicit_congestion", true)
    }

    #[allow(clippy::too_many_arguments)]
    fn ack(&mut self, step: usize, runs: &[Run], rtt: RttSrc, ack_delay_us: u32, confirmed: bool, loss: &Option<Loss>, ce: u8, p: &mut P, obs: &mut Obs) -> CaseResult {
        let all: Vec<usize> = (0..self.out.len()).collect();
        let idxs = self.resolve(runs, &all);
        if idxs.is_empty() {
            return Ok(());
        }
        let acked = self.take(&idxs);
        let total: u32 = acked.iter().map(|p| p.bytes).sum();
        let newest = acked.last().unwrap();
        let (newest_seq, newest_sent, newest_info, newest_al) = (newest.seq, newest.time_sent, newest.info, newest.app_limited);
        self.pending += total;
        self.max_acked_seq = Some(self.max_acked_seq.map_or(newest_seq, |m| m.max(newest_seq)));
        // RTT sample: only if an ack-eliciting packet is newly acknowledged
        if total > 0 && rtt != RttSrc::NoSample {
            let sample = match rtt {
                RttSrc::Clock => self.now - newest_sent,
                RttSrc::Us(us) => Duration::from_micros(us.max(1) as u64),
                RttSrc::NoSample => unreachable!(),
            };
            let space = if confirmed { PacketNumberSpace::ApplicationData } else { PacketNumberSpace::Initial };
            self.rtt.update_rtt(Duration::from_micros(ack_delay_us as u64), sample, self.now, confirmed, space);
            self.cc.on_rtt_update(newest_sent, self.now, &self.rtt, p);
            self.check(step, "on_rtt_update", false)?;
        }
        if let Some(loss) = loss {
            self.lose(step, loss, p, obs)?;
        }
        if ce > 0 {
            self.ecn(step, ce, p, obs)?;
        }
        if total > 0 {
            let before = self.cc.congestion_window();
            self.cc.on_ack(newest_sent, total as usize, newest_info, &self.rtt, &mut self.rng, self.now, p);
            self.pending -= total;
            let after = self.cc.congestion_window();
            match self.kind {
                Kind::Cubic => {
                    if self.under_utilized {
                        self.app_limited_acks += 1;
                        // RFC 9002 §7.8 / RFC 8312 §5.8; integer results compared exactly:
                        // the documented behaviour is an early return that leaves the f32
                        // window untouched
                        ensure_that!(
                            after <= before,
                            self.key("window-grew-while-app-limited"),
                            "step {step} on_ack: window grew from {before} to {after} although the last packet was sent application-limited with the window under-utilised"
                        );
                    }
                    if self.last_reduction_seq.is_some_and(|s| newest_seq >= s) {
                        self.round_trip_elapsed = true;
                    }
                }
                Kind::Bbr => {
                    if newest_al != Some(false) {
                        self.app_limited_acks += 1;
                    }
                }
            }
            if after > before && self.congestion_events > 0 {
                self.grew_after_event = true;
            }
            self.check(step, "on_ack", false)?;
        }
        Ok(())
    }

    fn mtu(&mut self, step: usize, new: u16, p: &mut P, obs: &mut Obs) -> CaseResult {
        let old = self.mds;
        let before = self.cc.congestion_window();
        self.cc.on_mtu_update(new, p);
        self.mds = new;
        obs.class_if(new > old, "mtu-increase");
        obs.class_if(new < old, "mtu-decrease");
        self.check(step, "on_mtu_update", false)?;
        // RFC 8899 §3 (adapt the window to the packet size) + RFC 9002 §7.2 (recalculate the
        // initial window): both controllers document `max(cwnd / old * new, initial_window)`.
        // The code computes this in f32 (24-bit mantissa: one division, one multiplication and,
        // for BBR, one u32->f32 conversion, each rounding by at most 2^-24 relative), from a
        // window whose fractional part (< 1 byte, scaled by new/old <= 7.5) is not observable,
        // and truncates: tolerance 10 bytes + 3e-7 relative.
        let scaled = before as u64 * new as u64 / old as u64;
        let want = scaled.max(self.kind.initial_window(new) as u64);
        let after = self.cc.congestion_window() as u64;
        let tol = 10 + want * 3 / 10_000_000;
        ensure_that!(
            after.abs_diff(want) <= tol,
            self.key("mtu-rescale"),
            "step {step} on_mtu_update {old} -> {new}: window {before} became {after}, expected max({scaled}, initial window {}) (tolerance {tol})",
            self.kind.initial_window(new)
        );
        Ok(())
    }

    fn discard(&mut self, step: usize, runs: &[Run], p: &mut P, obs: &mut Obs) -> CaseResult {
        let all: Vec<usize> = (0..self.out.len()).collect();
        let idxs = self.resolve(runs, &all);
        let gone = self.take(&idxs);
        let total: u32 = gone.iter().map(|p| p.bytes).sum();
        self.cc.on_packet_discarded(total as usize, p);
        obs.class_if(total > 0, "discard");
        self.check(step, "on_packet_discarded", false)
    }
}

fn run<CC: CongestionController>(kind: Kind, cc: CC, case: &Case, obs: &mut Obs) -> CaseResult {
    let mut events = event::testing::Publisher::no_snapshot();
    let mut publisher = PathPublisher::new(&mut events, path::Id::test_id());
    let p = &mut publisher;
    let mut sim = Sim {
        kind,
        cc,
        mds: case.mds,
        now: NoopClock.get_time(),
        rtt: RttEstimator::default(),
        rng: random::testing::Generator(case.seed),
        out: Vec::new(),
        next_seq: 0,
        max_acked_seq: None,
        pending: 0,
        packets_sent: 0,
        ce_total: 0,
        prev_fast_retx: false,
        under_utilized: false,
        last_reduction_seq: None,
        round_trip_elapsed: false,
        reductions: 0,
        congestion_events: 0,
        grew_after_event: false,
        app_limited_acks: 0,
        units: 0,
    };
    sim.check(0, "new", false)?;
    for (step, op) in case.ops.iter().enumerate() {
        match op {
            Op::Advance { us } => sim.now += Duration::from_micros(*us as u64),
            Op::Send { count, size, app_limited, pto_probe } => sim.send(step, *count, *size, *app_limited, *pto_probe, p, obs)?,
            Op::Ack { runs, rtt, ack_delay_us, handshake_confirmed, loss, ce } => {
                sim.ack(step, runs, *rtt, *ack_delay_us, *handshake_confirmed, loss, *ce, p, obs)?
            }
            Op::Lose(loss) => sim.lose(step, loss, p, obs)?,
            Op::Ecn { ce } => sim.ecn(step, *ce, p, obs)?,
            Op::Mtu { mds } => sim.mtu(step, *mds, p, obs)?,
            Op::Discard { runs } => sim.discard(step, runs, p, obs)?,
        }
        obs.class_if(sim.cc.congestion_window() == kind.min_packets() * sim.mds as u32, "window-at-minimum");
    }
    obs.units = sim.units;
    let events_seen = match kind {
        Kind::Cubic => sim.reductions > 0,
        Kind::Bbr => sim.congestion_events > 0,
    };
    obs.class_if(events_seen, "congestion-event");
    obs.class_if(events_seen && sim.grew_after_event, "growth-after-congestion-event");
    obs.class_if(sim.app_limited_acks > 0, "app-limited-ack");
    obs.class_if(sim.reductions >= 2, "two-reductions");
    obs.nontrivial(events_seen && sim.grew_after_event && sim.app_limited_acks > 0);
    obs.sample = Some(serde_json::json!({
        "mds": case.mds, "ops": case.ops.len(), "trait_calls": sim.units,
        "congestion_events": sim.congestion_events, "window_reductions": sim.reductions,
        "app_limited_acks": sim.app_limited_acks, "final_window": sim.cc.congestion_window(),
        "first_ops": case.ops.iter().take(12).collect::<Vec<_>>(),
    }));
    Ok(())
}

fn cubic_oracle(case: &Case, obs: &mut Obs) -> CaseResult {
    if !(1200..=9000).contains(&case.mds) {
        return Err(Fail::new("harness:bad-case", "max_datagram_size outside 1200..=9000"));
    }
    run(Kind::Cubic, CubicCongestionController::new(case.mds, Default::default()), case, obs)
}

fn bbr_oracle(case: &Case, obs: &mut Obs) -> CaseResult {
    if !(1200..=9000).contains(&case.mds) {
        return Err(Fail::new("harness:bad-case", "max_datagram_size outside 1200..=9000"));
    }
    run(Kind::Bbr, BbrCongestionController::new(case.mds, Default::default()), case, obs)
}

// ---------------------------------------------------------------------------------------
// generators

fn mds_strategy() -> impl Strategy<Value = u16> {
    prop_oneof![
        3 => Just(1200u16),
        2 => Just(1500u16),
        2 => Just(9000u16),
        1 => prop_oneof![Just(1201u16), Just(1499), Just(1501), Just(8999), Just(1280), Just(1472)],
        3 => 1200u16..=9000,
    ]
}

fn size_strategy() -> impl Strategy<Value = Size> {
    prop_oneof![
        10 => Just(Size::Full),
        3 => (0u16..=120).prop_map(Size::Minus),
        3 => (1u16..=9000).prop_map(Size::Abs),
        2 => (1u16..=80).prop_map(Size::Abs),
        2 => Just(Size::Zero),
        1 => (1201u16..=9000).prop_map(Size::MtuProbe),
    ]
}

fn run_strategy() -> impl Strategy<Value = Run> {
    (
        prop_oneof![4 => Just(0u16), 1 => Just(u16::MAX), 4 => any::<u16>()],
        prop_oneof![3 => 1u8..=3, 4 => 1u8..=60, 1 => Just(255u8)],
    )
        .prop_map(|(at, len)| Run { at, len })
}

fn runs_strategy() -> impl Strategy<Value = Vec<Run>> {
    prop::collection::vec(run_strategy(), 1..=3)
}

fn loss_strategy() -> impl Strategy<Value = Loss> {
    (runs_strategy(), prop::bool::weighted(0.2), prop_oneof![2 => Just(0u16), 1 => any::<u16>()])
        .prop_map(|(runs, persistent, burst_mask)| Loss { runs, persistent, burst_mask })
}

fn app_limited_strategy() -> impl Strategy<Value = Option<bool>> {
    prop_oneof![2 => Just(None), 3 => Just(Some(true)), 4 => Just(Some(false))]
}

fn op_strategy(probes: bool) -> impl Strategy<Value = Op> {
    let advance = prop_oneof![
        1 => prop_oneof![Just(0u32), Just(1), Just(999), Just(1000), Just(1001)],
        3 => 1u32..=3000,
        4 => 1000u32..=300_000,
        1 => 0u32..=5_000_000,
    ]
    .prop_map(|us| Op::Advance { us });
    let send = (
        prop_oneof![2 => 1u8..=3, 3 => 1u8..=50, 1 => Just(50u8)],
        size_strategy(),
        app_limited_strategy(),
        prop::bool::weighted(if probes { 0.25 } else { 0.0 }),
    )
        .prop_map(|(count, size, app_limited, pto_probe)| Op::Send { count, size, app_limited, pto_probe });
    let rtt = prop_oneof![
        5 => Just(RttSrc::Clock),
        2 => (1u32..=400_000).prop_map(RttSrc::Us),
        1 => prop_oneof![Just(1u32), Just(2), Just(1999), Just(2000), Just(2001), Just(10_000_000), 1u32..=10_000_000].prop_map(RttSrc::Us),
        1 => Just(RttSrc::NoSample),
    ];
    let ack = (
        runs_strategy(),
        rtt,
        prop_oneof![3 => Just(0u32), 3 => 0u32..=25_000, 1 => 0u32..=20_000_000],
        prop::bool::weighted(0.8),
        prop::option::weighted(0.15, loss_strategy()),
        prop_oneof![12 => Just(0u8), 1 => 1u8..=255],
    )
        .prop_map(|(runs, rtt, ack_delay_us, handshake_confirmed, loss, ce)| Op::Ack { runs, rtt, ack_delay_us, handshake_confirmed, loss, ce });
    prop_oneof![
        6 => advance,
        7 => send,
        8 => ack,
        2 => loss_strategy().prop_map(Op::Lose),
        1 => (1u8..=255).prop_map(|ce| Op::Ecn { ce }),
        1 => prop_oneof![3 => mds_strategy(), 1 => 1200u16..=9000].prop_map(|mds| Op::Mtu { mds }),
        1 => runs_strategy().prop_map(|runs| Op::Discard { runs }),
    ]
}

fn case_strategy(probes: bool) -> impl Strategy<Value = Case> {
    (mds_strategy(), any::<u8>(), prop::collection::vec(op_strategy(probes), 1..=400)).prop_map(|(mds, seed, ops)| Case { mds, seed, ops })
}

fn plain_family(_t: Tier) -> BoxedStrategy<Case> {
    case_strategy(false).boxed()
}

fn probe_family(_t: Tier) -> BoxedStrategy<Case> {
    case_strategy(true).boxed()
}

pub fn subs() -> Vec<Box<dyn SubCheck>> {
    vec![
        Box::new(PropCheck::<Case, _> {
            name: "cubic_ops",
            cases: |t| t.pick(60_000, 3_000_000),
            strategy: plain_family,
            oracle: cubic_oracle,
            max_shrink_iters: 30_000,
        }),
        Box::new(PropCheck::<Case, _> {
            name: "bbr_ops",
            cases: |t| t.pick(60_000, 3_000_000),
            strategy: plain_family,
            oracle: bbr_oracle,
            max_shrink_iters: 30_000,
        }),
        Box::new(PropCheck::<Case, _> {
            name: "cubic_probe_family",
            cases: |t| t.pick(20_000, 800_000),
            strategy: probe_family,
            oracle: cubic_oracle,
            max_shrink_iters: 30_000,
        }),
        Box::new(PropCheck::<Case, _> {
            name: "bbr_probe_family",
            cases: |t| t.pick(20_000, 800_000),
            strategy: probe_family,
            oracle: bbr_oracle,
            max_shrink_iters: 30_000,
        }),
    ]
}

pub fn property() -> Property {
    Property {
        id: "C10",
        rule: "component: op sequences (1..=400 ops) over {advance time 0-5 s; send 1-50 packets of 0..=max_datagram_size bytes \
               (or one PMTU probe) with app_limited in {None, Some(true), Some(false)}; ACK frame = generated runs of outstanding \
               packets with RTT sample (clock-derived, generated 1 us-10 s, or none), optional embedded loss detection and ECN-CE \
               count, one aggregated on_ack; loss-timer losses (persistent or not, burst pattern); ECN-CE; MTU update 1200..=9000; \
               discard} for CUBIC and BBRv2, max_datagram_size 1200..=9000 biased to 1200/1500/9000, following the calling \
               discipline of recovery::Manager / Path (pacing, congestion-limited gate, fast-retransmission allowance; the \
               *_probe_family sub-checks add PTO probes sent while limited). Oracle after every trait call: window floor \
               (2 / 4 datagrams), no saturation, no panic (debug assertions + checked counters armed), bytes_in_flight == ledger \
               of outstanding packets, is_congestion_limited matches its definition, fast-retransmission allowance is one packet \
               and only raised by a congestion signal, MTU update rescales within f32 tolerance and never below the initial \
               window; CUBIC: loss/ECN never increases the window, a second reduction needs an ack of a packet sent after the \
               previous one (persistent congestion restarts the epoch), persistent congestion leaves exactly 2 datagrams, no \
               growth across an on_ack while application-limited with the window under-utilised. Non-trivial: the sequence \
               contains a congestion event (CUBIC: a visible window reduction) followed by window growth on a later ack, and an \
               application-limited ack. Distinct = distinct (max_datagram_size, seed, op sequence).",
        assumptions: &[
            "the ledger of outstanding packets kept by the harness and the RFC 9002 / RFC 8312 rules transcribed in c10_cc.rs are the trusted base",
            "callers of the CongestionController trait behave like s2n-quic-transport (preconditions listed at the top of c10_cc.rs); inputs outside that discipline are not generated",
            "BBRv2 is checked only against the bounds the property states (floor, overflow, ledger, limited-definition), not against the BBR draft",
            "application-limited is judged by the sufficient condition 'flagged (or unknown) at send time, more than 3 datagrams of window left and less than half the window in flight'; borderline utilisation is not judged",
            "environment variable S2N_UNSTABLE_USE_HYSTART_PP is unset (it switches the slow start algorithm)",
        ],
        subs: subs(),
        shards: 0,
    }
}
