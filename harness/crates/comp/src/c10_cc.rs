//! C10 (component level) — not built yet.

use vcore::{Property, SubCheck};

pub fn subs() -> Vec<Box<dyn SubCheck>> {
    vec![]
}

pub fn property() -> Property {
    Property {
        id: "C10",
        rule: "",
        assumptions: &[],
        subs: subs(),
        shards: 0,
    }
}
