//! C14 (component level): a peer's transport parameters are accepted exactly when RFC 9000
//! §7.4 / §18.2 (+ RFC 9221 §3) allow them, the decoded values are the declared ones (RFC defaults
//! for absent parameters), and the conversions that turn them into limits keep their RFC meaning.
//!
//! Inputs are produced by this module's own varint/TLV encoder (never by s2n's encoder) and judged
//! by a table transcribed from the RFCs (`TABLE`, `judge`); the code under test is
//! `ClientTransportParameters::decode` / `ServerTransportParameters::decode` (a *server* decodes
//! `ClientTransportParameters`, a client `ServerTransportParameters`, as in
//! `s2n-quic-transport/src/space/session_context.rs`) and the `flow_control_limits`,
//! `stream_limits().max_data`, `ack_settings`, `datagram_limits`, `Limits::load_peer` conversions.
//!
//! Out of reach at this level (end-to-end part of C14): connection-ID *authentication* against the
//! handshake (`validate_initial_source_connection_id` & co. live in `SessionContext`), the error
//! code on the wire, and the behaviour of a running connection under the limits.

use core::time::Duration;
use proptest::prelude::*;
use s2n_codec::{DecoderBuffer, EncoderValue};
use s2n_quic_core::{
    connection::limits::Limits,
    endpoint,
    stream::StreamId,
    transport::parameters::{
        ClientTransportParameters, MigrationSupport, MtuProbingCompleteSupport,
        ServerTransportParameters, TransportParameters,
    },
    varint::VarInt,
};
use serde::{Deserialize, Serialize};
use std::collections::BTreeMap;
use std::sync::OnceLock;
use vcore::{gen::*, CaseResult, EnumCheck, Fail, Obs, PropCheck, Property, SubCheck, Tier};

const VMAX: u64 = (1 << 62) - 1;
const KEY: u64 = 0x1414_7a9a;

// =======================================================================================
// own varint / TLV encoder + reference parser (RFC 9000 §16, §18 figures 20/21)

pub fn min_width(v: u64) -> usize {
    if v < 1 << 6 {
        1
    } else if v < 1 << 14 {
        2
    } else if v < 1 << 30 {
        4
    } else {
        8
    }
}

/// RFC 9000 §16: "The QUIC variable-length integer encoding reserves the two most significant
/// bits of the first byte to encode the base-2 logarithm of the integer encoding length in bytes.
/// The integer value is encoded on the remaining bits, in network byte order."
pub fn put_varint(out: &mut Vec<u8>, v: u64, width: usize) {
    assert!(v <= VMAX && width >= min_width(v), "harness: {v} does not fit {width} bytes");
    match width {
        1 => out.push(v as u8),
        2 => out.extend_from_slice(&((v as u16) | 0x4000).to_be_bytes()),
        4 => out.extend_from_slice(&((v as u32) | 0x8000_0000).to_be_bytes()),
        8 => out.extend_from_slice(&(v | 0xC000_0000_0000_0000).to_be_bytes()),
        _ => panic!("harness: bad varint width {width}"),
    }
}

/// value and encoded width of the varint at the start of `b`
pub fn get_varint(b: &[u8]) -> Option<(u64, usize)> {
    let first = *b.first()?;
    let width = 1usize << (first >> 6);
    if b.len() < width {
        return None;
    }
    let mut v = (first & 0x3f) as u64;
    for x in &b[1..width] {
        v = (v << 8) | *x as u64;
    }
    Some((v, width))
}

/// RFC 9000 §18: "Transport Parameter { Transport Parameter ID (i), Transport Parameter Length (i),
/// Transport Parameter Value (..) }" repeated until the end of the extension.
pub fn ref_parse(mut b: &[u8]) -> Result<Vec<(u64, &[u8])>, &'static str> {
    let mut out = vec![];
    while !b.is_empty() {
        let (id, w) = get_varint(b).ok_or("truncated parameter id")?;
        b = &b[w..];
        let (len, w) = get_varint(b).ok_or("truncated parameter length")?;
        b = &b[w..];
        if (b.len() as u64) < len {
            return Err("parameter length exceeds the extension");
        }
        out.push((id, &b[..len as usize]));
        b = &b[len as usize..];
    }
    Ok(out)
}

// =======================================================================================
// the RFC table (trusted base)

#[derive(Clone, Copy, Debug, PartialEq, Eq)]
pub enum Kind {
    /// §18.2: "Those transport parameters that are identified as integers use a variable-length
    /// integer encoding" — the value is exactly one varint (any width, §16: "Values do not need
    /// to be encoded on the minimum number of bytes necessary"), valid iff min <= v <= max.
    /// `latitude_above`: values above it are neither declared invalid nor meaningful; either
    /// outcome is accepted.
    Int { min: u64, max: u64, latitude_above: Option<u64> },
    /// a zero-length value
    Flag,
    /// a sequence of 16 bytes
    Token,
    /// a connection ID: 0..=20 bytes in QUIC v1 (§17.2: "In QUIC version 1, this value MUST NOT
    /// exceed 20 bytes"). `latitude_below`: shorter values can never match what a compliant peer
    /// put on the wire, so rejecting them already while decoding has the same outcome as the
    /// §7.3 mismatch (TRANSPORT_PARAMETER_ERROR); either outcome is accepted.
    Cid { latitude_below: usize },
    /// Figure 22
    PreferredAddress,
}

pub struct Row {
    pub id: u64,
    pub name: &'static str,
    pub kind: Kind,
    /// §18.2: "Transport parameters have a default value of 0 if the transport parameter is
    /// absent, unless otherwise stated."
    pub default: u64,
    /// §18.2: "A client MUST NOT include any server-only transport parameter:
    /// original_destination_connection_id, preferred_address, retry_source_connection_id, or
    /// stateless_reset_token. A server MUST treat receipt of any of these transport parameters as
    /// a connection error of type TRANSPORT_PARAMETER_ERROR."
    pub server_only: bool,
}

const fn int(min: u64, max: u64) -> Kind {
    Kind::Int { min, max, latitude_above: None }
}

pub const TABLE: &[Row] = &[
    // "original_destination_connection_id (0x00): This parameter is the value of the Destination
    // Connection ID field from the first Initial packet sent by the client ... This transport
    // parameter is only sent by a server." §7.2: "This Destination Connection ID MUST be at least
    // 8 bytes in length." (=> shorter values can only be a mismatch: latitude)
    Row { id: 0x00, name: "original_destination_connection_id", kind: Kind::Cid { latitude_below: 8 }, default: 0, server_only: true },
    // "max_idle_timeout (0x01): The maximum idle timeout is a value in milliseconds that is
    // encoded as an integer ... Idle timeout is disabled when both endpoints omit this transport
    // parameter or specify a value of 0."
    Row { id: 0x01, name: "max_idle_timeout", kind: int(0, VMAX), default: 0, server_only: false },
    // "stateless_reset_token (0x02): ... This parameter is a sequence of 16 bytes. This transport
    // parameter MUST NOT be sent by a client but MAY be sent by a server."
    Row { id: 0x02, name: "stateless_reset_token", kind: Kind::Token, default: 0, server_only: true },
    // "max_udp_payload_size (0x03): ... The default for this parameter is the maximum permitted
    // UDP payload of 65527. Values below 1200 are invalid." (values above 65527 exceed "the
    // maximum permitted UDP payload" but are not declared invalid: latitude)
    Row { id: 0x03, name: "max_udp_payload_size", kind: Kind::Int { min: 1200, max: VMAX, latitude_above: Some(65527) }, default: 65527, server_only: false },
    // "initial_max_data (0x04): The initial maximum data parameter is an integer value that
    // contains the initial value for the maximum amount of data that can be sent on the connection."
    Row { id: 0x04, name: "initial_max_data", kind: int(0, VMAX), default: 0, server_only: false },
    // "initial_max_stream_data_bidi_local (0x05): This parameter is an integer value specifying
    // the initial flow control limit for locally initiated bidirectional streams."
    Row { id: 0x05, name: "initial_max_stream_data_bidi_local", kind: int(0, VMAX), default: 0, server_only: false },
    // "initial_max_stream_data_bidi_remote (0x06): This parameter is an integer value specifying
    // the initial flow control limit for peer-initiated bidirectional streams."
    Row { id: 0x06, name: "initial_max_stream_data_bidi_remote", kind: int(0, VMAX), default: 0, server_only: false },
    // "initial_max_stream_data_uni (0x07): This parameter is an integer value specifying the
    // initial flow control limit for unidirectional streams."
    Row { id: 0x07, name: "initial_max_stream_data_uni", kind: int(0, VMAX), default: 0, server_only: false },
    // "initial_max_streams_bidi (0x08): ... If this parameter is absent or zero, the peer cannot
    // open bidirectional streams until a MAX_STREAMS frame is sent." §4.6: "If a max_streams
    // transport parameter or a MAX_STREAMS frame is received with a value greater than 2^60 ...
    // the connection MUST be closed immediately with a connection error of type
    // TRANSPORT_PARAMETER_ERROR if the offending value was received in a transport parameter"
    Row { id: 0x08, name: "initial_max_streams_bidi", kind: int(0, 1 << 60), default: 0, server_only: false },
    // "initial_max_streams_uni (0x09)": same, §4.6
    Row { id: 0x09, name: "initial_max_streams_uni", kind: int(0, 1 << 60), default: 0, server_only: false },
    // "ack_delay_exponent (0x0a): ... If this value is absent, a default value of 3 is assumed
    // (indicating a multiplier of 8). Values above 20 are invalid."
    Row { id: 0x0a, name: "ack_delay_exponent", kind: int(0, 20), default: 3, server_only: false },
    // "max_ack_delay (0x0b): ... If this value is absent, a default of 25 milliseconds is assumed.
    // Values of 2^14 or greater are invalid."
    Row { id: 0x0b, name: "max_ack_delay", kind: int(0, (1 << 14) - 1), default: 25, server_only: false },
    // "disable_active_migration (0x0c): ... This parameter is a zero-length value."
    Row { id: 0x0c, name: "disable_active_migration", kind: Kind::Flag, default: 0, server_only: false },
    // "preferred_address (0x0d): ... This transport parameter is only sent by a server." Figure 22;
    // "a server MUST NOT include a zero-length connection ID in this transport parameter. A client
    // MUST treat a violation of these requirements as a connection error of type
    // TRANSPORT_PARAMETER_ERROR."
    Row { id: 0x0d, name: "preferred_address", kind: Kind::PreferredAddress, default: 0, server_only: true },
    // "active_connection_id_limit (0x0e): ... The value of the active_connection_id_limit
    // parameter MUST be at least 2. An endpoint that receives a value less than 2 MUST close the
    // connection with an error of type TRANSPORT_PARAMETER_ERROR. If this transport parameter is
    // absent, a default of 2 is assumed."
    Row { id: 0x0e, name: "active_connection_id_limit", kind: int(2, VMAX), default: 2, server_only: false },
    // "initial_source_connection_id (0x0f): This is the value that the endpoint included in the
    // Source Connection ID field of the first Initial packet it sends for the connection"
    Row { id: 0x0f, name: "initial_source_connection_id", kind: Kind::Cid { latitude_below: 0 }, default: 0, server_only: false },
    // "retry_source_connection_id (0x10): This is the value that the server included in the Source
    // Connection ID field of a Retry packet ... This transport parameter is only sent by a server."
    // (§17.2.5: "The server includes a connection ID of its choice in the Source Connection ID
    // field" — any length 0..=20)
    Row { id: 0x10, name: "retry_source_connection_id", kind: Kind::Cid { latitude_below: 0 }, default: 0, server_only: true },
    // RFC 9221 §3: "max_datagram_frame_size, value=0x20 ... is an integer value (represented as a
    // variable-length integer) ... The default for this parameter is 0, which indicates that the
    // endpoint does not support DATAGRAM frames."
    Row { id: 0x20, name: "max_datagram_frame_size", kind: int(0, VMAX), default: 0, server_only: false },
];

pub fn row(id: u64) -> Option<&'static Row> {
    TABLE.iter().find(|r| r.id == id)
}

/// ids this check must never generate as "unknown": the table's, and s2n's private extension
/// range (`DcSupportedVersions` 0xdc0000, `MtuProbingCompleteSupport` 0xdc0002; the whole
/// 0xdc00xx block is avoided)
pub fn reserved_id(id: u64) -> bool {
    row(id).is_some() || (0xdc0000..=0xdc00ff).contains(&id)
}

fn sanitize_unknown_id(id: u64) -> u64 {
    let id = id.min(VMAX);
    if reserved_id(id) {
        // 0x21.. / 0xdc0100.. are free
        if id <= 0x20 {
            0x21 + id
        } else {
            id + 0x100
        }
    } else {
        id
    }
}

#[derive(Clone, Debug, PartialEq, Eq)]
pub struct Pref {
    pub v4: Option<([u8; 4], u16)>,
    pub v6: Option<([u8; 16], u16)>,
    pub cid: Vec<u8>,
    pub token: [u8; 16],
}

/// `value(block)`: what the block declares, RFC defaults for absent parameters
#[derive(Clone, Debug, Default)]
pub struct Values {
    pub ints: BTreeMap<u64, u64>,
    pub disable_active_migration: bool,
    pub cids: BTreeMap<u64, Vec<u8>>,
    pub token: Option<Vec<u8>>,
    pub pref: Option<Pref>,
}

impl Values {
    pub fn int(&self, id: u64) -> u64 {
        self.ints[&id]
    }
}

#[derive(Clone, Debug)]
pub struct Why {
    pub param: &'static str,
    /// short class used in the Fail key
    pub class: String,
    pub detail: String,
}

#[derive(Debug, Default)]
pub struct Judgement {
    /// reasons for which RFC 9000 requires the block to be refused
    pub rejects: Vec<Why>,
    /// reasons for which either outcome is permitted
    pub latitude: Vec<Why>,
    pub values: Values,
    pub known_params: usize,
    pub unknown_params: usize,
    pub dup_known: bool,
    pub dup_unknown: bool,
    pub role_violation: bool,
    pub wrong_length: bool,
    pub near_bound: bool,
    pub nonminimal_value: bool,
    pub malformed_block: bool,
}

fn why(param: &'static str, class: impl Into<String>, detail: impl Into<String>) -> Why {
    Why { param, class: class.into(), detail: detail.into() }
}

fn parse_pref(b: &[u8]) -> Result<Pref, &'static str> {
    if b.len() < 4 + 2 + 16 + 2 + 1 {
        return Err("truncated");
    }
    let cid_len = b[24] as usize;
    if b.len() != 25 + cid_len + 16 {
        return Err(if b.len() < 25 + cid_len + 16 { "truncated" } else { "trailing-bytes" });
    }
    let v4ip: [u8; 4] = b[0..4].try_into().unwrap();
    let v4port = u16::from_be_bytes([b[4], b[5]]);
    let v6ip: [u8; 16] = b[6..22].try_into().unwrap();
    let v6port = u16::from_be_bytes([b[22], b[23]]);
    Ok(Pref {
        // "sending an all-zero address and port (0.0.0.0:0 or [::]:0) for the other family"
        v4: (v4ip != [0; 4] || v4port != 0).then_some((v4ip, v4port)),
        v6: (v6ip != [0; 16] || v6port != 0).then_some((v6ip, v6port)),
        cid: b[25..25 + cid_len].to_vec(),
        token: b[25 + cid_len..].try_into().unwrap(),
    })
}

pub fn bounds_of(kind: Kind) -> Vec<u64> {
    match kind {
        Kind::Int { min, max, latitude_above } => {
            let mut v = vec![];
            if min > 0 {
                v.push(min);
            }
            if max < VMAX {
                v.push(max);
            }
            v.extend(latitude_above);
            v
        }
        _ => vec![],
    }
}

/// `accept(block, role)` and `value(block)` in one pass. `role` is the SENDER of the block.
pub fn judge(block: &[u8], role: Role) -> Judgement {
    let mut j = Judgement::default();
    for r in TABLE {
        if let Kind::Int { .. } = r.kind {
            j.values.ints.insert(r.id, r.default);
        }
    }
    let params = match ref_parse(block) {
        Ok(p) => p,
        Err(e) => {
            j.malformed_block = true;
            j.rejects.push(why("block", "malformed", e));
            return j;
        }
    };
    let mut seen: Vec<u64> = vec![];
    for (id, body) in params {
        let dup = seen.contains(&id);
        seen.push(id);
        let Some(r) = row(id) else {
            j.unknown_params += 1;
            // §7.4.2: "An endpoint MUST ignore transport parameters that it does not support."
            if dup {
                // §7.4: "An endpoint MUST NOT send a parameter more than once ... An endpoint SHOULD
                // treat receipt of duplicate transport parameters as a connection error": an
                // endpoint cannot be required to track ids it does not know — either outcome
                j.dup_unknown = true;
                j.latitude.push(why("unknown-id", "duplicate", format!("id {id:#x} repeated")));
            }
            continue;
        };
        j.known_params += 1;
        if dup {
            j.dup_known = true;
            j.rejects.push(why(r.name, "duplicate", format!("{} sent more than once", r.name)));
            continue;
        }
        if r.server_only && role == Role::Client {
            j.role_violation = true;
            j.rejects.push(why(r.name, "server-only-from-client", format!("{} in client parameters", r.name)));
            continue;
        }
        match r.kind {
            Kind::Int { min, max, latitude_above } => match get_varint(body) {
                Some((v, w)) if w == body.len() => {
                    j.nonminimal_value |= w > min_width(v);
                    j.near_bound |= bounds_of(r.kind).iter().any(|b| v.abs_diff(*b) <= 1);
                    if v < min || v > max {
                        let class = if (min > 0 && v == min - 1) || (max < VMAX && v == max + 1) {
                            format!("={v}")
                        } else {
                            ":out-of-range".to_string()
                        };
                        j.rejects.push(why(r.name, class, format!("{} = {v} is outside {min}..={max}", r.name)));
                    } else {
                        if latitude_above.map(|l| v > l).unwrap_or(false) {
                            j.latitude.push(why(r.name, "above-meaningful-range", format!("{} = {v}", r.name)));
                        }
                        j.values.ints.insert(id, v);
                    }
                }
                _ => {
                    j.wrong_length = true;
                    j.rejects.push(why(r.name, "not-one-varint", format!("{} value {body:02x?} is not exactly one varint", r.name)));
                }
            },
            Kind::Flag => {
                if body.is_empty() {
                    j.values.disable_active_migration = true;
                } else {
                    j.wrong_length = true;
                    j.rejects.push(why(r.name, "nonzero-length", format!("{} with a {}-byte value", r.name, body.len())));
                }
            }
            Kind::Token => {
                if body.len() == 16 {
                    j.values.token = Some(body.to_vec());
                } else {
                    j.wrong_length = true;
                    j.rejects.push(why(r.name, "len!=16", format!("{} of {} bytes", r.name, body.len())));
                }
            }
            Kind::Cid { latitude_below } => {
                if body.len() > 20 {
                    j.wrong_length = true;
                    j.rejects.push(why(r.name, "len>20", format!("{} of {} bytes", r.name, body.len())));
                } else {
                    if body.len() < latitude_below {
                        j.latitude.push(why(r.name, "shorter-than-any-compliant-value", format!("{} of {} bytes", r.name, body.len())));
                    }
                    j.values.cids.insert(id, body.to_vec());
                }
            }
            Kind::PreferredAddress => match parse_pref(body) {
                Err(e) => {
                    j.wrong_length = true;
                    j.rejects.push(why(r.name, e, format!("{} of {} bytes: {e}", r.name, body.len())));
                }
                Ok(p) => {
                    // §18.2: "The Connection ID and Stateless Reset Token fields of a preferred
                    // address are identical in syntax and semantics to the corresponding fields of
                    // a NEW_CONNECTION_ID frame"; §19.15: "Values less than 1 and greater than 20
                    // are invalid and MUST be treated as a connection error"
                    if p.cid.is_empty() {
                        j.wrong_length = true;
                        j.rejects.push(why(r.name, "zero-length-cid", "preferred_address with a zero-length connection ID"));
                    } else if p.cid.len() > 20 {
                        j.wrong_length = true;
                        j.rejects.push(why(r.name, "cid-len>20", format!("preferred_address connection ID of {} bytes", p.cid.len())));
                    } else {
                        if p.v4.is_none() && p.v6.is_none() {
                            // no sentence declares this invalid, none gives it a meaning
                            j.latitude.push(why(r.name, "no-address", "preferred_address with both families all-zero"));
                        }
                        j.values.pref = Some(p);
                    }
                }
            },
        }
    }
    j
}

// =======================================================================================
// case types

#[derive(Clone, Copy, Debug, Hash, PartialEq, Eq, Serialize, Deserialize)]
pub enum Role {
    Client,
    Server,
}

/// requested varint width; a value that does not fit is written in its minimal width
#[derive(Clone, Copy, Debug, Hash, PartialEq, Eq, Serialize, Deserialize)]
pub enum W {
    Min,
    B1,
    B2,
    B4,
    B8,
}

impl W {
    fn width_for(self, v: u64) -> usize {
        let want = match self {
            W::Min => 0,
            W::B1 => 1,
            W::B2 => 2,
            W::B4 => 4,
            W::B8 => 8,
        };
        want.max(min_width(v))
    }
}

#[derive(Clone, Debug, Hash, PartialEq, Eq, Serialize, Deserialize)]
pub enum Body {
    /// exactly one varint
    Int { v: u64, w: W },
    /// any bytes (connection ids, tokens, flags, preferred_address, malformed integers, unknown)
    Raw(Vec<u8>),
}

#[derive(Clone, Debug, Hash, PartialEq, Eq, Serialize, Deserialize)]
pub struct Param {
    pub id: u64,
    pub id_w: W,
    pub len_w: W,
    pub body: Body,
}

/// copy of `params[pick(src)]` (optionally with another body) inserted at `pick(at)`
#[derive(Clone, Debug, Hash, PartialEq, Eq, Serialize, Deserialize)]
pub struct Dup {
    pub src: u16,
    pub at: u16,
    pub alt: Option<Body>,
}

#[derive(Clone, Debug, Hash, PartialEq, Eq, Serialize, Deserialize)]
pub struct Block {
    /// who sent the block
    pub role: Role,
    pub params: Vec<Param>,
    pub dups: Vec<Dup>,
    /// cut the encoded block to a strictly shorter length
    pub cut: Option<u16>,
}

pub fn body_bytes(b: &Body) -> Vec<u8> {
    match b {
        Body::Int { v, w } => {
            let v = (*v).min(VMAX);
            let mut out = vec![];
            put_varint(&mut out, v, w.width_for(v));
            out
        }
        Body::Raw(r) => r.clone(),
    }
}

pub fn encode_param(out: &mut Vec<u8>, p: &Param) {
    let id = p.id.min(VMAX);
    put_varint(out, id, p.id_w.width_for(id));
    let body = body_bytes(&p.body);
    put_varint(out, body.len() as u64, p.len_w.width_for(body.len() as u64));
    out.extend_from_slice(&body);
}

pub fn materialize(b: &Block) -> Vec<Param> {
    let mut ps = b.params.clone();
    if !b.params.is_empty() {
        for d in &b.dups {
            let mut p = b.params[pick_index(d.src, b.params.len())].clone();
            if let Some(alt) = &d.alt {
                p.body = alt.clone();
            }
            let at = pick_index(d.at, ps.len() + 1);
            ps.insert(at, p);
        }
    }
    ps
}

pub fn encode_block(b: &Block) -> Vec<u8> {
    let ps = materialize(b);
    let mut out = vec![];
    for p in &ps {
        encode_param(&mut out, p);
    }
    // harness invariant: the reference parser reads back exactly what the encoder wrote
    let back = ref_parse(&out).expect("harness: own encoder output does not parse");
    assert_eq!(back.len(), ps.len(), "harness: encoder/parser disagree");
    for ((id, body), p) in back.iter().zip(&ps) {
        assert!(*id == p.id.min(VMAX) && *body == &body_bytes(&p.body)[..], "harness: encoder/parser disagree");
    }
    if let Some(c) = b.cut {
        let n = pick_index(c, out.len());
        out.truncate(n);
    }
    out
}

// =======================================================================================
// the code under test

enum Decoded {
    Client(ClientTransportParameters),
    Server(ServerTransportParameters),
}

/// what the receiver of a block sent by `role` does (session_context.rs: `on_client_params` decodes
/// `ClientTransportParameters`, `on_server_params` decodes `ServerTransportParameters`)
fn s2n_decode(bytes: &[u8], role: Role) -> Result<Decoded, String> {
    let buf = DecoderBuffer::new(bytes);
    match role {
        Role::Client => match buf.decode::<ClientTransportParameters>() {
            Ok((p, rest)) => {
                if rest.is_empty() {
                    Ok(Decoded::Client(p))
                } else {
                    Err(format!("decode left {} bytes", rest.len()))
                }
            }
            Err(e) => Err(e.to_string()),
        },
        Role::Server => match buf.decode::<ServerTransportParameters>() {
            Ok((p, rest)) => {
                if rest.is_empty() {
                    Ok(Decoded::Server(p))
                } else {
                    Err(format!("decode left {} bytes", rest.len()))
                }
            }
            Err(e) => Err(e.to_string()),
        },
    }
}

pub fn hex(b: &[u8]) -> String {
    b.iter().map(|x| format!("{x:02x}")).collect()
}

macro_rules! same {
    ($got:expr, $want:expr, $name:expr, $ctx:expr) => {{
        let got = $got;
        let want = $want;
        if got != want {
            return Err(Fail::new(
                format!("C14:{}:wrong-value:accepted", $name),
                format!("{}: s2n reports {} = {:?}, the block declares {:?}", $ctx, $name, got, want),
            ));
        }
    }};
}

/// every field both roles share equals `value(block)`
fn compare_common<A, B, C, D>(p: &TransportParameters<A, B, C, D>, v: &Values, ctx: &str) -> CaseResult {
    same!(p.max_idle_timeout.as_u64(), v.int(0x01), "max_idle_timeout", ctx);
    same!(p.max_udp_payload_size.as_u64(), v.int(0x03), "max_udp_payload_size", ctx);
    same!(p.initial_max_data.as_u64(), v.int(0x04), "initial_max_data", ctx);
    same!(p.initial_max_stream_data_bidi_local.as_u64(), v.int(0x05), "initial_max_stream_data_bidi_local", ctx);
    same!(p.initial_max_stream_data_bidi_remote.as_u64(), v.int(0x06), "initial_max_stream_data_bidi_remote", ctx);
    same!(p.initial_max_stream_data_uni.as_u64(), v.int(0x07), "initial_max_stream_data_uni", ctx);
    same!(p.initial_max_streams_bidi.as_u64(), v.int(0x08), "initial_max_streams_bidi", ctx);
    same!(p.initial_max_streams_uni.as_u64(), v.int(0x09), "initial_max_streams_uni", ctx);
    same!(p.ack_delay_exponent.as_u8() as u64, v.int(0x0a), "ack_delay_exponent", ctx);
    same!(p.max_ack_delay.as_u64(), v.int(0x0b), "max_ack_delay", ctx);
    same!(p.migration_support == MigrationSupport::Disabled, v.disable_active_migration, "disable_active_migration", ctx);
    same!(p.active_connection_id_limit.as_u64(), v.int(0x0e), "active_connection_id_limit", ctx);
    same!(p.max_datagram_frame_size.as_u64(), v.int(0x20), "max_datagram_frame_size", ctx);
    same!(
        p.initial_source_connection_id.as_ref().map(|c| c.as_bytes().to_vec()),
        v.cids.get(&0x0f).cloned(),
        "initial_source_connection_id",
        ctx
    );
    // never generated, so they must be at their defaults
    same!((&p.dc_supported_versions).into_iter().count(), 0usize, "dc_supported_versions", ctx);
    same!(p.mtu_probing_complete_support == MtuProbingCompleteSupport::Disabled, true, "mtu_probing_complete_support", ctx);
    Ok(())
}

fn compare_server(p: &ServerTransportParameters, v: &Values, ctx: &str) -> CaseResult {
    same!(
        p.original_destination_connection_id.as_ref().map(|c| c.as_bytes().to_vec()),
        v.cids.get(&0x00).cloned(),
        "original_destination_connection_id",
        ctx
    );
    same!(
        p.retry_source_connection_id.as_ref().map(|c| c.as_bytes().to_vec()),
        v.cids.get(&0x10).cloned(),
        "retry_source_connection_id",
        ctx
    );
    same!(p.stateless_reset_token.map(|t| t.into_inner().to_vec()), v.token.clone(), "stateless_reset_token", ctx);
    let got = p.preferred_address.as_ref().map(|a| Pref {
        v4: a.ipv4_address.map(|s| ((*s.ip()).into(), s.port())),
        v6: a.ipv6_address.map(|s| ((*s.ip()).into(), s.port())),
        cid: a.connection_id.as_bytes().to_vec(),
        token: a.stateless_reset_token.into_inner(),
    });
    same!(got, v.pref.clone(), "preferred_address", ctx);
    Ok(())
}

/// label for "the RFC permits this parameter, s2n refuses it"
fn shape_class(id: u64, body: &[u8]) -> (&'static str, String) {
    match row(id) {
        None => ("unknown-id", "ignored-parameter".into()),
        Some(r) => match r.kind {
            Kind::Int { .. } => match get_varint(body) {
                Some((v, w)) if w > min_width(v) => (r.name, "nonminimal-varint".into()),
                Some((v, _)) => (r.name, format!("value={v}")),
                None => (r.name, "valid-value".into()),
            },
            // label buckets only (which lengths are refused is reported in the message)
            Kind::Cid { .. } => (
                r.name,
                match body.len() {
                    0..=3 => "len<4".into(),
                    4..=7 => "len<8".into(),
                    _ => "len>=8".into(),
                },
            ),
            _ => (r.name, "valid-value".into()),
        },
    }
}

/// one TLV re-encoded canonically around its original value bytes
fn single_tlv(id: u64, body: &[u8]) -> Vec<u8> {
    let mut out = vec![];
    put_varint(&mut out, id, min_width(id));
    put_varint(&mut out, body.len() as u64, min_width(body.len() as u64));
    out.extend_from_slice(body);
    out
}

pub fn check_bytes(bytes: &[u8], role: Role, obs: &mut Obs) -> CaseResult {
    let j = judge(bytes, role);
    let got = s2n_decode(bytes, role);
    let ctx = format!("block {} sent by a {role:?}", hex(bytes));

    obs.class(match role {
        Role::Client => "role-client",
        Role::Server => "role-server",
    });
    obs.class_if(j.dup_known, "dup-known");
    obs.class_if(j.dup_unknown, "dup-unknown");
    obs.class_if(j.role_violation, "server-only-in-client");
    obs.class_if(j.wrong_length, "wrong-length");
    obs.class_if(j.near_bound, "near-bound");
    obs.class_if(j.nonminimal_value, "nonminimal-value-varint");
    obs.class_if(j.malformed_block, "malformed-block");
    obs.class_if(j.unknown_params > 0, "unknown-ids");
    obs.class_if(j.known_params >= 3, "known>=3");
    obs.class_if(j.known_params == 0 && j.unknown_params == 0 && !j.malformed_block, "empty-block");
    obs.class_if(j.values.pref.is_some(), "preferred-address-valid");
    obs.class_if(j.rejects.iter().any(|w| w.class.starts_with('=') || w.class == ":out-of-range"), "int-out-of-range");
    obs.nontrivial((j.known_params >= 3 && j.near_bound) || j.dup_known || j.dup_unknown || j.role_violation || j.wrong_length);

    if let Some(w) = j.rejects.first() {
        obs.class("rfc-rejects");
        if got.is_ok() {
            return Err(Fail::new(accepted_key(w), format!("{ctx}: RFC 9000 requires refusal ({}), s2n accepted it", w.detail)));
        }
        return Ok(());
    }
    match got {
        Ok(d) => {
            obs.class(if j.latitude.is_empty() { "rfc-accepts" } else { "rfc-latitude-accepted" });
            match &d {
                Decoded::Client(p) => compare_common(p, &j.values, &ctx)?,
                Decoded::Server(p) => {
                    compare_common(p, &j.values, &ctx)?;
                    compare_server(p, &j.values, &ctx)?;
                }
            }
            Ok(())
        }
        Err(e) => {
            if !j.latitude.is_empty() {
                obs.class("rfc-latitude-rejected");
                return Ok(());
            }
            obs.class("rfc-accepts");
            let (key, which) = rejected_key(bytes, role);
            Err(Fail::new(key, format!("{ctx}: every parameter is permitted by RFC 9000, s2n refused it ({e}); {which}")))
        }
    }
}

/// Fail key for "RFC 9000 requires refusal for this reason, s2n accepted the block"
pub fn accepted_key(w: &Why) -> String {
    if w.class.starts_with('=') || w.class.starts_with(':') {
        format!("C14:{}{}:accepted", w.param, w.class)
    } else {
        format!("C14:{}:{}:accepted", w.param, w.class)
    }
}

/// Fail key (and a description) for "every parameter of this well-formed block is permitted, s2n's
/// decoder refuses it": names the first parameter that is refused on its own. Used as a *label*
/// only (the verdict comes from `judge`); also by the end-to-end half (world::mon_c14).
pub fn rejected_key(bytes: &[u8], role: Role) -> (String, String) {
    let params = ref_parse(bytes).expect("harness: judged acceptable but does not parse");
    for (id, body) in &params {
        let one = single_tlv(*id, body);
        if let Err(e1) = s2n_decode(&one, role) {
            let (name, class) = shape_class(*id, body);
            return (format!("C14:{name}:{class}:rejected"), format!("parameter {id:#x} alone ({}) is refused too ({e1})", hex(&one)));
        }
    }
    ("C14:block:combination:rejected".to_string(), "every parameter is accepted on its own".to_string())
}

/// does s2n's decoder (the one the receiver of a block sent by `role` uses) take the block?
pub fn s2n_decodes(bytes: &[u8], role: Role) -> bool {
    s2n_decode(bytes, role).is_ok()
}

pub fn check_block(b: &Block, obs: &mut Obs) -> CaseResult {
    let bytes = encode_block(b);
    let ps = materialize(b);
    let nonminimal = |p: &Param| {
        let len = body_bytes(&p.body).len() as u64;
        p.id_w.width_for(p.id) > min_width(p.id) || p.len_w.width_for(len) > min_width(len)
    };
    obs.class_if(ps.iter().any(nonminimal), "nonminimal-id-or-length");
    obs.class_if(ps.iter().any(|p| p.id >= 27 && (p.id - 27) % 31 == 0 && !reserved_id(p.id)), "grease-id");
    obs.class_if(b.cut.is_some(), "cut");
    obs.units = ps.len() as u64;
    check_bytes(&bytes, b.role, obs)
}

// =======================================================================================
// generator

fn prf_body(seed: u32, len: usize) -> Vec<u8> {
    prf_vec(KEY, (seed as u64) << 8, len)
}

pub fn w_any() -> impl Strategy<Value = W> {
    prop_oneof![Just(W::Min), Just(W::B1), Just(W::B2), Just(W::B4), Just(W::B8)]
}

pub fn w_mostly_min() -> impl Strategy<Value = W> {
    prop_oneof![30 => Just(W::Min), 1 => Just(W::B2), 1 => prop_oneof![Just(W::B1), Just(W::B4), Just(W::B8)]]
}

/// {0, 1, bound-1, bound, bound+1, 2^62-1, random}, split into what the table calls valid / invalid
/// so that the share of refused blocks can be steered (weights only; the verdict is `judge`'s)
fn int_value(kind: Kind) -> BoxedStrategy<u64> {
    let Kind::Int { min, max, latitude_above } = kind else { unreachable!() };
    // "plainly valid": inside the range and not in the latitude zone
    let max = latitude_above.unwrap_or(max);
    let mut specials = vec![0, 1, VMAX];
    for b in bounds_of(kind) {
        specials.extend([b.saturating_sub(1), b, (b + 1).min(VMAX)]);
    }
    let valid: Vec<u64> = specials.iter().copied().filter(|v| (min..=max).contains(v)).collect();
    let invalid: Vec<u64> = specials.iter().copied().filter(|v| !(min..=max).contains(v)).collect();
    let span = max - min;
    let in_range = prop_oneof![0u64..=span.min(70_000), 0u64..=span].prop_map(move |d| min + d);
    if invalid.is_empty() {
        prop_oneof![5 => proptest::sample::select(valid), 3 => in_range, 2 => varint_value()].boxed()
    } else {
        prop_oneof![
            16 => proptest::sample::select(valid),
            10 => in_range,
            2 => proptest::sample::select(invalid),
            1 => varint_value(),
        ]
        .boxed()
    }
}

fn cid_body(latitude_below: usize) -> BoxedStrategy<Vec<u8>> {
    let len = prop_oneof![
        8 => proptest::sample::select(vec![0usize, 1, 3, 4, 7, 8, 19, 20]).prop_map(move |l| if l < latitude_below { 20 - l } else { l }),
        4 => latitude_below..=20,
        1 => 0usize..=20,
        1 => proptest::sample::select(vec![21usize, 22, 32, 255]),
    ];
    (len, any::<u32>()).prop_map(|(l, s)| prf_body(s, l)).boxed()
}

pub fn pref_body() -> BoxedStrategy<Vec<u8>> {
    // address family: 0 = all-zero, 1 = zero ip with a port, 2 = ordinary
    let fam = || prop_oneof![2 => Just(0u8), 1 => Just(1u8), 6 => Just(2u8)];
    let cid_len = prop_oneof![
        10 => proptest::sample::select(vec![1u8, 4, 8, 19, 20]),
        3 => 1u8..=20,
        1 => Just(0u8),
        1 => proptest::sample::select(vec![21u8, 64, 255]),
    ];
    // 0 = exact, 1.. = bytes cut from the end, negative = bytes appended
    let len_fault = prop_oneof![16 => Just(0i8), 1 => 1i8..=17, 1 => -2i8..=-1];
    (fam(), fam(), cid_len, len_fault, any::<u32>())
        .prop_map(|(f4, f6, cid_len, fault, seed)| {
            let rnd = prf_body(seed, 64);
            let mut b = vec![];
            match f4 {
                0 => b.extend_from_slice(&[0; 6]),
                1 => b.extend_from_slice(&[0, 0, 0, 0, 0x01, 0xbb]),
                _ => b.extend_from_slice(&[192, 0, 2, rnd[0] | 1, rnd[1], rnd[2]]),
            }
            match f6 {
                0 => b.extend_from_slice(&[0; 18]),
                1 => {
                    b.extend_from_slice(&[0; 16]);
                    b.extend_from_slice(&[0x11, 0x51]);
                }
                _ => {
                    b.extend_from_slice(&[0x20, 0x01, 0x0d, 0xb8]);
                    b.extend_from_slice(&rnd[3..15]);
                    b.extend_from_slice(&[rnd[15], rnd[16]]);
                }
            }
            b.push(cid_len);
            b.extend(prf_body(seed ^ 0x5a5a, cid_len as usize));
            b.extend_from_slice(&rnd[20..36]);
            if fault > 0 {
                let n = b.len().saturating_sub(fault as usize);
                b.truncate(n);
            } else {
                b.extend_from_slice(&rnd[40..40 + (-fault) as usize]);
            }
            b
        })
        .boxed()
}

fn known_body(r: &'static Row) -> BoxedStrategy<Body> {
    match r.kind {
        Kind::Int { .. } => {
            // ack_delay_exponent in a non-minimal width is a known disagreement: keep that class
            // small so that the other parameters of the block still get compared
            let w = if r.id == 0x0a { w_mostly_min().boxed() } else { w_any().boxed() };
            let good = (int_value(r.kind), w).prop_map(|(v, w)| Body::Int { v, w });
            // a value that is not exactly one varint: trailing byte / cut short / empty
            let bad = (int_value(r.kind), w_any(), 0u8..3).prop_map(|(v, w, k)| {
                let mut b = body_bytes(&Body::Int { v, w });
                match k {
                    0 => b.push(0),
                    1 => {
                        b.pop();
                    }
                    _ => b.clear(),
                }
                Body::Raw(b)
            });
            prop_oneof![80 => good, 1 => bad].boxed()
        }
        Kind::Flag => prop_oneof![
            9 => Just(Body::Raw(vec![])),
            1 => proptest::sample::select(vec![vec![0u8], vec![1], vec![0, 0], vec![0x40, 0]]).prop_map(Body::Raw),
        ]
        .boxed(),
        Kind::Token => (
            prop_oneof![9 => Just(16usize), 1 => proptest::sample::select(vec![0usize, 1, 15, 17, 32])],
            any::<u32>(),
        )
            .prop_map(|(l, s)| Body::Raw(prf_body(s, l)))
            .boxed(),
        Kind::Cid { latitude_below } => cid_body(latitude_below).prop_map(Body::Raw).boxed(),
        Kind::PreferredAddress => pref_body().prop_map(Body::Raw).boxed(),
    }
}

fn known_slot(r: &'static Row, role: Role) -> BoxedStrategy<Option<Param>> {
    // server-only parameters are rare in client blocks (they decide the verdict on their own)
    let present: f64 = if r.server_only && role == Role::Client { 0.03 } else { 0.36 };
    (prop::bool::weighted(present), known_body(r), w_mostly_min(), w_mostly_min())
        .prop_map(move |(on, body, id_w, len_w)| on.then(|| Param { id: r.id, id_w, len_w, body }))
        .boxed()
}

fn unknown_id() -> BoxedStrategy<u64> {
    prop_oneof![
        // GREASE, §18.1: "Transport parameters with an identifier of the form 31 * N + 27 for
        // integer values of N are reserved to exercise the requirement that unknown transport
        // parameters be ignored."
        4 => prop_oneof![0u64..40, 0u64..=(VMAX - 27) / 31, Just((VMAX - 27) / 31)].prop_map(|n| 31 * n + 27),
        // right next to the known ids
        3 => 0x11u64..0x60,
        2 => prop_oneof![Just(0xdbffffu64), Just(0xdc0100), 0xdb0000u64..0xdd0000],
        2 => varint_value(),
    ]
    .prop_map(sanitize_unknown_id)
    .boxed()
}

pub fn unknown_param() -> BoxedStrategy<Param> {
    let len = prop_oneof![2 => Just(0usize), 2 => 1usize..=8, 2 => 0usize..=64, 1 => Just(64usize)];
    (unknown_id(), len, any::<u32>(), w_mostly_min(), w_mostly_min())
        .prop_map(|(id, l, s, id_w, len_w)| Param { id, id_w, len_w, body: Body::Raw(prf_body(s, l)) })
        .boxed()
}

fn alt_body() -> BoxedStrategy<Option<Body>> {
    prop_oneof![
        2 => Just(None),
        1 => (varint_value(), w_any()).prop_map(|(v, w)| Some(Body::Int { v, w })),
        1 => (0usize..=20, any::<u32>()).prop_map(|(l, s)| Some(Body::Raw(prf_body(s, l)))),
    ]
    .boxed()
}

pub fn block_for(role: Role) -> BoxedStrategy<Block> {
    let slots: Vec<BoxedStrategy<Option<Param>>> = TABLE.iter().map(|r| known_slot(r, role)).collect();
    let unknown = prop_oneof![
        5 => Just(vec![]).boxed(),
        5 => prop::collection::vec(unknown_param(), 1..4).boxed(),
    ];
    let params = (slots, unknown)
        .prop_map(|(known, unknown)| known.into_iter().flatten().chain(unknown).collect::<Vec<Param>>())
        .prop_shuffle();
    let dup = (any::<u16>(), any::<u16>(), alt_body()).prop_map(|(src, at, alt)| Dup { src, at, alt });
    let dups = prop_oneof![
        85 => Just(vec![]).boxed(),
        10 => prop::collection::vec(dup.clone(), 1..=1).boxed(),
        5 => prop::collection::vec(dup, 2..=2).boxed(),
    ];
    let cut = prop_oneof![39 => Just(None), 1 => any::<u16>().prop_map(Some)];
    (params, dups, cut).prop_map(move |(params, dups, cut)| Block { role, params, dups, cut }).boxed()
}

fn block_strategy(_t: Tier) -> BoxedStrategy<Block> {
    prop_oneof![block_for(Role::Client), block_for(Role::Server)].boxed()
}

// =======================================================================================
// complete enumeration of single-parameter boundaries

const ENUM_INTS: &[u64] = &[
    0, 1, 2, 3, 19, 20, 21, 22, 24, 25, 26, 62, 63, 64, 65, 255, 256, 1199, 1200, 1201, 16382, 16383, 16384, 16385,
    65526, 65527, 65528, 65535, 65536, (1 << 30) - 1, 1 << 30, (1 << 32) - 1, 1 << 32, (1 << 60) - 1, 1 << 60,
    (1 << 60) + 1, VMAX - 1, VMAX,
];

fn fixed_cid(tag: u8, len: usize) -> Vec<u8> {
    (0..len).map(|i| tag.wrapping_add(i as u8)).collect()
}

fn plain(id: u64, body: Body) -> Param {
    Param { id, id_w: W::Min, len_w: W::Min, body }
}

fn fixed_pref(v4: bool, v6: bool, cid_len: u8) -> Vec<u8> {
    let mut b = vec![];
    b.extend_from_slice(if v4 { &[192, 0, 2, 1, 0x01, 0xbb] } else { &[0; 6] });
    if v6 {
        b.extend_from_slice(&[0x20, 0x01, 0x0d, 0xb8, 0, 0, 0, 0, 0, 0, 0, 0, 0, 0, 0, 1, 0x01, 0xbb]);
    } else {
        b.extend_from_slice(&[0; 18]);
    }
    b.push(cid_len);
    b.extend(fixed_cid(0xc0, cid_len as usize));
    b.extend(fixed_cid(0x70, 16));
    b
}

/// the small valid block each probe is embedded in
fn base(role: Role) -> Vec<Param> {
    let mut v = vec![];
    if role == Role::Server {
        v.push(plain(0x00, Body::Raw(fixed_cid(0xa0, 8))));
    }
    v.push(plain(0x0f, Body::Raw(fixed_cid(0xb0, 8))));
    v.push(plain(0x04, Body::Int { v: 100_000, w: W::Min }));
    v.push(plain(0x08, Body::Int { v: 100, w: W::Min }));
    v
}

fn variants(r: &'static Row) -> Vec<Body> {
    let mut out = vec![];
    match r.kind {
        Kind::Int { .. } => {
            for &v in ENUM_INTS {
                for w in [W::B1, W::B2, W::B4, W::B8] {
                    if w.width_for(v) == w.width_for(0) {
                        out.push(Body::Int { v, w });
                    }
                }
            }
            // not exactly one varint
            out.push(Body::Raw(vec![]));
            out.push(Body::Raw(vec![0x05, 0x00]));
            out.push(Body::Raw(vec![0x40]));
            out.push(Body::Raw(vec![0x80, 0, 0]));
            out.push(Body::Raw(vec![0xc0, 0, 0, 0, 0, 0, 0]));
            out.push(Body::Raw(vec![0x40, 0x05, 0x00]));
        }
        Kind::Flag => {
            for b in [vec![], vec![0u8], vec![1], vec![0, 0], vec![0x40, 0x00]] {
                out.push(Body::Raw(b));
            }
        }
        Kind::Token => {
            for l in [0usize, 1, 15, 16, 17, 32] {
                out.push(Body::Raw(fixed_cid(0x10, l)));
            }
        }
        Kind::Cid { .. } => {
            for l in 0usize..=22 {
                out.push(Body::Raw(fixed_cid(0xd0, l)));
            }
            out.push(Body::Raw(fixed_cid(0xd0, 255)));
        }
        Kind::PreferredAddress => {
            for (v4, v6) in [(true, true), (true, false), (false, true), (false, false)] {
                for cid_len in [0u8, 1, 4, 8, 20, 21, 255] {
                    out.push(Body::Raw(fixed_pref(v4, v6, cid_len)));
                }
            }
            // zero ip with a port is an address
            let mut b = fixed_pref(false, false, 4);
            b[5] = 1;
            out.push(Body::Raw(b));
            let full = fixed_pref(true, true, 8);
            for cut in [1usize, 16, 17, 25, full.len()] {
                out.push(Body::Raw(full[..full.len() - cut].to_vec()));
            }
            let mut long = full.clone();
            long.push(0);
            out.push(Body::Raw(long));
        }
    }
    out
}

fn enum_blocks() -> &'static Vec<Block> {
    static CACHE: OnceLock<Vec<Block>> = OnceLock::new();
    CACHE.get_or_init(|| {
        let mut out = vec![];
        for role in [Role::Client, Role::Server] {
            let mk = |params: Vec<Param>| Block { role, params, dups: vec![], cut: None };
            let base_without = |id: u64| base(role).into_iter().filter(|p| p.id != id).collect::<Vec<_>>();
            out.push(mk(vec![]));
            out.push(mk(base(role)));
            for r in TABLE {
                let vars = variants(r);
                for body in &vars {
                    let probe = plain(r.id, body.clone());
                    // alone, first, last
                    out.push(mk(vec![probe.clone()]));
                    let mut first = vec![probe.clone()];
                    first.extend(base_without(r.id));
                    out.push(mk(first));
                    let mut last = base_without(r.id);
                    last.push(probe);
                    out.push(mk(last));
                }
                // a value the table accepts, for the duplicate / id-width / length-width probes
                let good = match r.kind {
                    Kind::Int { min, .. } => Body::Int { v: min.max(3), w: W::Min },
                    Kind::Flag => Body::Raw(vec![]),
                    Kind::Token => Body::Raw(fixed_cid(0x10, 16)),
                    Kind::Cid { .. } => Body::Raw(fixed_cid(0xd0, 8)),
                    Kind::PreferredAddress => Body::Raw(fixed_pref(true, true, 8)),
                };
                let other = match r.kind {
                    Kind::Int { min, .. } => Body::Int { v: min.max(3) + 1, w: W::Min },
                    Kind::Cid { .. } => Body::Raw(fixed_cid(0xe0, 9)),
                    _ => good.clone(),
                };
                for (second, gap) in [(good.clone(), false), (good.clone(), true), (other.clone(), false), (other, true)] {
                    let mut ps = vec![plain(r.id, good.clone())];
                    if gap {
                        ps.extend(base_without(r.id));
                    }
                    ps.push(plain(r.id, second));
                    if !gap {
                        ps.extend(base_without(r.id));
                    }
                    out.push(mk(ps));
                }
                for id_w in [W::B1, W::B2, W::B4, W::B8] {
                    for len_w in [W::B1, W::B2, W::B4, W::B8] {
                        let mut ps = base_without(r.id);
                        ps.push(Param { id: r.id, id_w, len_w, body: good.clone() });
                        out.push(mk(ps));
                    }
                }
            }
            // unknown ids: GREASE, neighbours of the known ids and of s2n's private range, the extremes
            let grease_max = 31 * ((VMAX - 27) / 31) + 27;
            for id in [27u64, 58, 89, 31 * 1000 + 27, grease_max, 0x11, 0x12, 0x1f, 0x21, 0x3f, 0x40, 0xff, 0x2ab2, 0xdbffff, 0xdc0100, 0xff04de1b, VMAX] {
                assert!(!reserved_id(id));
                for len in [0usize, 1, 2, 16, 63, 64] {
                    for id_w in [W::Min, W::B8] {
                        let mut ps = base(role);
                        ps.insert(1, Param { id, id_w, len_w: W::Min, body: Body::Raw(fixed_cid(0x33, len)) });
                        out.push(mk(ps));
                    }
                }
                // the same unknown id twice
                let mut ps = base(role);
                ps.insert(0, plain(id, Body::Raw(vec![1])));
                ps.push(plain(id, Body::Raw(vec![2, 3])));
                out.push(mk(ps));
            }
            // the base block cut at every length
            let n = encode_block(&mk(base(role))).len();
            for c in 0..n {
                // pick_index(c', n) == c  for  c' = ceil(c * 65536 / n)
                let choice = ((c as u64 * 65536).div_ceil(n as u64)) as u16;
                assert_eq!(pick_index(choice, n), c);
                out.push(Block { role, params: base(role), dups: vec![], cut: Some(choice) });
            }
        }
        out
    })
}

// =======================================================================================
// "applied": conversions from accepted parameters to limits

#[derive(Clone, Copy, Debug, Hash, PartialEq, Eq, Serialize, Deserialize)]
pub enum LocalIdle {
    /// our own max_idle_timeout in ms
    Abs(u64),
    /// relative to the peer's
    Peer(i8),
}

#[derive(Clone, Debug, Hash, PartialEq, Eq, Serialize, Deserialize)]
pub struct Applied {
    /// who declared the parameters
    pub role: Role,
    /// one entry per integer row of the table, in table order; None = absent
    pub ints: Vec<Option<(u64, W)>>,
    pub disable_active_migration: bool,
    pub local_idle: LocalIdle,
    pub stream_ids: Vec<u64>,
    pub ack_delay_field: u64,
}

fn int_rows() -> Vec<&'static Row> {
    TABLE.iter().filter(|r| matches!(r.kind, Kind::Int { .. })).collect()
}

/// values the table accepts without latitude, biased to the bounds, mostly distinct
fn valid_int(kind: Kind) -> BoxedStrategy<u64> {
    let Kind::Int { min, max, latitude_above } = kind else { unreachable!() };
    let max = latitude_above.unwrap_or(max);
    let mut specials = vec![min, min + 1, max - 1, max];
    for p in VARINT_POINTS {
        if (min..=max).contains(p) {
            specials.push(*p);
        }
    }
    let span = max - min;
    prop_oneof![
        2 => proptest::sample::select(specials),
        3 => (0u64..=span.min(100_000)).prop_map(move |d| min + d),
        2 => (0u64..=span).prop_map(move |d| min + d),
    ]
    .boxed()
}

fn applied_strategy(_t: Tier) -> BoxedStrategy<Applied> {
    let ints: Vec<BoxedStrategy<Option<(u64, W)>>> = int_rows()
        .into_iter()
        .map(|r| {
            // (ack_delay_exponent only in its minimal width here: see the known finding)
            let w = if r.id == 0x0a { Just(W::Min).boxed() } else { w_any().boxed() };
            (prop::bool::weighted(0.7), valid_int(r.kind), w).prop_map(|(on, v, w)| on.then_some((v, w))).boxed()
        })
        .collect();
    let local = prop_oneof![
        2 => Just(LocalIdle::Abs(0)),
        3 => (-2i8..=2).prop_map(LocalIdle::Peer),
        3 => (1u64..200_000).prop_map(LocalIdle::Abs),
        1 => varint_value().prop_map(LocalIdle::Abs),
    ];
    let sid = prop_oneof![3 => 0u64..64, 1 => varint_value()];
    (
        prop_oneof![Just(Role::Client), Just(Role::Server)],
        ints,
        any::<bool>(),
        local,
        prop::collection::vec(sid, 4..=8),
        prop_oneof![2 => 0u64..100_000, 1 => varint_value()],
    )
        .prop_map(|(role, ints, disable_active_migration, local_idle, stream_ids, ack_delay_field)| Applied {
            role,
            ints,
            disable_active_migration,
            local_idle,
            stream_ids,
            ack_delay_field,
        })
        .boxed()
}

macro_rules! applied {
    ($cond:expr, $param:expr, $class:expr, $($arg:tt)*) => {
        if !($cond) {
            return Err(Fail::new(format!("C14:{}:{}:applied", $param, $class), format!($($arg)*)));
        }
    };
}

fn check_applied_params<A, B, C, D>(
    a: &Applied,
    p: &TransportParameters<A, B, C, D>,
    v: &Values,
    ctx: &str,
    obs: &mut Obs,
) -> CaseResult {
    let (bidi_local, bidi_remote, uni) = (v.int(0x05), v.int(0x06), v.int(0x07));

    // --- flow control: what the receiver may send / open ---
    let fc = p.flow_control_limits();
    // "initial_max_data (0x04): ... the initial value for the maximum amount of data that can be
    // sent on the connection"
    applied!(fc.max_data.as_u64() == v.int(0x04), "initial_max_data", "connection-limit", "{ctx}: connection send limit {} != declared initial_max_data {}", fc.max_data.as_u64(), v.int(0x04));
    // "initial_max_streams_bidi (0x08): ... the initial maximum number of bidirectional streams the
    // endpoint that receives this transport parameter is permitted to initiate" (from the
    // declarer's side these are the remotely opened streams)
    applied!(fc.max_open_remote_bidirectional_streams.as_u64() == v.int(0x08), "initial_max_streams_bidi", "stream-count-limit", "{ctx}: bidirectional stream limit {} != declared {}", fc.max_open_remote_bidirectional_streams.as_u64(), v.int(0x08));
    applied!(fc.max_open_remote_unidirectional_streams.as_u64() == v.int(0x09), "initial_max_streams_uni", "stream-count-limit", "{ctx}: unidirectional stream limit {} != declared {}", fc.max_open_remote_unidirectional_streams.as_u64(), v.int(0x09));
    let sl = p.stream_limits();
    applied!(sl == fc.stream_limits, "initial_max_stream_data", "inconsistent-conversions", "{ctx}: stream_limits() {sl:?} != flow_control_limits().stream_limits {:?}", fc.stream_limits);

    // per stream id (§18.2, by the two least significant bits of the stream id, §2.1:
    // 0x00 client-initiated bidi, 0x01 server-initiated bidi, 0x02 client-initiated uni,
    // 0x03 server-initiated uni). `max_data(declarer, id)` as used by stream/manager.rs
    // (`initial_peer_limits.stream_limits.max_data(local.peer_type(), id)`).
    let declarer = match a.role {
        Role::Client => endpoint::Type::Client,
        Role::Server => endpoint::Type::Server,
    };
    for &sid in &a.stream_ids {
        let sid = sid.min(VMAX);
        let want = match (a.role, sid & 3) {
            // "In client transport parameters, this [bidi_local] applies to streams with an identifier
            // with the least significant two bits set to 0x00; in server transport parameters ... 0x01."
            (Role::Client, 0) | (Role::Server, 1) => Some(bidi_local),
            // "In client transport parameters, this [bidi_remote] applies to ... 0x01; in server
            // transport parameters ... 0x00."
            (Role::Client, 1) | (Role::Server, 0) => Some(bidi_remote),
            // "In client transport parameters, this [uni] applies to ... 0x03; in server transport
            // parameters ... 0x02."
            (Role::Client, 3) | (Role::Server, 2) => Some(uni),
            // the declarer's own unidirectional streams: it never receives on them, no limit defined
            _ => None,
        };
        if let Some(want) = want {
            let got = sl.max_data(declarer, StreamId::from_varint(VarInt::new(sid).unwrap()));
            applied!(got.as_u64() == want, "initial_max_stream_data", "wrong-stream-type", "{ctx}: limit for stream {sid} (type bits {:#04b}) is {}, the {:?} declared {want} for it (bidi_local {bidi_local}, bidi_remote {bidi_remote}, uni {uni})", sid & 3, got.as_u64(), a.role);
        }
    }

    // --- acknowledgements ---
    let ack = p.ack_settings();
    // "max_ack_delay (0x0b): ... the maximum amount of time in milliseconds"
    applied!(ack.max_ack_delay == Duration::from_millis(v.int(0x0b)), "max_ack_delay", "ack-settings", "{ctx}: ack settings max_ack_delay {:?} != declared {} ms", ack.max_ack_delay, v.int(0x0b));
    applied!(ack.ack_delay_exponent as u64 == v.int(0x0a), "ack_delay_exponent", "ack-settings", "{ctx}: ack settings exponent {} != declared {}", ack.ack_delay_exponent, v.int(0x0a));
    // §19.3 "ACK Delay: ... It is decoded by multiplying the value in the field by 2 to the power of
    // the ack_delay_exponent transport parameter sent by the sender of the ACK frame" (microseconds)
    let field = a.ack_delay_field.min(VMAX);
    let want_us = (field as u128) << v.int(0x0a);
    let got = ack.decode_ack_delay(VarInt::new(field).unwrap());
    applied!(got.as_micros() == want_us, "ack_delay_exponent", "ack-delay-decoding", "{ctx}: ACK Delay field {field} decodes to {} us, RFC: {want_us} us", got.as_micros());

    // --- datagrams (RFC 9221 §3: "the maximum size of a DATAGRAM frame (including the frame type,
    // length, and payload) the endpoint is willing to receive, in bytes"; "The default for this
    // parameter is 0, which indicates that the endpoint does not support DATAGRAM frames") ---
    let dg = p.datagram_limits().max_datagram_payload;
    let frame = v.int(0x20);
    applied!(frame != 0 || dg == 0, "max_datagram_frame_size", "datagrams-without-support", "{ctx}: peer does not support DATAGRAM frames but the payload limit is {dg}");
    applied!(dg <= v.int(0x03), "max_udp_payload_size", "datagram-payload-limit", "{ctx}: datagram payload limit {dg} exceeds the declared max_udp_payload_size {}", v.int(0x03));

    // --- §7.4.1 remembered values ---
    let z = p.zero_rtt_parameters();
    applied!(
        z.active_connection_id_limit.as_u64() == v.int(0x0e)
            && z.initial_max_data.as_u64() == v.int(0x04)
            && z.initial_max_stream_data_bidi_local.as_u64() == bidi_local
            && z.initial_max_stream_data_bidi_remote.as_u64() == bidi_remote
            && z.initial_max_stream_data_uni.as_u64() == uni
            && z.initial_max_streams_bidi.as_u64() == v.int(0x08)
            && z.initial_max_streams_uni.as_u64() == v.int(0x09)
            && z.max_datagram_frame_size.as_u64() == frame,
        "zero_rtt_parameters",
        "wrong-value",
        "{ctx}: remembered 0-RTT values {z:?} differ from the declared ones"
    );

    // --- idle timeout (§10.1: "the effective value at an endpoint is computed as the minimum of
    // the two advertised values (or the sole advertised value, if only one endpoint advertises a
    // non-zero value)"; §18.2: "Idle timeout is disabled when both endpoints omit this transport
    // parameter or specify a value of 0.") ---
    let peer = v.int(0x01);
    let local = match a.local_idle {
        LocalIdle::Abs(x) => x.min(VMAX),
        LocalIdle::Peer(d) => peer.saturating_add_signed(d as i64).min(VMAX),
    };
    let mut limits = Limits::new()
        .with_max_idle_timeout(Duration::from_millis(local))
        .expect("harness: local idle timeout must be configurable");
    limits.load_peer(p);
    let want = match (local, peer) {
        (0, 0) => None,
        (0, x) | (x, 0) => Some(x),
        (x, y) => Some(x.min(y)),
    };
    let got = limits.max_idle_timeout();
    applied!(got == want.map(Duration::from_millis), "max_idle_timeout", "effective-value", "{ctx}: local max_idle_timeout {local} ms, peer {peer} ms: effective {got:?}, RFC: {want:?} ms");

    let present = a.ints.iter().filter(|x| x.is_some()).count();
    let distinct = bidi_local != bidi_remote && bidi_remote != uni && bidi_local != uni;
    obs.class_if(distinct, "stream-limits-distinct");
    obs.class_if(local != 0 && peer != 0 && local != peer, "idle-both-set-differ");
    obs.class_if(local == 0 || peer == 0, "idle-one-disabled");
    obs.class_if(frame > 0, "datagrams-supported");
    obs.nontrivial(present >= 3 && distinct && local != peer);
    Ok(())
}

pub fn check_applied(a: &Applied, obs: &mut Obs) -> CaseResult {
    let rows = int_rows();
    assert_eq!(rows.len(), a.ints.len(), "harness: Applied.ints must have one entry per integer row");
    let mut params = vec![];
    for (r, x) in rows.iter().zip(&a.ints) {
        if let Some((v, w)) = x {
            params.push(plain(r.id, Body::Int { v: *v, w: *w }));
        }
    }
    if a.disable_active_migration {
        params.push(plain(0x0c, Body::Raw(vec![])));
    }
    let bytes = encode_block(&Block { role: a.role, params, dups: vec![], cut: None });
    let ctx = format!("block {} sent by a {:?}", hex(&bytes), a.role);
    let j = judge(&bytes, a.role);
    if !j.rejects.is_empty() || !j.latitude.is_empty() {
        // only reachable through a hand-edited replay file
        obs.class("not-a-plainly-valid-block");
        return Ok(());
    }
    obs.units = j.known_params as u64;
    let decoded = match s2n_decode(&bytes, a.role) {
        Ok(d) => d,
        // same verdict (and key) as params_blocks
        Err(_) => return check_bytes(&bytes, a.role, &mut Obs::default()),
    };
    match &decoded {
        Decoded::Client(p) => {
            compare_common(p, &j.values, &ctx)?;
            check_applied_params(a, p, &j.values, &ctx, obs)?;
            reencode(p, a.role, &j.values, &ctx)?;
            datagram_overhead(p, &j.values, &ctx)
        }
        Decoded::Server(p) => {
            compare_common(p, &j.values, &ctx)?;
            check_applied_params(a, p, &j.values, &ctx, obs)?;
            reencode(p, a.role, &j.values, &ctx)?;
            datagram_overhead(p, &j.values, &ctx)
        }
    }
}

/// checked last so that a listed finding here does not hide the other conversions.
/// RFC 9221 §3: max_datagram_frame_size is "the maximum size of a DATAGRAM frame (including the
/// frame type, length, and payload)": a frame carrying n payload bytes is at least n + 1 bytes long,
/// so the largest payload the peer can take is at most max_datagram_frame_size - 1.
fn datagram_overhead<A, B, C, D>(p: &TransportParameters<A, B, C, D>, v: &Values, ctx: &str) -> CaseResult {
    let dg = p.datagram_limits().max_datagram_payload;
    let frame = v.int(0x20);
    applied!(frame == 0 || dg < frame, "max_datagram_frame_size", "payload-limit-ignores-frame-overhead", "{ctx}: datagram payload limit {dg} does not fit into a DATAGRAM frame of the declared max_datagram_frame_size {frame} (frame type byte + payload)");
    Ok(())
}

/// what s2n itself would send for these values must be acceptable to the table and declare the same
/// values (absent = default)
fn reencode<P: EncoderValue>(p: &P, role: Role, v: &Values, ctx: &str) -> CaseResult {
    let out = p.encode_to_vec();
    let j = judge(&out, role);
    applied!(j.rejects.is_empty(), "encoder", "emits-forbidden-block", "{ctx}: re-encoded by s2n as {}, which RFC 9000 forbids: {:?}", hex(&out), j.rejects.first().map(|w| &w.detail));
    applied!(
        j.values.ints == v.ints && j.values.disable_active_migration == v.disable_active_migration,
        "encoder",
        "changes-values",
        "{ctx}: re-encoded by s2n as {}, which declares {:?} instead of {:?}",
        hex(&out),
        j.values.ints,
        v.ints
    );
    Ok(())
}

// =======================================================================================

pub fn subs() -> Vec<Box<dyn SubCheck>> {
    vec![
        Box::new(EnumCheck::<Block> {
            name: "params_boundary_exhaustive",
            total: |_| enum_blocks().len() as u64,
            case: |_, i| enum_blocks()[i as usize].clone(),
            oracle: check_block,
        }),
        Box::new(PropCheck::<Block, _> {
            name: "params_blocks",
            cases: |t| t.pick(1_000_000, 100_000_000),
            strategy: block_strategy,
            oracle: check_block,
            max_shrink_iters: 20_000,
        }),
        Box::new(PropCheck::<Applied, _> {
            name: "params_applied",
            cases: |t| t.pick(300_000, 25_000_000),
            strategy: applied_strategy,
            oracle: check_applied,
            max_shrink_iters: 20_000,
        }),
    ]
}

pub fn property() -> Property {
    Property {
        id: "C14",
        rule: "transport-parameter blocks written by the check's own varint/TLV encoder: any subset of the RFC 9000 §18.2 \
               parameters + max_datagram_frame_size + GREASE/unknown ids (lengths 0..64), integer values from {0, 1, bound-1, \
               bound, bound+1, 2^62-1, random} in every varint width, non-minimal id/length varints, flag/token/connection-id/\
               preferred_address values of right and wrong lengths, values that are not exactly one varint, any order, 0-2 \
               duplicates, server-only parameters in client blocks, truncated blocks, both roles; judged by a table transcribed \
               from RFC 9000 §7.4/§18.2/§4.6 and RFC 9221 §3 and compared with Client/ServerTransportParameters::decode \
               (verdict both ways, every reported field on acceptance). params_boundary_exhaustive enumerates every \
               single-parameter boundary value x width x role x position (alone/first/last in a small valid block), all \
               duplicate pairs, id/length widths and truncations. params_applied: valid blocks -> flow_control_limits, \
               stream_limits().max_data per stream id, ack_settings (+ACK Delay decoding), datagram_limits, zero_rtt_parameters, \
               Limits::load_peer (idle timeout) and s2n's re-encoding against the RFC meaning. Non-trivial: block has >= 3 known \
               parameters and a value within 1 of a bound, or contains a duplicate / server-only-from-client / wrong-length \
               value; applied: >= 3 parameters, pairwise distinct stream-data limits and local != peer idle timeout. \
               Distinct = distinct generated cases.",
        assumptions: &[
            "the RFC table in c14_params.rs (one row per parameter, each citing its sentence) and the reference varint/TLV parser are the trusted base",
            "latitude (either outcome accepted): duplicates of unknown ids; max_udp_payload_size above 65527; original_destination_connection_id shorter than 8 bytes; preferred_address with both address families all-zero",
            "duplicates of known ids are required to be refused (RFC 9000 §7.4 says SHOULD; the property statement says refused)",
            "connection-id authentication against the handshake, the wire error code and the running connection's behaviour are not reachable at component level (end-to-end part of C14)",
            "s2n's private extension ids 0xdc0000..0xdc00ff are never generated",
        ],
        subs: subs(),
        shards: 0,
    }
}
