//! C15 (component level): `crypto::application::KeySet` (1-RTT key updates, AEAD limits)
//! driven as two communicating endpoints with an instrumented `OneRttKey` and compared
//! after every operation with an explicit per-endpoint model transcribed from RFC 9001 §6.
//!
//! The calling discipline mirrors `s2n-quic-transport/src/space/application.rs`:
//! * sending: `key_set.encrypt_packet(buffer, |buffer, key, phase| Short{..}.encode_packet(..))`
//! * receiving: `ProtectedPacket::decode` → `ProtectedShort::unprotect(header_key, largest_acked)`
//!   → `key_set.decrypt_packet(packet, largest_acked, now + pto)` where `largest_acked` is the
//!   largest received packet number for which the receiver has sent an ACK
//!   (`AckManager::largest_received_packet_number_acked`)
//! * `key_set.on_timeout(now)`, `timer::Provider::next_expiration`.
//!
//! Instrumented key: ciphertext = plaintext ∥ tag(secret, generation, pn, header, plaintext);
//! `derive_next_key` bumps the generation; `decrypt` recomputes the tag with its own
//! generation. So a packet decrypts exactly under the key generation that sealed it.

use proptest::prelude::*;
use s2n_codec::{DecoderBufferMut, EncoderBuffer};
use s2n_quic_core::{
    connection::{self, id::ConnectionInfo, ProcessingError},
    crypto::{
        application::{limited::Limits, KeySet},
        packet_protection, scatter,
        testing::HeaderKey,
        Key as CryptoKey, OneRttKey,
    },
    inet::SocketAddress,
    packet::{
        encoding::{PacketEncoder, PacketEncodingError},
        number::{PacketNumber, PacketNumberSpace},
        short::{Short, SpinBit},
        KeyPhase, ProtectedPacket,
    },
    time::{timer::Provider as _, Clock as _, Duration, NoopClock, Timestamp},
    transport,
    varint::VarInt,
};
use serde::{Deserialize, Serialize};
use std::sync::{
    atomic::{AtomicI64, AtomicU64, Ordering::Relaxed},
    Arc,
};
use vcore::{ensure_that, fail, gen::*, CaseResult, EnumCheck, Obs, PropCheck, Property, SubCheck, Tier};

// ---------------------------------------------------------------------------------------
// instrumented key

const TAG_LEN: usize = 16;
const DCID: [u8; 8] = [0xc1, 0x5c, 0x15, 0x0d, 0xc1, 0xd0, 0x00, 0x15];
const PAYLOAD_LEN: usize = 40;
const GENUINE_SECRET: u8 = 1;
const FOREIGN_SECRET: u8 = 2;

#[derive(Default)]
struct Probe {
    /// generation of the key whose `encrypt` ran during the current call (-1: none)
    enc_gen: AtomicI64,
    enc_calls: AtomicU64,
    /// generation of the key whose `decrypt` ran during the current call (-1: none)
    dec_gen: AtomicI64,
    dec_calls: AtomicU64,
}

impl Probe {
    fn reset(&self) {
        self.enc_gen.store(-1, Relaxed);
        self.enc_calls.store(0, Relaxed);
        self.dec_gen.store(-1, Relaxed);
        self.dec_calls.store(0, Relaxed);
    }
}

pub struct K {
    secret: u8,
    generation: u32,
    confidentiality_limit: u64,
    integrity_limit: u64,
    probe: Arc<Probe>,
}

#[inline]
fn mix(mut z: u64) -> u64 {
    z = (z ^ (z >> 30)).wrapping_mul(0xBF58_476D_1CE4_E5B9);
    z = (z ^ (z >> 27)).wrapping_mul(0x94D0_49BB_1331_11EB);
    z ^ (z >> 31)
}

fn compute_tag(secret: u8, generation: u32, pn: u64, header: &[u8], body: &[u8]) -> [u8; TAG_LEN] {
    let mut h = mix(0x243F_6A88_85A3_08D3 ^ ((secret as u64) << 40) ^ generation as u64);
    h = mix(h ^ pn.wrapping_mul(0x9E37_79B9_7F4A_7C15));
    h = mix(h ^ ((header.len() as u64) << 32) ^ body.len() as u64);
    for (i, b) in header.iter().chain(body.iter()).enumerate() {
        h = mix(h ^ ((i as u64) << 8) ^ *b as u64);
    }
    let mut out = [0u8; TAG_LEN];
    out[..8].copy_from_slice(&h.to_le_bytes());
    out[8..].copy_from_slice(&mix(h ^ 0xC15C_15C1_5C15_C15C).to_le_bytes());
    out
}

impl CryptoKey for K {
    fn decrypt(&self, packet_number: u64, header: &[u8], payload: &mut [u8]) -> Result<(), packet_protection::Error> {
        self.probe.dec_calls.fetch_add(1, Relaxed);
        self.probe.dec_gen.store(self.generation as i64, Relaxed);
        if payload.len() < TAG_LEN {
            return Err(packet_protection::Error::DECRYPT_ERROR);
        }
        let (body, tag) = payload.split_at(payload.len() - TAG_LEN);
        let expected = compute_tag(self.secret, self.generation, packet_number, header, body);
        if tag == expected {
            Ok(())
        } else {
            Err(packet_protection::Error::DECRYPT_ERROR)
        }
    }

    fn encrypt(&mut self, packet_number: u64, header: &[u8], payload: &mut scatter::Buffer) -> Result<(), packet_protection::Error> {
        use s2n_codec::Encoder;
        self.probe.enc_calls.fetch_add(1, Relaxed);
        self.probe.enc_gen.store(self.generation as i64, Relaxed);
        let buffer = payload.flatten();
        let tag = {
            let (body, _) = buffer.split_mut();
            compute_tag(self.secret, self.generation, packet_number, header, body)
        };
        buffer.write_slice(&tag);
        Ok(())
    }

    fn tag_len(&self) -> usize {
        TAG_LEN
    }

    fn aead_confidentiality_limit(&self) -> u64 {
        self.confidentiality_limit
    }

    fn aead_integrity_limit(&self) -> u64 {
        self.integrity_limit
    }

    fn cipher_suite(&self) -> s2n_quic_core::crypto::tls::CipherSuite {
        s2n_quic_core::crypto::tls::CipherSuite::Unknown
    }
}

impl OneRttKey for K {
    fn derive_next_key(&self) -> Self {
        K {
            secret: self.secret,
            generation: self.generation + 1,
            confidentiality_limit: self.confidentiality_limit,
            integrity_limit: self.integrity_limit,
            probe: self.probe.clone(),
        }
    }
}

// ---------------------------------------------------------------------------------------
// case description

#[derive(Clone, Debug, Hash, PartialEq, Eq, Serialize, Deserialize)]
pub enum Op {
    /// endpoint `side` (0 = A, 1 = B) seals its next packet number; `ack`: the packet carries
    /// an ACK of everything the endpoint has received so far
    Enc { side: u8, ack: bool },
    /// `n` consecutive `Enc`
    Burst { side: u8, n: u8, ack: bool },
    /// deliver one in-flight packet to endpoint `to`; `keep`: a copy stays in flight (duplicate)
    Deliver { to: u8, pick: u16, keep: bool },
    /// deliver everything in flight to `to`, in send order or reversed
    Flush { to: u8, reverse: bool },
    /// lose one in-flight packet
    Drop { to: u8, pick: u16 },
    /// deliver a damaged copy of an in-flight packet (the original stays in flight)
    Corrupt { to: u8, pick: u16, byte: u16, mask: u8 },
    /// deliver a well-formed packet sealed with a key of another secret, claiming generation
    /// `G + gen_delta` of the receiver and a packet number near its largest received
    Foreign { to: u8, gen_delta: i8, pn_delta: i8 },
    /// advance the clock by `dt_ms` and call `on_timeout` on `side` (2 = both)
    Tick { side: u8, dt_ms: u16 },
    /// advance the clock to `deadline + delta_ms` of the derivation timer of `side` (if armed) and
    /// call `on_timeout` there
    TickToDeadline { side: u8, delta_ms: i8 },
}

#[derive(Clone, Debug, Hash, PartialEq, Eq, Serialize, Deserialize)]
pub struct Case {
    /// confidentiality limit of the cipher suite (packets per key), 3..=40
    pub conf_limit: u8,
    /// integrity limit (failed decryptions per connection), 1..=20
    pub integ_limit: u8,
    /// `Limits::key_update_window`, clamped to `conf_limit`
    pub window: u8,
    /// the PTO added to `now` for the derivation timer argument of `decrypt_packet`
    pub pto_ms: u16,
    /// scheduling constraints resolved in the interpreter (bit 0: a delayed packet of the
    /// previous generation that would arrive while the receiver still retains the previous
    /// key is lost instead; bit 1: an endpoint that has to start its next key update while
    /// its derivation timer is still pending first waits for that timer)
    pub sched: u8,
    pub ops: Vec<Op>,
}

// ---------------------------------------------------------------------------------------
// harness wire + endpoint model

#[derive(Clone, Debug)]
struct WirePkt {
    bytes: Vec<u8>,
    pn: u64,
    /// generation of the key that sealed it (observed through the instrumented key)
    generation: u32,
    plaintext: Vec<u8>,
    ack_largest: Option<u64>,
}

struct End {
    name: &'static str,
    ks: KeySet<K>,
    probe: Arc<Probe>,
    // ---- model (RFC 9001 §6 transcription) ----
    /// current key generation (number of completed key updates)
    g: u32,
    /// `Some(deadline)`: the other key slot still holds generation g-1 (retained old read key,
    /// next keys not created yet); `None`: it holds generation g+1
    prev_until: Option<u64>,
    /// packets sealed per generation
    cnt: Vec<u64>,
    max_sent_gen: Option<u32>,
    failures: u64,
    closed: bool,
    // ---- ACK model ----
    next_pn: u64,
    /// largest own packet number the peer is known to have acknowledged
    acked_by_peer: u64,
    largest_recv: Option<u64>,
    /// largest received packet number for which an ACK has been sent
    largest_recv_acked: u64,
}

impl End {
    fn new(name: &'static str, l: u64, i: u64, w: u64) -> Self {
        let probe = Arc::new(Probe::default());
        let key = K { secret: GENUINE_SECRET, generation: 0, confidentiality_limit: l, integrity_limit: i, probe: probe.clone() };
        let mut limits = Limits::default();
        limits.key_update_window = w;
        End {
            name,
            ks: KeySet::new(key, limits),
            probe,
            g: 0,
            prev_until: None,
            cnt: vec![0; 4],
            max_sent_gen: None,
            failures: 0,
            closed: false,
            next_pn: 0,
            acked_by_peer: 0,
            largest_recv: None,
            largest_recv_acked: 0,
        }
    }

    fn count(&self, generation: u32) -> u64 {
        self.cnt.get(generation as usize).copied().unwrap_or(0)
    }

    fn bump(&mut self, generation: u32) -> u64 {
        if self.cnt.len() <= generation as usize {
            self.cnt.resize(generation as usize + 2, 0);
        }
        self.cnt[generation as usize] += 1;
        self.cnt[generation as usize]
    }

    /// generations of the two keys the endpoint holds
    fn holds(&self, generation: u32) -> bool {
        generation == self.g
            || match self.prev_until {
                Some(_) => generation + 1 == self.g,
                None => generation == self.g + 1,
            }
    }
}

fn pn_of(v: u64) -> PacketNumber {
    PacketNumberSpace::ApplicationData.new_packet_number(VarInt::new(v).unwrap())
}

fn phase_of(generation: u32) -> KeyPhase {
    KeyPhase::from((generation & 1) as u8)
}

fn ts(ms: u64) -> Timestamp {
    NoopClock.get_time() + Duration::from_millis(ms)
}

fn is_aead_limit(e: &ProcessingError) -> bool {
    matches!(e, ProcessingError::ConnectionError(connection::Error::Transport { code, .. }) if *code == transport::Error::AEAD_LIMIT_REACHED.code)
}

struct World {
    l: u64,
    i: u64,
    w: u64,
    pto_ms: u64,
    sched: u8,
    now_ms: u64,
    ends: [End; 2],
    /// wire[d]: packets in flight towards endpoint d
    wire: [Vec<WirePkt>; 2],
    header_key: HeaderKey,
    // statistics for the non-triviality rule / classes
    old_after_new: [u32; 2],
    limit_hit: bool,
    refusals: u32,
    closes: u32,
    steps: u64,
}

enum Sealed {
    Packet(WirePkt, KeyPhase),
    /// `key_used`: a key was handed out / used although the call then reported the limit
    Refused { key_used: bool },
}

impl World {
    fn new(case: &Case) -> Self {
        let l = case.conf_limit.clamp(1, 60) as u64;
        let i = case.integ_limit.clamp(1, 40) as u64;
        let w = (case.window as u64).min(l);
        World {
            l,
            i,
            w,
            pto_ms: case.pto_ms.max(1) as u64,
            sched: case.sched,
            now_ms: 10,
            ends: [End::new("A", l, i, w), End::new("B", l, i, w)],
            wire: [vec![], vec![]],
            header_key: HeaderKey::new(),
            old_after_new: [0; 2],
            limit_hit: false,
            refusals: 0,
            closes: 0,
            steps: 0,
        }
    }

    // ---- sending --------------------------------------------------------------------

    fn seal(&mut self, side: usize, ack: bool) -> Sealed {
        let e = &mut self.ends[side];
        let pn = e.next_pn;
        let ack_largest = if ack { e.largest_recv } else { None };
        let mut plaintext = vec![0u8; PAYLOAD_LEN];
        prf_fill(0xc15_0000 + side as u64, pn * PAYLOAD_LEN as u64, &mut plaintext);
        plaintext[0] = 0x01;
        plaintext[1] = ack_largest.is_some() as u8;
        plaintext[2..10].copy_from_slice(&ack_largest.unwrap_or(0).to_le_bytes());

        let mut buf = [0u8; 128];
        let header_key = &self.header_key;
        let largest_acked = pn_of(e.acked_by_peer);
        let packet_number = pn_of(pn);
        let mut phase_seen = None;
        e.probe.reset();
        let payload: &[u8] = &plaintext;
        let res = e.ks.encrypt_packet(EncoderBuffer::new(&mut buf), |buffer, key, key_phase| {
            phase_seen = Some(key_phase);
            let packet = Short {
                spin_bit: SpinBit::Zero,
                key_phase,
                destination_connection_id: &DCID[..],
                packet_number,
                payload,
            };
            packet.encode_packet(key, header_key, largest_acked, None, buffer)
        });
        match res {
            Ok((protected, _remaining)) => {
                let len = protected.len();
                let generation = e.probe.enc_gen.load(Relaxed);
                assert!(generation >= 0 && e.probe.enc_calls.load(Relaxed) == 1, "harness: sealed without exactly one key.encrypt call");
                Sealed::Packet(
                    WirePkt { bytes: buf[..len].to_vec(), pn, generation: generation as u32, plaintext, ack_largest },
                    phase_seen.expect("closure ran"),
                )
            }
            Err(PacketEncodingError::AeadLimitReached(_)) => Sealed::Refused { key_used: phase_seen.is_some() || e.probe.enc_calls.load(Relaxed) != 0 },
            Err(other) => panic!("harness: unexpected packet encoding error {other:?}"),
        }
    }

    fn enc(&mut self, step: usize, side: usize, ack: bool, obs: &mut Obs) -> CaseResult {
        if self.ends[side].closed {
            return Ok(());
        }
        let (l, w) = (self.l, self.w);
        // scheduling constraint (bit 1): wait for the pending derivation timer first
        {
            let e = &self.ends[side];
            if self.sched & 2 != 0 && e.count(e.g) > l.saturating_sub(w) {
                if let Some(deadline) = e.prev_until {
                    self.now_ms = self.now_ms.max(deadline);
                    self.timeout(side);
                }
            }
        }
        let sealed = self.seal(side, ack);
        let e = &mut self.ends[side];
        let name = e.name;
        let g = e.g;
        // ---- model: which key must be used ----
        //= RFC 9001 §6.6: Endpoints MUST initiate a key update before sending more protected
        //= packets than the confidentiality limit for the selected AEAD permits.
        // (documented knob: the update is due once the count exceeds limit - key_update_window)
        let update_due = e.count(g) > l.saturating_sub(w);
        let initiated = e.max_sent_gen.map_or(false, |m| m > g);
        let next_available = e.prev_until.is_none();
        // preferred key; while the next keys do not exist yet the current ones stay in use
        let preferred = if next_available && (update_due || initiated) { g + 1 } else { g };
        // failure-class suffix: the situation in which the next keys are wanted but do not exist yet
        let ctx = if update_due && !next_available { ":update-due-while-old-key-retained" } else { "" };
        match sealed {
            Sealed::Refused { key_used } => {
                self.refusals += 1;
                obs.class("encrypt-refused");
                ensure_that!(
                    !key_used,
                    "keyset:refusal-after-sealing",
                    "step {step}: {name} encrypt_packet returned AeadLimitReached after a key had already been used to seal the packet"
                );
                //= RFC 9001 §6.6: If the total number of encrypted packets with the same key exceeds
                //= the confidentiality limit for the selected AEAD, the endpoint MUST stop using those keys.
                ensure_that!(
                    e.count(preferred) >= l,
                    format!("keyset:refused-before-limit{ctx}"),
                    "step {step}: {name} encrypt_packet returned AeadLimitReached although the key to use (generation {preferred}, current {g}, next keys available: {next_available}) has sealed only {} of {l} packets",
                    e.count(preferred)
                );
            }
            Sealed::Packet(pkt, phase) => {
                let u = pkt.generation;
                let used_before = e.count(u);
                ensure_that!(
                    used_before < l,
                    "keyset:confidentiality-limit-exceeded",
                    "step {step}: {name} sealed pn {} with the generation-{u} key which had already sealed {used_before} packets (limit {l})",
                    pkt.pn
                );
                //= RFC 9001 §6.4: Packets with higher packet numbers MUST be protected with either the
                //= same or newer packet protection keys than packets with lower packet numbers.
                if let Some(m) = e.max_sent_gen {
                    ensure_that!(
                        u >= m,
                        format!("keyset:older-key-for-higher-pn{ctx}"),
                        "step {step}: {name} sealed pn {} with the generation-{u} key after having sealed a lower packet number with generation {m} (current generation {g}, old key retained: {}, packets sealed with current key: {}, limit {l}, window {w})",
                        pkt.pn,
                        !next_available,
                        e.count(g)
                    );
                }
                //= RFC 9001 §6.2: The endpoint MUST update its send keys to the corresponding key phase in response
                ensure_that!(
                    u >= g,
                    format!("keyset:send-key-older-than-read-key{ctx}"),
                    "step {step}: {name} sealed pn {} with the generation-{u} key although it has already switched to generation {g} after receiving a packet with those keys",
                    pkt.pn
                );
                ensure_that!(
                    u == g || (u == g + 1 && next_available),
                    "keyset:sealed-with-unknown-key",
                    "step {step}: {name} sealed pn {} with generation {u}, current generation {g}, next available {next_available}",
                    pkt.pn
                );
                ensure_that!(
                    !(update_due && next_available && u == g),
                    "keyset:update-not-initiated",
                    "step {step}: {name} sealed pn {} with the current generation-{g} key which has already sealed {} packets: a key update was due after limit - window = {l} - {w} packets",
                    pkt.pn,
                    e.count(g)
                );
                //= RFC 9001 §6: The Key Phase bit is initially set to 0 for the first set of 1-RTT
                //= packets and toggled to signal each subsequent key update.
                ensure_that!(
                    phase == phase_of(u),
                    "keyset:key-phase-bit",
                    "step {step}: {name} sealed pn {} with generation {u} but key phase bit {phase:?}",
                    pkt.pn
                );
                if e.count(preferred) >= l {
                    // only reachable when the implementation chose the other permitted key
                    obs.class("alt-key-when-preferred-exhausted");
                }
                let now_used = e.bump(u);
                if now_used == l {
                    self.limit_hit = true;
                }
                obs.class_if(u == g + 1, "sealed-with-next-key");
                e.max_sent_gen = Some(u);
                e.next_pn += 1;
                if let Some(a) = pkt.ack_largest {
                    e.largest_recv_acked = e.largest_recv_acked.max(a);
                }
                self.wire[1 - side].push(pkt);
            }
        }
        Ok(())
    }

    // ---- receiving ------------------------------------------------------------------

    /// Runs the receive path on raw bytes. `genuine`: the in-flight packet it is (a copy of).
    fn receive(&mut self, step: usize, to: usize, mut bytes: Vec<u8>, genuine: Option<&WirePkt>, what: &str, obs: &mut Obs) -> CaseResult {
        let now_ms = self.now_ms;
        let pto_ms = self.pto_ms;
        let integrity_limit = self.i;
        let e = &mut self.ends[to];
        if e.closed {
            return Ok(());
        }
        let name = e.name;
        let remote = SocketAddress::default();
        let info = ConnectionInfo::new(&remote);
        let largest_acked = pn_of(e.largest_recv_acked);
        let decoded = ProtectedPacket::decode(DecoderBufferMut::new(&mut bytes), &info, &DCID.len());
        let protected = match decoded {
            Ok((ProtectedPacket::Short(p), _)) => p,
            // damaged beyond being a 1-RTT packet: never reaches the key set
            _ => {
                obs.class("undecodable");
                return Ok(());
            }
        };
        let encrypted = match protected.unprotect(&self.header_key, largest_acked) {
            Ok(p) => p,
            Err(_) => {
                obs.class("undecodable");
                return Ok(());
            }
        };
        let seen_pn = encrypted.packet_number.as_u64();
        let seen_phase = encrypted.key_phase();
        let deadline_ms = now_ms + pto_ms;
        e.probe.reset();
        let phase_before = e.ks.key_phase();
        let result = e.ks.decrypt_packet(encrypted, largest_acked, ts(deadline_ms));
        let dec_gen = e.probe.dec_gen.load(Relaxed);
        // (trial decryption with several keys is not forbidden; `dec_gen` is the last key tried)

        // ---- model: must this packet decrypt? ----
        let g = e.g;
        let expected_ok = match genuine {
            Some(p) => seen_pn == p.pn && e.holds(p.generation),
            None => false,
        };
        if let Some(p) = genuine {
            obs.class_if(seen_pn != p.pn, "pn-misexpanded");
        }
        match result {
            Ok((clear, rotated)) => {
                let Some(p) = genuine else {
                    fail!("keyset:forgery-accepted", "step {step}: {name} accepted {what} (decrypted by its generation-{dec_gen} key)");
                };
                ensure_that!(
                    dec_gen == p.generation as i64 && seen_pn == p.pn,
                    "keyset:decrypt-under-wrong-key",
                    "step {step}: {name} decrypted pn {} (sealed with generation {}) as pn {seen_pn} with its generation-{dec_gen} key",
                    p.pn,
                    p.generation
                );
                ensure_that!(
                    expected_ok,
                    "keyset:decrypt-with-key-not-held",
                    "step {step}: {name} (generation {g}, other slot holds {}) decrypted pn {} of generation {}: that key should have been discarded / not been created yet",
                    if e.prev_until.is_some() { "previous" } else { "next" },
                    p.pn,
                    p.generation
                );
                let payload = clear.payload.into_less_safe_slice();
                ensure_that!(
                    payload == &p.plaintext[..] && clear.packet_number.as_u64() == p.pn,
                    "keyset:plaintext-mismatch",
                    "step {step}: {name} decrypted pn {} to a different plaintext / packet number",
                    p.pn
                );
                if p.generation == g + 1 {
                    //= RFC 9001 §6.2: peer-initiated (or completed own) key update
                    e.g += 1;
                    e.prev_until = Some(deadline_ms);
                    ensure_that!(
                        rotated == Some(e.g as u16),
                        "keyset:update-not-reported",
                        "step {step}: {name} decrypted the first packet of generation {} but reported {rotated:?}",
                        e.g
                    );
                    obs.class_if(e.max_sent_gen.map_or(true, |m| m < e.g), "peer-initiated-update");
                    obs.class_if(e.max_sent_gen.map_or(false, |m| m >= e.g), "own-update-confirmed");
                } else {
                    // a packet of the current or of the retained previous generation never
                    // changes the keys in use
                    //= RFC 9001 §6.4 / §6.5: delayed packets are processed with the retained old keys
                    ensure_that!(
                        rotated.is_none() && e.ks.key_phase() == phase_before,
                        "keyset:old-packet-rotates-keys",
                        "step {step}: {name} (generation {g}, previous key retained) received delayed pn {} of generation {} and switched its key phase {phase_before:?} -> {:?} (reported generation {rotated:?}): it now sends and expects generation {} again",
                        p.pn,
                        p.generation,
                        e.ks.key_phase(),
                        p.generation
                    );
                    if p.generation + 1 == g {
                        self.old_after_new[to] += 1;
                        obs.class("old-generation-after-new");
                    }
                }
                if e.largest_recv.map_or(false, |m| m >= p.pn) {
                    obs.class("reordered-or-duplicate-delivery");
                }
                e.largest_recv = Some(e.largest_recv.map_or(p.pn, |m| m.max(p.pn)));
                if let Some(a) = p.ack_largest {
                    e.acked_by_peer = e.acked_by_peer.max(a);
                }
            }
            Err(err) => {
                if let (true, Some(p)) = (expected_ok, genuine) {
                    let rel = if p.generation == g { "current" } else if p.generation == g + 1 { "next" } else { "previous" };
                    fail!(
                        format!("keyset:genuine-packet-rejected:{rel}"),
                        "step {step}: {name} (generation {g}, other slot holds {}) failed to decrypt genuine pn {} of generation {} (phase bit {seen_phase:?}, tried its generation-{dec_gen} key): {err:?}",
                        if e.prev_until.is_some() { "previous" } else { "next" },
                        p.pn,
                        p.generation
                    );
                }
                if let Some(p) = genuine {
                    obs.class_if(seen_pn == p.pn && p.generation + 1 == g, "old-generation-after-key-discarded");
                    obs.class_if(seen_pn == p.pn && p.generation == g + 1, "next-generation-before-keys-derived");
                    obs.class_if(seen_pn == p.pn && (p.generation > g + 1 || p.generation + 1 < g), "generation-out-of-reach");
                }
                //= RFC 9001 §6.6: endpoints MUST count the number of received packets that fail
                //= authentication during the lifetime of a connection [...] across all keys
                e.failures += 1;
                let limit_reached = e.failures >= integrity_limit;
                if limit_reached {
                    ensure_that!(
                        is_aead_limit(&err),
                        "keyset:integrity-limit-not-enforced",
                        "step {step}: {name} failed to authenticate packet number {} ({what}); that is failure {} with integrity limit {integrity_limit}, but the call returned {err:?} instead of AEAD_LIMIT_REACHED",
                        seen_pn,
                        e.failures
                    );
                    e.closed = true;
                    self.closes += 1;
                    obs.class("closed-aead-limit");
                } else {
                    ensure_that!(
                        !is_aead_limit(&err),
                        "keyset:integrity-limit-early",
                        "step {step}: {name} returned AEAD_LIMIT_REACHED at failure {} with integrity limit {integrity_limit}",
                        e.failures
                    );
                    ensure_that!(
                        matches!(err, ProcessingError::DecryptError),
                        "keyset:decrypt-error-kind",
                        "step {step}: {name} returned {err:?} for a packet that fails authentication ({what})"
                    );
                }
            }
        }
        Ok(())
    }

    fn deliver(&mut self, step: usize, to: usize, idx: usize, keep: bool, obs: &mut Obs) -> CaseResult {
        if self.wire[to].is_empty() {
            return Ok(());
        }
        let pkt = if keep { self.wire[to][idx].clone() } else { self.wire[to].remove(idx) };
        obs.class_if(keep, "duplicate-kept");
        let e = &self.ends[to];
        if self.sched & 1 != 0 && e.prev_until.is_some() && pkt.generation + 1 == e.g {
            // scheduling constraint (bit 0): this delayed packet is lost
            return Ok(());
        }
        self.receive(step, to, pkt.bytes.clone(), Some(&pkt), "a genuine packet", obs)
    }

    fn corrupt(&mut self, step: usize, to: usize, idx: usize, byte: u16, mask: u8, obs: &mut Obs) -> CaseResult {
        if self.wire[to].is_empty() {
            return Ok(());
        }
        let mut bytes = self.wire[to][idx].bytes.clone();
        let at = pick_index(byte, bytes.len());
        let mut mask = if mask == 0 { 1 } else { mask };
        if at == 0 {
            // keep it a short-header packet (header form / fixed bit untouched)
            mask &= 0x3f;
            if mask == 0 {
                mask = 0x04;
            }
        }
        bytes[at] ^= mask;
        obs.class_if(at == 0 && mask & 0x04 != 0, "corrupt-key-phase-bit");
        obs.class("corrupted-copy");
        let what = format!("a copy of pn {} with byte {at} xor {mask:#x}", self.wire[to][idx].pn);
        self.receive(step, to, bytes, None, &what, obs)
    }

    fn foreign(&mut self, step: usize, to: usize, gen_delta: i8, pn_delta: i8, obs: &mut Obs) -> CaseResult {
        let e = &self.ends[to];
        let generation = (e.g as i64 + gen_delta as i64).max(0) as u32;
        let pn = (e.largest_recv.unwrap_or(0) as i64 + pn_delta as i64).max(0) as u64;
        let mut key = K { secret: FOREIGN_SECRET, generation, confidentiality_limit: 1 << 20, integrity_limit: 1 << 20, probe: Arc::new(Probe::default()) };
        let mut buf = [0u8; 128];
        let payload = prf_vec(0xf0e1, pn, PAYLOAD_LEN);
        let packet = Short {
            spin_bit: SpinBit::Zero,
            key_phase: phase_of(generation),
            destination_connection_id: &DCID[..],
            packet_number: pn_of(pn),
            payload: &payload[..],
        };
        let len = match packet.encode_packet(&mut key, &self.header_key, pn_of(e.largest_recv_acked.min(pn)), None, EncoderBuffer::new(&mut buf)) {
            Ok((p, _)) => p.len(),
            Err(err) => panic!("harness: cannot encode foreign packet: {err:?}"),
        };
        obs.class("foreign-key-packet");
        let what = format!("pn {pn} sealed with a foreign key claiming generation {generation}");
        self.receive(step, to, buf[..len].to_vec(), None, &what, obs)
    }

    // ---- time -----------------------------------------------------------------------

    fn timeout(&mut self, side: usize) {
        let now = self.now_ms;
        let e = &mut self.ends[side];
        if e.closed {
            return;
        }
        e.ks.on_timeout(ts(now));
        //= RFC 9001 §6.5: An endpoint SHOULD retain old read keys for no more than three times the
        //= PTO after having received a packet protected using the new keys. After this period, old
        //= read keys and their corresponding secrets SHOULD be discarded.
        if let Some(deadline) = e.prev_until {
            if now >= deadline {
                e.prev_until = None;
            }
        }
    }

    // ---- after every op -------------------------------------------------------------

    fn compare(&self, step: usize, op: &Op) -> CaseResult {
        for e in &self.ends {
            if e.closed {
                continue;
            }
            let name = e.name;
            ensure_that!(
                e.ks.key_phase() == phase_of(e.g),
                "keyset:key-phase-state",
                "step {step} {op:?}: {name} key_phase() is {:?}, model generation {}",
                e.ks.key_phase(),
                e.g
            );
            ensure_that!(
                e.ks.key_update_in_progress() == e.prev_until.is_some(),
                "keyset:update-in-progress-state",
                "step {step} {op:?}: {name} key_update_in_progress() is {}, model: previous key retained until {:?} (now {})",
                e.ks.key_update_in_progress(),
                e.prev_until,
                self.now_ms
            );
            let exp = e.prev_until.map(ts);
            ensure_that!(
                e.ks.next_expiration() == exp,
                "keyset:derivation-timer",
                "step {step} {op:?}: {name} derivation timer {:?}, model {:?}",
                e.ks.next_expiration(),
                exp
            );
            ensure_that!(
                e.ks.active_key().encrypted_packets() == e.count(e.g),
                "keyset:encrypt-counter",
                "step {step} {op:?}: {name} active key (generation {}) reports {} sealed packets, {} were sealed with it",
                e.g,
                e.ks.active_key().encrypted_packets(),
                e.count(e.g)
            );
            for (generation, c) in e.cnt.iter().enumerate() {
                ensure_that!(
                    *c <= self.l,
                    "keyset:confidentiality-limit-exceeded",
                    "step {step} {op:?}: {name} sealed {c} packets with generation {generation} (limit {})",
                    self.l
                );
            }
        }
        Ok(())
    }

    fn apply(&mut self, step: usize, op: &Op, obs: &mut Obs) -> CaseResult {
        self.steps += 1;
        match *op {
            Op::Enc { side, ack } => self.enc(step, side as usize & 1, ack, obs)?,
            Op::Burst { side, n, ack } => {
                for _ in 0..n {
                    self.enc(step, side as usize & 1, ack, obs)?;
                }
            }
            Op::Deliver { to, pick, keep } => {
                let to = to as usize & 1;
                let idx = pick_index(pick, self.wire[to].len());
                self.deliver(step, to, idx, keep, obs)?
            }
            Op::Flush { to, reverse } => {
                let to = to as usize & 1;
                while !self.wire[to].is_empty() {
                    let idx = if reverse { self.wire[to].len() - 1 } else { 0 };
                    self.deliver(step, to, idx, false, obs)?;
                }
            }
            Op::Drop { to, pick } => {
                let to = to as usize & 1;
                if !self.wire[to].is_empty() {
                    let idx = pick_index(pick, self.wire[to].len());
                    self.wire[to].remove(idx);
                }
            }
            Op::Corrupt { to, pick, byte, mask } => {
                let to = to as usize & 1;
                let idx = pick_index(pick, self.wire[to].len());
                self.corrupt(step, to, idx, byte, mask, obs)?
            }
            Op::Foreign { to, gen_delta, pn_delta } => self.foreign(step, to as usize & 1, gen_delta, pn_delta, obs)?,
            Op::Tick { side, dt_ms } => {
                self.now_ms += dt_ms as u64;
                for s in 0..2 {
                    if side as usize == s || side >= 2 {
                        self.timeout(s);
                    }
                }
            }
            Op::TickToDeadline { side, delta_ms } => {
                let s = side as usize & 1;
                if let Some(deadline) = self.ends[s].prev_until {
                    let target = (deadline as i64 + delta_ms as i64).max(0) as u64;
                    self.now_ms = self.now_ms.max(target);
                    self.timeout(s);
                    obs.class_if(delta_ms < 0 && self.ends[s].prev_until.is_some(), "timeout-just-before-deadline");
                    obs.class_if(delta_ms == 0, "timeout-at-deadline");
                }
            }
        }
        self.compare(step, op)
    }
}

pub fn run_case(case: &Case, obs: &mut Obs) -> CaseResult {
    let mut w = World::new(case);
    for (step, op) in case.ops.iter().enumerate() {
        w.apply(step, op, obs)?;
    }
    let two_updates = w.ends[0].g >= 2 && w.ends[1].g >= 2;
    let reordered = w.old_after_new[0] + w.old_after_new[1] >= 1;
    obs.units = w.steps;
    obs.nontrivial((two_updates && reordered) || w.limit_hit);
    obs.class_if(two_updates, "two-updates-both-sides");
    obs.class_if(two_updates && reordered, "two-updates-with-reordering");
    obs.class_if(w.ends[0].g >= 6 && w.ends[1].g >= 6, "six-updates-both-sides");
    obs.class_if(w.limit_hit, "confidentiality-limit-hit-exactly");
    obs.class_if(w.sched & 1 != 0, "sched-late-old-packets-lost");
    obs.class_if(w.sched & 2 != 0, "sched-wait-for-derivation");
    obs.class_if(w.w == 0, "window-0");
    obs.class_if(w.w >= w.l, "window-full");
    Ok(())
}

// ---------------------------------------------------------------------------------------
// generator

fn side() -> impl Strategy<Value = u8> {
    0u8..2
}

fn op_strategy() -> impl Strategy<Value = Op> {
    prop_oneof![
        10 => (side(), prop::bool::weighted(0.7)).prop_map(|(side, ack)| Op::Enc { side, ack }),
        3 => (side(), 1u8..=10, prop::bool::weighted(0.7)).prop_map(|(side, n, ack)| Op::Burst { side, n, ack }),
        10 => (side(), any::<u16>(), prop::bool::weighted(0.12)).prop_map(|(to, pick, keep)| Op::Deliver { to, pick, keep }),
        3 => (side(), Just(0u16), Just(false)).prop_map(|(to, pick, keep)| Op::Deliver { to, pick, keep }),
        2 => (side(), Just(u16::MAX), Just(false)).prop_map(|(to, pick, keep)| Op::Deliver { to, pick, keep }),
        2 => (side(), prop::bool::weighted(0.3)).prop_map(|(to, reverse)| Op::Flush { to, reverse }),
        1 => (side(), any::<u16>()).prop_map(|(to, pick)| Op::Drop { to, pick }),
        1 => (side(), any::<u16>(), any::<u16>(), prop_oneof![Just(0x04u8), Just(0x01), Just(0x80), any::<u8>()]).prop_map(|(to, pick, byte, mask)| Op::Corrupt { to, pick, byte, mask }),
        1 => (side(), any::<u16>(), Just(0u16), Just(0x04u8)).prop_map(|(to, pick, byte, mask)| Op::Corrupt { to, pick, byte, mask }),
        1 => (side(), -2i8..=2, -3i8..=3).prop_map(|(to, gen_delta, pn_delta)| Op::Foreign { to, gen_delta, pn_delta }),
        3 => (0u8..3, prop_oneof![0u16..4, 0u16..60, 0u16..400]).prop_map(|(side, dt_ms)| Op::Tick { side, dt_ms }),
        3 => (side(), prop_oneof![Just(0i8), Just(-1), Just(1), -20i8..20]).prop_map(|(side, delta_ms)| Op::TickToDeadline { side, delta_ms }),
    ]
}

fn case_strategy(_t: Tier) -> impl Strategy<Value = Case> {
    (
        prop_oneof![2 => 3u8..=6, 3 => 3u8..=40],
        prop_oneof![1 => 1u8..=4, 3 => 1u8..=20, 2 => 12u8..=20],
        prop_oneof![2 => 0u8..=3, 3 => 0u8..=40, 1 => Just(255u8)],
        prop_oneof![Just(1u16), 1u16..100],
        prop_oneof![3 => Just(0u8), 2 => Just(1), 1 => Just(2), 3 => Just(3)],
        prop::collection::vec(op_strategy(), 1..=300),
    )
        .prop_map(|(conf_limit, integ_limit, window, pto_ms, sched, ops)| Case { conf_limit, integ_limit, window, pto_ms, sched, ops })
}

// ---- exhaustive short sequences over a small alphabet --------------------------------

fn enum_alphabet() -> Vec<Op> {
    vec![
        Op::Enc { side: 0, ack: true },
        Op::Enc { side: 1, ack: true },
        Op::Deliver { to: 1, pick: 0, keep: false },
        Op::Deliver { to: 1, pick: u16::MAX, keep: false },
        Op::Deliver { to: 0, pick: 0, keep: false },
        Op::Deliver { to: 0, pick: u16::MAX, keep: false },
        Op::Deliver { to: 1, pick: 0, keep: true },
        Op::Tick { side: 2, dt_ms: 10 },
        Op::Corrupt { to: 1, pick: 0, byte: 0, mask: 0x04 },
        Op::Corrupt { to: 0, pick: 0, byte: u16::MAX, mask: 0x01 },
    ]
}

/// (window, integrity limit) with confidentiality limit 3
const ENUM_CONFIGS: [(u8, u8); 6] = [(0, 2), (1, 2), (2, 1), (2, 3), (3, 2), (3, 20)];

fn enum_max_len(t: Tier) -> u32 {
    t.pick(6, 8)
}

fn enum_seqs(t: Tier) -> u64 {
    let n = enum_alphabet().len() as u64;
    (1..=enum_max_len(t)).map(|k| n.pow(k)).sum()
}

fn enum_total(t: Tier) -> u64 {
    enum_seqs(t) * ENUM_CONFIGS.len() as u64
}

fn enum_case(t: Tier, idx: u64) -> Case {
    let alphabet = enum_alphabet();
    let n = alphabet.len() as u64;
    let (window, integ_limit) = ENUM_CONFIGS[(idx % ENUM_CONFIGS.len() as u64) as usize];
    let mut idx = idx / ENUM_CONFIGS.len() as u64;
    debug_assert!(idx < enum_seqs(t));
    let mut len = 1;
    let mut block = n;
    while idx >= block {
        idx -= block;
        block *= n;
        len += 1;
    }
    let mut ops = vec![];
    for _ in 0..len {
        ops.push(alphabet[(idx % n) as usize].clone());
        idx /= n;
    }
    Case { conf_limit: 3, integ_limit, window, pto_ms: 10, sched: 0, ops }
}

pub fn subs() -> Vec<Box<dyn SubCheck>> {
    vec![
        Box::new(EnumCheck::<Case> {
            name: "keyset_short_exhaustive",
            total: enum_total,
            case: enum_case,
            oracle: run_case,
        }),
        Box::new(PropCheck::<Case, _> {
            name: "keyset_ops",
            cases: |t| t.pick(300_000, 30_000_000),
            strategy: case_strategy,
            oracle: run_case,
            max_shrink_iters: 20_000,
        }),
    ]
}

pub fn property() -> Property {
    Property {
        id: "C15",
        rule: "two KeySet<K> endpoints with an instrumented key (tag binds secret, generation, pn, header, plaintext), \
               confidentiality limit 3..40, integrity limit 1..20, key_update_window 0..limit, coupled by a harness wire; \
               op sequences (<= 300) of seal / burst / deliver any in-flight packet (any order, duplicates, loss) / \
               corrupted copy / foreign-key packet / clock advance + on_timeout (also exactly around the derivation \
               deadline); largest_acknowledged follows an ACK model; every op is compared with a per-endpoint model \
               (generation, retained-previous vs next key, per-generation seal counters, failure counter). \
               Per case two scheduling constraints are drawn (none / either / both): delayed previous-generation packets that would \
               arrive inside the retention window are lost instead, and an endpoint whose next update falls due while its derivation \
               timer is pending waits for that timer first (so that part of the cases stays clear of those two situations). \
               keyset_short_exhaustive: all sequences of <= 6 (quick) / 8 (thorough) ops over 10 ops x 6 limit configurations. \
               Non-trivial: >= 2 key updates completed on both endpoints with >= 1 packet of the previous generation \
               decrypted after the first packet of the new one, or some key sealed exactly `limit` packets. \
               Distinct = distinct (limits, op sequence).",
        assumptions: &[
            "the instrumented OneRttKey (64-bit mixing tag over secret/generation/pn/header/plaintext) stands in for the AEAD; \
             real limits (2^23..) are replaced by 3..40 through the same limited::Key code",
            "header protection is the in-tree all-zero testing HeaderKey (key phase bit and pn travel in clear)",
            "the explicit model (RFC 9001 section 6 transcription + documented key_update_window / derivation timer semantics) is the trusted base",
        ],
        subs: subs(),
        shards: 0,
    }
}
