//! C16 (part 1): `buffer::Reassembler` against an interval-list reference model.

use bytes::BytesMut;
use proptest::prelude::*;
use s2n_quic_core::{
    buffer::{reader::testing::Fallible, Error, Reassembler},
    varint::VarInt,
};
use serde::{Deserialize, Serialize};
use vcore::{ensure_that, gen::*, CaseResult, EnumCheck, Obs, PropCheck, SubCheck, Tier};

const MAX: u64 = (1 << 62) - 1;
const KEY: u64 = 0x1616_c0de;

#[derive(Clone, Copy, Debug, Hash, PartialEq, Eq, Serialize, Deserialize)]
pub enum Off {
    /// relative to the read cursor (consumed_len)
    Cursor(i32),
    /// relative to the highest offset received so far
    MaxRecv(i32),
    /// relative to the established final size (falls back to MaxRecv)
    Final(i32),
    /// k * boundary + delta
    Boundary { which: u8, k: u8, delta: i32 },
    /// MAX - back
    NearMax(u32),
    Abs(u64),
}

#[derive(Clone, Debug, Hash, PartialEq, Eq, Serialize, Deserialize)]
pub enum Op {
    Write { off: Off, len: u32, fin: bool },
    /// same through `write_reader` with a reader that fails: must leave everything unchanged
    FailingWrite { off: Off, len: u32, fin: bool },
    Pop { watermark: Option<u32> },
    Skip { len: u64 },
    Reset,
    Iter,
}

pub const BOUNDARIES: [u64; 5] = [4096, 65536, 262144, 1 << 20, 16384];

#[derive(Default, Clone, Debug)]
struct Model {
    /// disjoint, sorted, non-adjacent [start, end) of bytes held (>= consumed)
    recv: Vec<(u64, u64)>,
    consumed: u64,
    max_recv: u64,
    fin: Option<u64>,
}

#[derive(Debug, PartialEq, Eq, Clone, Copy)]
enum MErr {
    OutOfRange,
    InvalidFin,
}

impl Model {
    fn resolve(&self, off: Off) -> u64 {
        let rel = |base: u64, d: i32| -> u64 {
            if d >= 0 {
                base.saturating_add(d as u64).min(MAX)
            } else {
                base.saturating_sub((-(d as i64)) as u64)
            }
        };
        match off {
            Off::Cursor(d) => rel(self.consumed, d),
            Off::MaxRecv(d) => rel(self.max_recv, d),
            Off::Final(d) => rel(self.fin.unwrap_or(self.max_recv), d),
            Off::Boundary { which, k, delta } => {
                rel(BOUNDARIES[which as usize % BOUNDARIES.len()] * k as u64, delta)
            }
            Off::NearMax(b) => MAX - b as u64,
            Off::Abs(v) => v.min(MAX),
        }
    }

    fn len(&self) -> u64 {
        match self.recv.first() {
            Some((s, e)) if *s == self.consumed => e - s,
            _ => 0,
        }
    }

    fn check_write(&self, off: u64, len: u64, fin: bool) -> Result<(), MErr> {
        let end = off.checked_add(len).filter(|e| *e <= MAX).ok_or(MErr::OutOfRange)?;
        match (fin, self.fin) {
            (true, Some(f)) => {
                if end != f {
                    return Err(MErr::InvalidFin);
                }
            }
            (true, None) => {
                if self.max_recv > end {
                    return Err(MErr::InvalidFin);
                }
            }
            (false, Some(f)) => {
                if f < end {
                    return Err(MErr::InvalidFin);
                }
            }
            (false, None) => {}
        }
        Ok(())
    }

    fn write(&mut self, off: u64, len: u64, fin: bool) -> Result<(), MErr> {
        self.check_write(off, len, fin)?;
        let end = off + len;
        if fin {
            self.fin = Some(end);
        }
        self.max_recv = self.max_recv.max(end);
        let s = off.max(self.consumed);
        if s < end {
            self.insert(s, end);
        }
        Ok(())
    }

    fn overlaps(&self, s: u64, e: u64) -> bool {
        self.recv.iter().any(|(a, b)| *a < e && s < *b)
    }

    fn insert(&mut self, mut s: u64, mut e: u64) {
        let mut out = Vec::with_capacity(self.recv.len() + 1);
        let mut placed = false;
        for &(a, b) in &self.recv {
            if b < s {
                out.push((a, b));
            } else if e < a {
                if !placed {
                    out.push((s, e));
                    placed = true;
                }
                out.push((a, b));
            } else {
                s = s.min(a);
                e = e.max(b);
            }
        }
        if !placed {
            out.push((s, e));
        }
        self.recv = out;
    }

    fn skip(&mut self, len: u64) -> Result<(), MErr> {
        if len == 0 {
            return Ok(());
        }
        let new = self.consumed.checked_add(len).filter(|e| *e <= MAX).ok_or(MErr::OutOfRange)?;
        if let Some(f) = self.fin {
            if f < new {
                return Err(MErr::InvalidFin);
            }
        }
        self.max_recv = self.max_recv.max(new);
        self.advance(new);
        Ok(())
    }

    fn advance(&mut self, new: u64) {
        self.consumed = new;
        self.recv.retain_mut(|(a, b)| {
            if *b <= new {
                false
            } else {
                if *a < new {
                    *a = new;
                }
                true
            }
        });
    }
}

fn same_err(r: &Result<(), Error>, m: &Result<(), MErr>) -> bool {
    match (r, m) {
        (Ok(()), Ok(())) => true,
        (Err(Error::OutOfRange), Err(MErr::OutOfRange)) => true,
        (Err(Error::InvalidFin), Err(MErr::InvalidFin)) => true,
        _ => false,
    }
}

fn compare(step: usize, op: &Op, buf: &Reassembler, m: &Model, full: bool) -> CaseResult {
    ensure_that!(buf.len() as u64 == m.len(), "reassembler:len", "step {step} {op:?}: len {} model {}", buf.len(), m.len());
    ensure_that!(buf.is_empty() == (m.len() == 0), "reassembler:is_empty", "step {step} {op:?}: is_empty {} model len {}", buf.is_empty(), m.len());
    ensure_that!(buf.consumed_len() == m.consumed, "reassembler:consumed_len", "step {step} {op:?}: consumed_len {} model {}", buf.consumed_len(), m.consumed);
    ensure_that!(buf.total_received_len() == m.consumed + m.len(), "reassembler:total_received_len", "step {step} {op:?}: total_received_len {} model {}", buf.total_received_len(), m.consumed + m.len());
    ensure_that!(buf.final_size() == m.fin, "reassembler:final_size", "step {step} {op:?}: final_size {:?} model {:?}", buf.final_size(), m.fin);
    let wc = m.fin == Some(m.consumed + m.len());
    ensure_that!(buf.is_writing_complete() == wc, "reassembler:is_writing_complete", "step {step} {op:?}: is_writing_complete {} model {}", buf.is_writing_complete(), wc);
    let rc = m.fin == Some(m.consumed);
    ensure_that!(buf.is_reading_complete() == rc, "reassembler:is_reading_complete", "step {step} {op:?}: is_reading_complete {} model {}", buf.is_reading_complete(), rc);
    if full {
        let mut o = m.consumed;
        for chunk in buf.iter() {
            ensure_that!(!chunk.is_empty(), "reassembler:iter-empty-chunk", "step {step} {op:?}: iter() yielded an empty chunk at {o}");
            if let Some(i) = prf_mismatch(KEY, o, chunk) {
                return Err(vcore::Fail::new("reassembler:iter-content", format!("step {step} {op:?}: iter() byte at offset {} is not the byte written there", o + i as u64)));
            }
            o += chunk.len() as u64;
        }
        ensure_that!(o == m.consumed + m.len(), "reassembler:iter-length", "step {step} {op:?}: iter() covers up to {o}, model {}", m.consumed + m.len());
    }
    Ok(())
}

pub fn run_ops(ops: &Vec<Op>, obs: &mut Obs) -> CaseResult {
    let mut buf = Reassembler::new();
    let mut m = Model::default();
    let mut overlap_cross = false;
    let mut read_after = false;
    let mut scratch: Vec<u8> = vec![];
    for (step, op) in ops.iter().enumerate() {
        match op {
            Op::Write { off, len, fin } => {
                let off = m.resolve(*off);
                let len = *len as u64;
                scratch.resize(len as usize, 0);
                prf_fill(KEY, off, &mut scratch);
                let before = m.clone();
                let expect = m.write(off, len, *fin);
                if expect.is_ok() && len > 0 {
                    let s = off.max(before.consumed);
                    let e = off + len;
                    if s < e && before.overlaps(s, e) && (s / 4096 != (e - 1) / 4096) {
                        overlap_cross = true;
                        read_after = false;
                    }
                }
                let got = if *fin {
                    buf.write_at_fin(VarInt::new(off).unwrap(), &scratch)
                } else {
                    buf.write_at(VarInt::new(off).unwrap(), &scratch)
                };
                ensure_that!(same_err(&got, &expect), "reassembler:write-result", "step {step} {op:?} (offset {off}): returned {got:?}, model {expect:?}");
                obs.class_if(expect == Err(MErr::InvalidFin), "write-invalid-fin");
                obs.class_if(expect == Err(MErr::OutOfRange), "write-out-of-range");
            }
            Op::FailingWrite { off, len, fin } => {
                let off = m.resolve(*off);
                let len = *len as u64;
                if off.checked_add(len).filter(|e| *e <= MAX).is_none() {
                    continue;
                }
                scratch.resize(len as usize, 0);
                prf_fill(KEY, off, &mut scratch);
                let mut reader = s2n_quic_core::buffer::reader::Incremental::new(VarInt::new(off).unwrap());
                let mut storage: &[u8] = &scratch;
                let mut reader = reader.with_storage(&mut storage, *fin).unwrap();
                let mut reader = Fallible::new(&mut reader).with_error(());
                let expect = m.check_write(off, len, *fin);
                let got = buf.write_reader(&mut reader);
                match (&got, &expect) {
                    // the reader may fail before or after the final-size validation; either way
                    // nothing may change (compared below)
                    (Err(Error::ReaderError(())), _) => {}
                    (Err(Error::InvalidFin), Err(MErr::InvalidFin)) => {}
                    (Err(Error::OutOfRange), Err(MErr::OutOfRange)) => {}
                    // a reader with nothing left to contribute may legitimately not be polled
                    (Ok(()), Ok(())) if len == 0 || off + len <= m.consumed => {
                        m.write(off, len, *fin).unwrap();
                    }
                    _ => {
                        return Err(vcore::Fail::new("reassembler:failing-write-result", format!("step {step} {op:?} (offset {off}): returned {got:?}, model {expect:?}")));
                    }
                }
                obs.class("failing-reader");
            }
            Op::Pop { watermark } => {
                let w = watermark.map(|w| w as usize).unwrap_or(usize::MAX);
                let avail = m.len();
                let got: Option<BytesMut> = buf.pop_watermarked(w);
                match got {
                    None => {
                        ensure_that!(avail == 0 || w == 0, "reassembler:pop-none", "step {step} {op:?}: returned None with {avail} contiguous bytes available");
                    }
                    Some(chunk) => {
                        ensure_that!(!chunk.is_empty(), "reassembler:pop-empty", "step {step} {op:?}: returned an empty chunk");
                        ensure_that!(chunk.len() <= w, "reassembler:pop-watermark", "step {step} {op:?}: chunk of {} exceeds watermark", chunk.len());
                        ensure_that!(chunk.len() as u64 <= avail, "reassembler:pop-too-much", "step {step} {op:?}: chunk of {} but only {avail} contiguous bytes were written", chunk.len());
                        if let Some(i) = prf_mismatch(KEY, m.consumed, &chunk) {
                            return Err(vcore::Fail::new("reassembler:pop-content", format!("step {step} {op:?}: byte handed out for offset {} is not the byte written there", m.consumed + i as u64)));
                        }
                        let new = m.consumed + chunk.len() as u64;
                        m.advance(new);
                        if overlap_cross {
                            read_after = true;
                        }
                        obs.class("pop-some");
                    }
                }
            }
            Op::Skip { len } => {
                let expect = m.skip(*len);
                let got = match VarInt::new(*len) {
                    Ok(v) => buf.skip(v),
                    Err(_) => continue,
                };
                ensure_that!(same_err(&got, &expect), "reassembler:skip-result", "step {step} {op:?}: returned {got:?}, model {expect:?}");
                obs.class_if(expect.is_ok() && *len > 0, "skip-ok");
            }
            Op::Reset => {
                buf.reset();
                m = Model::default();
            }
            Op::Iter => {
                compare(step, op, &buf, &m, true)?;
            }
        }
        compare(step, op, &buf, &m, m.len() <= 16384)?;
    }
    // drain: everything contiguous must come out exactly once
    let mut guard = 0;
    while m.len() > 0 {
        let Some(chunk) = buf.pop() else {
            return Err(vcore::Fail::new("reassembler:drain-none", format!("final drain: pop() returned None with {} bytes available", m.len())));
        };
        if let Some(i) = prf_mismatch(KEY, m.consumed, &chunk) {
            return Err(vcore::Fail::new("reassembler:pop-content", format!("final drain: byte handed out for offset {} is not the byte written there", m.consumed + i as u64)));
        }
        ensure_that!(chunk.len() as u64 <= m.len() && !chunk.is_empty(), "reassembler:pop-too-much", "final drain: chunk of {} but {} available", chunk.len(), m.len());
        let new = m.consumed + chunk.len() as u64;
        m.advance(new);
        guard += 1;
        ensure_that!(guard < 1_000_000, "reassembler:drain-loop", "final drain does not terminate");
    }
    ensure_that!(buf.pop().is_none(), "reassembler:pop-after-drain", "pop() returned data after everything contiguous was drained");
    obs.units = ops.len() as u64;
    obs.nontrivial(overlap_cross && read_after);
    obs.class_if(m.fin.is_some(), "fin-established");
    Ok(())
}

fn off_strategy() -> impl Strategy<Value = Off> {
    prop_oneof![
        6 => (-5000i32..9000).prop_map(Off::Cursor),
        2 => prop_oneof![Just(0i32), Just(1), Just(-1), Just(4096), Just(4095), Just(4097), Just(8192)].prop_map(Off::Cursor),
        4 => (-9000i32..9000).prop_map(Off::MaxRecv),
        2 => prop_oneof![Just(0i32), Just(-1), Just(1)].prop_map(Off::MaxRecv),
        2 => (-3i32..3).prop_map(Off::Final),
        4 => (0u8..5, 0u8..4, prop_oneof![Just(0i32), Just(1), Just(-1), -70000i32..70000, -300i32..300]).prop_map(|(which, k, delta)| Off::Boundary { which, k, delta }),
        1 => (0u32..200_000).prop_map(Off::NearMax),
    ]
}

fn len_strategy() -> impl Strategy<Value = u32> {
    prop_oneof![
        3 => 0u32..16,
        4 => 1u32..1500,
        3 => prop_oneof![Just(4095u32), Just(4096), Just(4097), Just(8192), Just(16384), Just(65536), Just(65537)],
        2 => 1u32..13000,
        1 => 1u32..200_000,
    ]
}

fn op_strategy() -> impl Strategy<Value = Op> {
    prop_oneof![
        12 => (off_strategy(), len_strategy(), prop::bool::weighted(0.12)).prop_map(|(off, len, fin)| Op::Write { off, len, fin }),
        1 => (off_strategy(), len_strategy(), prop::bool::weighted(0.2)).prop_map(|(off, len, fin)| Op::FailingWrite { off, len, fin }),
        4 => prop_oneof![Just(None), (0u32..6000).prop_map(Some), Just(Some(1)), Just(Some(4096))].prop_map(|watermark| Op::Pop { watermark }),
        2 => prop_oneof![0u64..20, 1u64..9000, Just(4096u64), 1u64..300_000, Just(MAX), Just(MAX - 1)].prop_map(|len| Op::Skip { len }),
        1 => Just(Op::Iter),
        1 => prop::bool::weighted(0.05).prop_map(|r| if r { Op::Reset } else { Op::Iter }),
    ]
}

fn seq_strategy(_t: Tier) -> impl Strategy<Value = Vec<Op>> {
    prop::collection::vec(op_strategy(), 1..120)
}

// ---- exhaustive short sequences over a small alphabet --------------------------------

const ALPHA: [u64; 6] = [0, 1, 4095, 4096, 4097, 8192];

fn enum_ops() -> Vec<Op> {
    let mut v = vec![];
    for &o in &ALPHA {
        for &l in &ALPHA {
            for fin in [false, true] {
                v.push(Op::Write { off: Off::Abs(o), len: l as u32, fin });
            }
        }
    }
    v.push(Op::Pop { watermark: None });
    v.push(Op::Pop { watermark: Some(1) });
    v.push(Op::Pop { watermark: Some(4096) });
    for &l in &[1u64, 4095, 4096, 4097] {
        v.push(Op::Skip { len: l });
    }
    v
}

fn enum_total(t: Tier) -> u64 {
    let n = enum_ops().len() as u64;
    match t {
        Tier::Quick => n + n * n + n * n * n,
        Tier::Thorough => n + n * n + n * n * n + n * n * n * n,
    }
}

fn enum_case(_t: Tier, mut idx: u64) -> Vec<Op> {
    let ops = enum_ops();
    let n = ops.len() as u64;
    let mut len = 1;
    let mut block = n;
    while idx >= block {
        idx -= block;
        block *= n;
        len += 1;
    }
    let mut out = vec![];
    for _ in 0..len {
        out.push(ops[(idx % n) as usize].clone());
        idx /= n;
    }
    out
}

pub fn subs() -> Vec<Box<dyn SubCheck>> {
    vec![
        Box::new(EnumCheck::<Vec<Op>> {
            name: "reassembler_exhaustive",
            total: enum_total,
            case: enum_case,
            oracle: run_ops,
        }),
        Box::new(PropCheck::<Vec<Op>, _> {
            name: "reassembler_ops",
            cases: |t| t.pick(120_000, 12_000_000),
            strategy: seq_strategy,
            oracle: run_ops,
            max_shrink_iters: 20_000,
        }),
    ]
}
