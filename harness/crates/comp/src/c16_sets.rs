//! C16 (part 2): `IntervalSet`, `ack::Ranges`, `packet::number::Map`, `SlidingWindow` against plain
//! reference models (canonical interval list that is itself validated against bit sets, `BTreeMap`,
//! `BTreeSet` + right edge). Every sub-check interprets an op sequence on the real structure and on
//! the model and compares the return value and the FULL observable content after every op.
//!
//! Latitude taken where the documentation is silent (all outcomes that keep the "same elements as a
//! reference set" reading are accepted, see the final report of this module's author):
//! * `IntervalSet::remove` under a limit: a split that would EXCEED the limit must be rejected with
//!   `LimitExceeded` and leave the set unchanged; a split that lands exactly ON the limit may be
//!   applied or rejected (the code rejects it).
//! * `union` / `difference` under a limit apply interval by interval and may stop in the middle; on
//!   `LimitExceeded` any content between the old and the exact result is accepted (and adopted).
//! * `count()` is not called when the true count does not fit `usize`; `ranges()` cannot represent
//!   an interval ending at `T::MAX` and is not compared for it.
//! * `Map::get_range()` is only compared while the map is non-empty.
//! * `EvictedSet` = the packet numbers of the *old* window (right edge excluded) that were never
//!   inserted and can no longer be inserted after the slide; numbers right of the old right edge
//!   that a far jump skips are not representable in the 128-bit set and are not expected.

use core::{fmt::Debug, num::NonZeroUsize, ops::Bound};
use proptest::prelude::*;
use s2n_quic_core::{
    ack,
    frame::ack::AckRanges as _,
    interval_set::{Interval, IntervalBound, IntervalSet, IntervalSetError},
    packet::number::{
        Map, PacketNumber, PacketNumberRange, PacketNumberSpace, SlidingWindow, SlidingWindowError,
    },
    varint::VarInt,
};
use serde::{Deserialize, Serialize};
use std::collections::{BTreeMap, BTreeSet};
use std::sync::OnceLock;
use vcore::{ensure_that, fail, gen::pick_index, CaseResult, EnumCheck, Obs, PropCheck, SubCheck, Tier};

const PN_MAX: u64 = (1 << 62) - 1;

fn pn(v: u64) -> PacketNumber {
    PacketNumberSpace::ApplicationData.new_packet_number(VarInt::new(v).unwrap())
}

// =======================================================================================
// reference model: canonical list of closed intervals over u64

#[derive(Clone, Debug, Default, PartialEq, Eq)]
struct ISet {
    /// sorted, disjoint, non-adjacent, inclusive
    iv: Vec<(u64, u64)>,
}

impl ISet {
    fn normalize(mut v: Vec<(u64, u64)>) -> ISet {
        v.sort();
        let mut out: Vec<(u64, u64)> = Vec::with_capacity(v.len());
        for (s, e) in v {
            assert!(s <= e, "model interval must be valid");
            if let Some(last) = out.last_mut() {
                if last.1 == u64::MAX || s <= last.1 + 1 {
                    last.1 = last.1.max(e);
                    continue;
                }
            }
            out.push((s, e));
        }
        ISet { iv: out }
    }
    fn len(&self) -> usize {
        self.iv.len()
    }
    fn insert(&self, a: u64, b: u64) -> ISet {
        let mut v = self.iv.clone();
        v.push((a, b));
        ISet::normalize(v)
    }
    fn remove(&self, a: u64, b: u64) -> ISet {
        assert!(a <= b);
        let mut out = Vec::with_capacity(self.iv.len() + 1);
        for &(s, e) in &self.iv {
            if e < a || s > b {
                out.push((s, e));
                continue;
            }
            if s < a {
                out.push((s, a - 1));
            }
            if e > b {
                out.push((b + 1, e));
            }
        }
        ISet { iv: out }
    }
    fn union(&self, o: &ISet) -> ISet {
        let mut v = self.iv.clone();
        v.extend_from_slice(&o.iv);
        ISet::normalize(v)
    }
    fn difference(&self, o: &ISet) -> ISet {
        let mut cur = self.clone();
        for &(s, e) in &o.iv {
            cur = cur.remove(s, e);
        }
        cur
    }
    fn intersection(&self, o: &ISet) -> ISet {
        let mut v = vec![];
        for &(s, e) in &self.iv {
            for &(s2, e2) in &o.iv {
                let lo = s.max(s2);
                let hi = e.min(e2);
                if lo <= hi {
                    v.push((lo, hi));
                }
            }
        }
        ISet::normalize(v)
    }
    fn contains(&self, x: u64) -> bool {
        self.iv.iter().any(|&(s, e)| s <= x && x <= e)
    }
    fn count(&self) -> u128 {
        self.iv.iter().map(|&(s, e)| (e - s) as u128 + 1).sum()
    }
    fn is_subset_of(&self, o: &ISet) -> bool {
        self.difference(o).iv.is_empty()
    }
    /// number of intervals that `[a, b]` overlaps or touches
    fn touching(&self, a: u64, b: u64) -> usize {
        self.iv
            .iter()
            .filter(|&&(s, e)| s <= b.saturating_add(1) && e.saturating_add(1) >= a)
            .count()
    }
    fn is_canonical(&self) -> bool {
        self.iv.iter().all(|&(s, e)| s <= e)
            && self.iv.windows(2).all(|w| w[0].1 < u64::MAX && w[0].1 + 1 < w[1].0)
    }
    /// the elements, only for small sets
    fn elements(&self) -> Vec<u64> {
        let mut v = vec![];
        for &(s, e) in &self.iv {
            let mut x = s;
            loop {
                v.push(x);
                if x == e {
                    break;
                }
                x += 1;
            }
        }
        v
    }
}

/// The interval-list model is itself compared with plain bit sets over the domain 0..=7 (all 256
/// sets, all single-interval ops, all pairs for the binary ops) once per process.
fn model_selftest() {
    static ONCE: std::sync::Once = std::sync::Once::new();
    ONCE.call_once(|| {
        let to_set = |bits: u16| -> ISet {
            ISet::normalize((0..8u64).filter(|i| (bits >> i) & 1 == 1).map(|i| (i, i)).collect())
        };
        let to_bits = |s: &ISet| -> u16 {
            assert!(s.is_canonical(), "model self-test: not canonical {s:?}");
            let mut b = 0u16;
            for x in s.elements() {
                assert!(x < 8);
                b |= 1 << x;
            }
            b
        };
        let sets: Vec<ISet> = (0u16..256).map(to_set).collect();
        for a in 0u16..256 {
            let sa = &sets[a as usize];
            assert_eq!(to_bits(sa), a);
            assert_eq!(sa.count(), a.count_ones() as u128);
            for x in 0..8u64 {
                assert_eq!(sa.contains(x), (a >> x) & 1 == 1);
            }
            for lo in 0..8u64 {
                for hi in lo..8 {
                    let mask: u16 = (((1u32 << (hi - lo + 1)) - 1) as u16) << lo;
                    assert_eq!(to_bits(&sa.insert(lo, hi)), a | mask);
                    assert_eq!(to_bits(&sa.remove(lo, hi)), a & !mask);
                }
            }
            for b in 0u16..256 {
                let sb = &sets[b as usize];
                assert_eq!(to_bits(&sa.union(sb)), a | b);
                assert_eq!(to_bits(&sa.intersection(sb)), a & b);
                assert_eq!(to_bits(&sa.difference(sb)), a & !b);
                assert_eq!(sa.is_subset_of(sb), a & !b == 0);
            }
        }
        let top = ISet::default().insert(u64::MAX - 1, u64::MAX).insert(0, 0);
        assert_eq!(top.iv, vec![(0, 0), (u64::MAX - 1, u64::MAX)]);
        assert_eq!(top.insert(1, u64::MAX - 2).iv, vec![(0, u64::MAX)]);
        assert_eq!(top.insert(u64::MAX, u64::MAX).iv, top.iv);
        assert_eq!(top.remove(u64::MAX, u64::MAX).iv, vec![(0, 0), (u64::MAX - 1, u64::MAX - 1)]);
        assert_eq!(top.remove(0, u64::MAX).iv, vec![]);
        assert_eq!(top.touching(u64::MAX - 3, u64::MAX - 3), 0);
        assert_eq!(top.touching(1, u64::MAX - 2), 2);
    });
}

// =======================================================================================
// element domains

pub trait Dom: IntervalBound + Debug {
    const MAX: u64;
    fn of(v: u64) -> Self;
    fn val(self) -> u64;
}

impl Dom for u8 {
    const MAX: u64 = 255;
    fn of(v: u64) -> Self {
        u8::try_from(v).unwrap()
    }
    fn val(self) -> u64 {
        self as u64
    }
}

impl Dom for u64 {
    const MAX: u64 = u64::MAX;
    fn of(v: u64) -> Self {
        v
    }
    fn val(self) -> u64 {
        self
    }
}

impl Dom for PacketNumber {
    const MAX: u64 = PN_MAX;
    fn of(v: u64) -> Self {
        pn(v)
    }
    fn val(self) -> u64 {
        self.as_u64()
    }
}

// =======================================================================================
// positions relative to the model state

#[derive(Clone, Copy, Debug, Hash, PartialEq, Eq, Serialize, Deserialize)]
pub enum Pos {
    Abs(u64),
    /// start (`end == false`) or end of the idx-th interval currently held, plus delta
    Edge { idx: u16, end: bool, delta: i8 },
}

#[derive(Clone, Copy, Debug, Hash, PartialEq, Eq, Serialize, Deserialize)]
pub enum End {
    /// b = a + len
    Len(u32),
    /// the interval spans the two positions (sorted)
    At(Pos),
    /// b = a - 1 - d: an inverted (invalid) interval
    Before(u8),
}

#[derive(Clone, Copy, Debug, Hash, PartialEq, Eq, Serialize, Deserialize)]
pub struct Iv {
    pub a: Pos,
    pub end: End,
}

fn shift(base: u64, d: i64, max: u64) -> u64 {
    if d >= 0 {
        base.saturating_add(d as u64).min(max)
    } else {
        base.saturating_sub((-d) as u64)
    }
}

fn resolve_pos(m: &ISet, p: Pos, max: u64) -> u64 {
    match p {
        Pos::Abs(v) => v.min(max),
        Pos::Edge { idx, end, delta } => {
            if m.iv.is_empty() {
                return (delta.unsigned_abs() as u64).min(max);
            }
            let (s, e) = m.iv[pick_index(idx, m.iv.len())];
            shift(if end { e } else { s }, delta as i64, max)
        }
    }
}

/// resolves to (a, b); a > b denotes an intentionally invalid interval
fn resolve_iv(m: &ISet, iv: Iv, max: u64) -> (u64, u64) {
    let a = resolve_pos(m, iv.a, max);
    match iv.end {
        End::Len(l) => (a, a.saturating_add(l as u64).min(max)),
        End::At(p) => {
            let b = resolve_pos(m, p, max);
            (a.min(b), a.max(b))
        }
        End::Before(d) => match a.checked_sub(1 + d as u64) {
            Some(b) => (a, b),
            None => (a, a),
        },
    }
}

// =======================================================================================
// IntervalSet: ops, interpreter

#[derive(Clone, Copy, Debug, Hash, PartialEq, Eq, Serialize, Deserialize)]
pub enum Form {
    /// `a..=b`
    Inclusive,
    /// `a..b+1`
    HalfOpen,
    /// `(Bound::Included(a), Bound::Included(b))`
    Bounds,
    /// an `Interval<T>` value
    Interval,
}

#[derive(Clone, Debug, Hash, PartialEq, Eq, Serialize, Deserialize)]
pub enum SetOp {
    Insert { iv: Iv, form: Form },
    /// `insert_front`; falls back to `insert` unless the interval starts at or below the minimum
    InsertFront { iv: Iv },
    InsertValue(Pos),
    Remove { iv: Iv, form: Form },
    RemoveValue(Pos),
    Union(Vec<Iv>),
    Difference(Vec<Iv>),
    Intersection(Vec<Iv>),
    IntersectionIter(Vec<Iv>),
    PopMin,
    Clear,
    /// 0 = `remove_limit`
    SetLimit(u8),
    /// n inserts of `width` elements, `gap` apart (builds many intervals so that the binary-search
    /// start index is used)
    Comb { base: Pos, n: u8, width: u8, gap: u8 },
}

#[derive(Clone, Debug, Hash, PartialEq, Eq, Serialize, Deserialize)]
pub struct SetCase {
    /// 0 = start empty; 1 = start with 18 single-element intervals 10, 12, ..., 44
    pub preset: u8,
    /// 0 = no limit
    pub limit: u8,
    pub ops: Vec<SetOp>,
}

fn same_set_err(r: &Result<(), IntervalSetError>, want: Option<IntervalSetError>) -> bool {
    match (r, want) {
        (Ok(()), None) => true,
        (Err(e), Some(w)) => *e == w,
        _ => false,
    }
}

fn read_intervals<T: Dom>(set: &IntervalSet<T>) -> Vec<(u64, u64)> {
    set.intervals().map(|i| (i.start_inclusive().val(), i.end_inclusive().val())).collect()
}

const ITER_FULL: u128 = 1024;

/// full observable content of `set` == model
fn compare_set<T: Dom>(px: &str, step: usize, op: &dyn Debug, set: &IntervalSet<T>, m: &ISet) -> CaseResult {
    let got = read_intervals(set);
    if got != m.iv {
        ensure_that!(got.iter().all(|(s, e)| s <= e), format!("{px}:invalid-interval"), "step {step} {op:?}: holds an interval with start > end: {got:?}");
        let same_elements = ISet::normalize(got.clone()).iv == m.iv;
        if same_elements {
            fail!(format!("{px}:not-canonical"), "step {step} {op:?}: same elements as the reference set but intervals are unsorted/overlapping/adjacent: {got:?}, expected {:?}", m.iv);
        }
        fail!(format!("{px}:content"), "step {step} {op:?}: intervals {got:?}, reference set {:?}", m.iv);
    }
    ensure_that!(set.interval_len() == m.len(), format!("{px}:interval_len"), "step {step} {op:?}: interval_len {} model {}", set.interval_len(), m.len());
    ensure_that!(set.is_empty() == m.iv.is_empty(), format!("{px}:is_empty"), "step {step} {op:?}: is_empty {}", set.is_empty());
    let min = set.min_value().map(Dom::val);
    let max = set.max_value().map(Dom::val);
    ensure_that!(min == m.iv.first().map(|x| x.0), format!("{px}:min_value"), "step {step} {op:?}: min_value {min:?} model {:?}", m.iv.first());
    ensure_that!(max == m.iv.last().map(|x| x.1), format!("{px}:max_value"), "step {step} {op:?}: max_value {max:?} model {:?}", m.iv.last());
    let incl: Vec<(u64, u64)> = set.inclusive_ranges().map(|r| (r.start().val(), r.end().val())).collect();
    ensure_that!(incl == m.iv, format!("{px}:inclusive_ranges"), "step {step} {op:?}: inclusive_ranges {incl:?} model {:?}", m.iv);
    for (r, &(s, e)) in set.ranges().zip(m.iv.iter()) {
        if e < T::MAX {
            ensure_that!(r.start.val() == s && r.end.val() == e + 1, format!("{px}:ranges"), "step {step} {op:?}: ranges() yields {:?} for [{s}, {e}]", r);
        }
    }
    ensure_that!(set.ranges().count() == m.len(), format!("{px}:ranges"), "step {step} {op:?}: ranges() length");
    let count = m.count();
    if count <= usize::MAX as u128 {
        ensure_that!(set.count() as u128 == count, format!("{px}:count"), "step {step} {op:?}: count {} model {count}", set.count());
    }
    // membership around every edge
    let probe = |x: u64| -> CaseResult {
        let got = set.contains(&T::of(x));
        ensure_that!(got == m.contains(x), format!("{px}:contains"), "step {step} {op:?}: contains({x}) = {got}, reference set {:?}", m.iv);
        Ok(())
    };
    probe(0)?;
    probe(T::MAX)?;
    for &(s, e) in &m.iv {
        probe(s)?;
        probe(e)?;
        probe(s.saturating_sub(1))?;
        probe(e.saturating_add(1).min(T::MAX))?;
        probe(s + (e - s) / 2)?;
    }
    // element iteration
    if count <= ITER_FULL {
        let want = m.elements();
        let fwd: Vec<u64> = set.iter().map(Dom::val).collect();
        ensure_that!(fwd == want, format!("{px}:iter"), "step {step} {op:?}: iter() yields {fwd:?}, reference set {:?}", m.iv);
        let mut rev: Vec<u64> = set.iter().rev().map(Dom::val).collect();
        rev.reverse();
        ensure_that!(rev == want, format!("{px}:iter-rev"), "step {step} {op:?}: iter().rev() yields (reversed) {rev:?}, reference set {:?}", m.iv);
        if count <= 300 {
            // alternate both ends
            let mut it = set.iter();
            let mut front = vec![];
            let mut back = vec![];
            let mut guard = 0;
            loop {
                guard += 1;
                ensure_that!(guard < 1000, format!("{px}:iter-mixed"), "step {step} {op:?}: alternating next()/next_back() does not terminate");
                match it.next() {
                    Some(x) => front.push(x.val()),
                    None => break,
                }
                match it.next_back() {
                    Some(x) => back.push(x.val()),
                    None => break,
                }
            }
            back.reverse();
            front.extend(back);
            ensure_that!(front == want, format!("{px}:iter-mixed"), "step {step} {op:?}: alternating next()/next_back() yields {front:?}, reference set {:?}", m.iv);
        }
    } else {
        let head: Vec<u64> = set.iter().take(64).map(Dom::val).collect();
        let mut want = vec![];
        'o: for &(s, e) in &m.iv {
            let mut x = s;
            loop {
                if want.len() == 64 {
                    break 'o;
                }
                want.push(x);
                if x == e {
                    break;
                }
                x += 1;
            }
        }
        ensure_that!(head == want, format!("{px}:iter"), "step {step} {op:?}: first elements of iter() {head:?}, expected {want:?}");
        let tail: Vec<u64> = set.iter().rev().take(64).map(Dom::val).collect();
        let mut want = vec![];
        'p: for &(s, e) in m.iv.iter().rev() {
            let mut x = e;
            loop {
                if want.len() == 64 {
                    break 'p;
                }
                want.push(x);
                if x == s {
                    break;
                }
                x -= 1;
            }
        }
        ensure_that!(tail == want, format!("{px}:iter-rev"), "step {step} {op:?}: first elements of iter().rev() {tail:?}, expected {want:?}");
    }
    Ok(())
}

/// what a single insert must do under the documented limit rule ("the number of [intervals] cannot
/// exceed this amount, otherwise insert calls will be rejected")
fn model_insert(m: &ISet, a: u64, b: u64, limit: Option<usize>) -> Result<ISet, ()> {
    let new = m.insert(a, b);
    if let Some(l) = limit {
        if new.len() > m.len() && new.len() > l {
            return Err(());
        }
    }
    Ok(new)
}

enum RemoveExpect {
    Ok(ISet),
    MustReject,
    /// result lands exactly on the limit through a split: applied or rejected
    Either(ISet),
}

fn model_remove(m: &ISet, a: u64, b: u64, limit: Option<usize>) -> RemoveExpect {
    let new = m.remove(a, b);
    if let Some(l) = limit {
        if new.len() > m.len() {
            if new.len() > l {
                return RemoveExpect::MustReject;
            }
            if new.len() == l {
                return RemoveExpect::Either(new);
            }
        }
    }
    RemoveExpect::Ok(new)
}

fn call_with_form<T: Dom>(set: &mut IntervalSet<T>, insert: bool, a: u64, b: u64, form: Form) -> Result<(), IntervalSetError> {
    let (ta, tb) = (T::of(a), T::of(b));
    macro_rules! go {
        ($r:expr) => {
            if insert {
                set.insert($r)
            } else {
                set.remove($r)
            }
        };
    }
    match form {
        Form::HalfOpen if b < T::MAX => go!(ta..T::of(b + 1)),
        Form::Inclusive | Form::HalfOpen => go!(ta..=tb),
        Form::Bounds => go!((Bound::Included(ta), Bound::Included(tb))),
        Form::Interval => {
            let i: Interval<T> = (ta..=tb).into();
            go!(i)
        }
    }
}

struct SetStats {
    merged: bool,
    split: bool,
}

pub fn run_set<T: Dom>(case: &SetCase, obs: &mut Obs) -> CaseResult {
    model_selftest();
    let px = "interval_set";
    let mut limit: Option<usize> = if case.limit == 0 { None } else { Some(case.limit as usize) };
    let mut m = ISet::default();
    let mut set: IntervalSet<T> = if case.preset == 0 {
        match limit {
            Some(l) => IntervalSet::with_limit(NonZeroUsize::new(l).unwrap()),
            None => IntervalSet::new(),
        }
    } else {
        let mut set = IntervalSet::new();
        for k in 0..18u64 {
            let v = 10 + 2 * k;
            let r = set.insert_value(T::of(v));
            ensure_that!(r.is_ok(), "interval_set:insert-result", "preset insert_value({v}) returned {r:?}");
            m = m.insert(v, v);
        }
        if let Some(l) = limit {
            set.set_limit(NonZeroUsize::new(l).unwrap());
        }
        set
    };
    compare_set(px, 0, &"initial", &set, &m)?;
    let mut st = SetStats { merged: false, split: false };
    let mut units = 0u64;

    for (step, op) in case.ops.iter().enumerate() {
        units += 1;
        match op {
            SetOp::Insert { .. } | SetOp::InsertFront { .. } | SetOp::InsertValue(_) => {
                let (a, b, kind) = match op {
                    SetOp::Insert { iv, form } => {
                        let (a, b) = resolve_iv(&m, *iv, T::MAX);
                        (a, b, Some(*form))
                    }
                    SetOp::InsertFront { iv } => {
                        let (a, b) = resolve_iv(&m, *iv, T::MAX);
                        (a, b, None)
                    }
                    SetOp::InsertValue(p) => {
                        let a = resolve_pos(&m, *p, T::MAX);
                        (a, a, Some(Form::Bounds))
                    }
                    _ => unreachable!(),
                };
                let front_ok = m.iv.first().map(|f| a <= f.0).unwrap_or(true);
                let got = match (op, kind) {
                    (SetOp::InsertValue(_), _) => set.insert_value(T::of(a)),
                    (_, None) if front_ok => {
                        obs.class("insert_front");
                        set.insert_front(T::of(a)..=T::of(b))
                    }
                    (_, None) => set.insert(T::of(a)..=T::of(b)),
                    (_, Some(form)) => call_with_form(&mut set, true, a, b, form),
                };
                if a > b {
                    obs.class("invalid-interval");
                    ensure_that!(same_set_err(&got, Some(IntervalSetError::InvalidInterval)), "interval_set:insert-result", "step {step} {op:?}: inverted interval [{a}, {b}] returned {got:?}, expected InvalidInterval");
                } else {
                    match model_insert(&m, a, b, limit) {
                        Ok(new) => {
                            ensure_that!(same_set_err(&got, None), "interval_set:insert-result", "step {step} {op:?}: insert [{a}, {b}] into {:?} (limit {limit:?}) returned {got:?}, expected Ok", m.iv);
                            let t = m.touching(a, b);
                            st.merged |= t >= 2;
                            obs.class_if(t >= 2, "merge>=2");
                            obs.class_if(t >= 3, "merge>=3");
                            m = new;
                        }
                        Err(()) => {
                            obs.class("insert-limit-exceeded");
                            ensure_that!(same_set_err(&got, Some(IntervalSetError::LimitExceeded)), "interval_set:insert-result", "step {step} {op:?}: insert [{a}, {b}] into {:?} (limit {limit:?}) returned {got:?}, expected LimitExceeded", m.iv);
                        }
                    }
                }
            }
            SetOp::Remove { .. } | SetOp::RemoveValue(_) => {
                let (a, b, form) = match op {
                    SetOp::Remove { iv, form } => {
                        let (a, b) = resolve_iv(&m, *iv, T::MAX);
                        (a, b, Some(*form))
                    }
                    SetOp::RemoveValue(p) => {
                        let a = resolve_pos(&m, *p, T::MAX);
                        (a, a, None)
                    }
                    _ => unreachable!(),
                };
                let got = match form {
                    Some(form) => call_with_form(&mut set, false, a, b, form),
                    None => set.remove_value(T::of(a)),
                };
                if a > b {
                    obs.class("invalid-interval");
                    ensure_that!(same_set_err(&got, Some(IntervalSetError::InvalidInterval)), "interval_set:remove-result", "step {step} {op:?}: inverted interval [{a}, {b}] returned {got:?}, expected InvalidInterval");
                } else {
                    match model_remove(&m, a, b, limit) {
                        RemoveExpect::Ok(new) => {
                            ensure_that!(same_set_err(&got, None), "interval_set:remove-result", "step {step} {op:?}: remove [{a}, {b}] from {:?} (limit {limit:?}) returned {got:?}, expected Ok", m.iv);
                            if new.len() > m.len() {
                                st.split = true;
                                obs.class("split");
                            }
                            obs.class_if(new.len() + 2 <= m.len(), "remove-spans>=2");
                            m = new;
                        }
                        RemoveExpect::MustReject => {
                            obs.class("remove-limit-exceeded");
                            ensure_that!(same_set_err(&got, Some(IntervalSetError::LimitExceeded)), "interval_set:remove-result", "step {step} {op:?}: splitting remove [{a}, {b}] from {:?} (limit {limit:?}) returned {got:?}, expected LimitExceeded", m.iv);
                        }
                        RemoveExpect::Either(new) => match got {
                            Ok(()) => {
                                st.split = true;
                                obs.class("split");
                                m = new;
                            }
                            Err(IntervalSetError::LimitExceeded) => obs.class("remove-split-onto-limit-rejected"),
                            Err(e) => fail!("interval_set:remove-result", "step {step} {op:?}: remove [{a}, {b}] from {:?} (limit {limit:?}) returned {e:?}", m.iv),
                        },
                    }
                }
            }
            SetOp::Union(ivs) | SetOp::Difference(ivs) | SetOp::Intersection(ivs) | SetOp::IntersectionIter(ivs) => {
                // the operand is built through the same API and verified against its own model
                let mut om = ISet::default();
                let mut other: IntervalSet<T> = IntervalSet::new();
                for iv in ivs {
                    let (a, b) = resolve_iv(&m, *iv, T::MAX);
                    if a > b {
                        continue;
                    }
                    let r = other.insert(T::of(a)..=T::of(b));
                    ensure_that!(r.is_ok(), "interval_set:insert-result", "step {step} {op:?}: operand insert [{a}, {b}] returned {r:?}");
                    om = om.insert(a, b);
                }
                compare_set(px, step, &("operand of", op), &other, &om)?;
                match op {
                    SetOp::Union(_) => {
                        let exact = m.union(&om);
                        let mut cur = m.clone();
                        let mut may_fail = false;
                        for &(s, e) in &om.iv {
                            match model_insert(&cur, s, e, limit) {
                                Ok(n) => cur = n,
                                Err(()) => {
                                    may_fail = true;
                                    break;
                                }
                            }
                        }
                        let got = set.union(&other);
                        let merged = om.iv.iter().any(|&(s, e)| m.touching(s, e) >= 2);
                        match got {
                            Ok(()) => {
                                obs.class_if(may_fail, "union-ok-although-a-step-exceeds-limit");
                                if merged {
                                    st.merged = true;
                                    obs.class("merge>=2");
                                }
                                m = exact;
                            }
                            Err(IntervalSetError::LimitExceeded) if may_fail => {
                                obs.class("union-limit-exceeded");
                                let actual = ISet::normalize(read_intervals(&set));
                                ensure_that!(m.is_subset_of(&actual) && actual.is_subset_of(&exact), "interval_set:union-partial", "step {step} {op:?}: after LimitExceeded the set {:?} is not between the old set {:?} and the union {:?}", actual.iv, m.iv, exact.iv);
                                m = actual;
                            }
                            Err(e) => fail!("interval_set:union-result", "step {step} {op:?}: union of {:?} with {:?} (limit {limit:?}) returned {e:?}", m.iv, om.iv),
                        }
                    }
                    SetOp::Difference(_) => {
                        let exact = m.difference(&om);
                        let mut cur = m.clone();
                        let mut may_fail = false;
                        let mut split = false;
                        for &(s, e) in &om.iv {
                            match model_remove(&cur, s, e, limit) {
                                RemoveExpect::Ok(n) => {
                                    split |= n.len() > cur.len();
                                    cur = n;
                                }
                                RemoveExpect::Either(n) => {
                                    may_fail = true;
                                    split = true;
                                    cur = n;
                                }
                                RemoveExpect::MustReject => {
                                    may_fail = true;
                                    break;
                                }
                            }
                        }
                        let got = set.difference(&other);
                        match got {
                            Ok(()) => {
                                if split {
                                    st.split = true;
                                    obs.class("split");
                                }
                                m = exact;
                            }
                            Err(IntervalSetError::LimitExceeded) if may_fail => {
                                obs.class("difference-limit-exceeded");
                                let actual = ISet::normalize(read_intervals(&set));
                                ensure_that!(exact.is_subset_of(&actual) && actual.is_subset_of(&m), "interval_set:difference-partial", "step {step} {op:?}: after LimitExceeded the set {:?} is not between the difference {:?} and the old set {:?}", actual.iv, exact.iv, m.iv);
                                m = actual;
                            }
                            Err(e) => fail!("interval_set:difference-result", "step {step} {op:?}: difference of {:?} with {:?} (limit {limit:?}) returned {e:?}", m.iv, om.iv),
                        }
                    }
                    SetOp::Intersection(_) => {
                        let exact = m.intersection(&om);
                        let got = set.intersection(&other);
                        ensure_that!(got.is_ok(), "interval_set:intersection-result", "step {step} {op:?}: returned {got:?}");
                        if exact.len() > m.len() {
                            st.split = true;
                            obs.class("split");
                        }
                        m = exact;
                    }
                    SetOp::IntersectionIter(_) => {
                        let exact = m.intersection(&om);
                        let pieces: Vec<(u64, u64)> = set.intersection_iter(&other).map(|i| (i.start_inclusive().val(), i.end_inclusive().val())).collect();
                        ensure_that!(pieces.iter().all(|(s, e)| s <= e) && pieces.windows(2).all(|w| w[0].1 < w[1].0), "interval_set:intersection_iter", "step {step} {op:?}: pieces not ascending/disjoint: {pieces:?}");
                        ensure_that!(ISet::normalize(pieces.clone()).iv == exact.iv, "interval_set:intersection_iter", "step {step} {op:?}: {:?} ∩ {:?} yielded {pieces:?}, expected {:?}", m.iv, om.iv, exact.iv);
                        if exact.count() <= 300 {
                            let flat: Vec<u64> = set.intersection_iter(&other).flatten().map(Dom::val).collect();
                            ensure_that!(flat == exact.elements(), "interval_set:intersection_iter", "step {step} {op:?}: flattened {flat:?}, expected {:?}", exact.iv);
                        }
                        // the operands are untouched
                        compare_set(px, step, &("operand after", op), &other, &om)?;
                    }
                    _ => unreachable!(),
                }
            }
            SetOp::PopMin => {
                let got = set.pop_min().map(|i| (i.start_inclusive().val(), i.end_inclusive().val()));
                let want = m.iv.first().copied();
                ensure_that!(got == want, "interval_set:pop_min", "step {step}: pop_min returned {got:?}, lowest interval of the reference set {want:?}");
                if want.is_some() {
                    m.iv.remove(0);
                }
            }
            SetOp::Clear => {
                set.clear();
                m = ISet::default();
            }
            SetOp::SetLimit(l) => {
                if *l == 0 {
                    set.remove_limit();
                    limit = None;
                } else {
                    set.set_limit(NonZeroUsize::new(*l as usize).unwrap());
                    limit = Some(*l as usize);
                }
            }
            SetOp::Comb { base, n, width, gap } => {
                let mut a = resolve_pos(&m, *base, T::MAX);
                for _ in 0..*n {
                    let b = a.saturating_add(*width as u64).min(T::MAX);
                    let got = set.insert(T::of(a)..=T::of(b));
                    match model_insert(&m, a, b, limit) {
                        Ok(new) => {
                            ensure_that!(same_set_err(&got, None), "interval_set:insert-result", "step {step} {op:?}: insert [{a}, {b}] into {:?} (limit {limit:?}) returned {got:?}, expected Ok", m.iv);
                            st.merged |= m.touching(a, b) >= 2;
                            m = new;
                        }
                        Err(()) => {
                            ensure_that!(same_set_err(&got, Some(IntervalSetError::LimitExceeded)), "interval_set:insert-result", "step {step} {op:?}: insert [{a}, {b}] into {:?} (limit {limit:?}) returned {got:?}, expected LimitExceeded", m.iv);
                        }
                    }
                    units += 1;
                    match b.checked_add(2 + *gap as u64) {
                        Some(n) if n <= T::MAX => a = n,
                        _ => break,
                    }
                }
            }
        }
        compare_set(px, step, op, &set, &m)?;
        obs.class_if(m.len() >= 16, "intervals>=16");
    }
    obs.units = units;
    obs.nontrivial(st.merged || st.split);
    obs.class_if(st.merged && st.split, "merge+split");
    obs.class_if(limit.is_some(), "limited");
    Ok(())
}

// ---- generated u64 sequences -----------------------------------------------------------

fn val_u64() -> impl Strategy<Value = u64> {
    prop_oneof![
        4 => 0u64..=48,
        2 => (0u64..=8).prop_map(|d| u64::MAX - d),
        2 => (prop::sample::select(vec![1u64 << 8, 1 << 16, 1 << 32, 1 << 63]), 0u64..=6).prop_map(|(p, d)| p + d - 3),
        1 => any::<u64>(),
    ]
}

fn edge_pos() -> impl Strategy<Value = Pos> {
    prop_oneof![
        6 => (any::<u16>(), any::<bool>(), -3i8..=3).prop_map(|(idx, end, delta)| Pos::Edge { idx, end, delta }),
        1 => (any::<u16>(), any::<bool>(), any::<i8>()).prop_map(|(idx, end, delta)| Pos::Edge { idx, end, delta }),
    ]
}

fn pos_u64() -> impl Strategy<Value = Pos> {
    prop_oneof![
        5 => edge_pos(),
        4 => val_u64().prop_map(Pos::Abs),
    ]
}

fn iv_with(pos: impl Strategy<Value = Pos> + Clone + 'static) -> impl Strategy<Value = Iv> {
    let end = prop_oneof![
        6 => (0u32..=5).prop_map(End::Len),
        1 => (0u32..=300).prop_map(End::Len),
        3 => pos.clone().prop_map(End::At),
        1 => (0u8..=3).prop_map(End::Before),
    ];
    (pos, end).prop_map(|(a, end)| Iv { a, end })
}

fn form() -> impl Strategy<Value = Form> {
    prop_oneof![Just(Form::Inclusive), Just(Form::HalfOpen), Just(Form::Bounds), Just(Form::Interval)]
}

fn set_op_u64() -> impl Strategy<Value = SetOp> {
    let iv = || iv_with(pos_u64().boxed());
    let operand = || prop::collection::vec(iv(), 0..7);
    prop_oneof![
        10 => (iv(), form()).prop_map(|(iv, form)| SetOp::Insert { iv, form }),
        2 => iv().prop_map(|iv| SetOp::InsertFront { iv }),
        // below / at the minimum: the documented use of insert_front
        2 => ((-6i8..=1), 0u32..=4).prop_map(|(delta, l)| SetOp::InsertFront { iv: Iv { a: Pos::Edge { idx: 0, end: false, delta }, end: End::Len(l) } }),
        3 => pos_u64().prop_map(SetOp::InsertValue),
        8 => (iv(), form()).prop_map(|(iv, form)| SetOp::Remove { iv, form }),
        3 => pos_u64().prop_map(SetOp::RemoveValue),
        2 => operand().prop_map(SetOp::Union),
        2 => operand().prop_map(SetOp::Difference),
        2 => operand().prop_map(SetOp::Intersection),
        1 => operand().prop_map(SetOp::IntersectionIter),
        1 => Just(SetOp::PopMin),
        1 => prop::bool::weighted(0.15).prop_map(|c| if c { SetOp::Clear } else { SetOp::PopMin }),
        1 => (0u8..=8).prop_map(SetOp::SetLimit),
        2 => (pos_u64(), 2u8..=24, 0u8..=2, 0u8..=2).prop_map(|(base, n, width, gap)| SetOp::Comb { base, n, width, gap }),
    ]
}

fn set_case_u64(_t: Tier) -> impl Strategy<Value = SetCase> {
    (
        prop_oneof![5 => Just(0u8), 1 => Just(1u8)],
        prop_oneof![6 => Just(0u8), 4 => 1u8..=6, 1 => 16u8..=22],
        prop::collection::vec(set_op_u64(), 1..50),
    )
        .prop_map(|(preset, limit, ops)| SetCase { preset, limit, ops })
}

// ---- exhaustive u8 sequences -----------------------------------------------------------

const ALPHA: [[u8; 8]; 2] = [[0, 1, 2, 3, 4, 5, 254, 255], [0, 20, 21, 22, 23, 24, 25, 255]];
const ENUM_LIMITS: [u8; 4] = [0, 1, 2, 3];

fn enum_set_ops(mode: usize) -> &'static Vec<SetOp> {
    static OPS: OnceLock<[Vec<SetOp>; 2]> = OnceLock::new();
    let build = |mode: usize| -> Vec<SetOp> {
        let v = ALPHA[mode];
        let abs = |x: u8| Pos::Abs(x as u64);
        let iv = |a: u8, b: u8| Iv { a: abs(a), end: End::At(abs(b)) };
        let mut ops = vec![];
        for i in 0..8 {
            for j in i..8 {
                ops.push(SetOp::Insert { iv: iv(v[i], v[j]), form: Form::Inclusive });
                ops.push(SetOp::Remove { iv: iv(v[i], v[j]), form: if (i + j) % 2 == 0 { Form::Inclusive } else { Form::HalfOpen } });
            }
        }
        for j in 0..8 {
            ops.push(SetOp::InsertFront { iv: iv(v[0], v[j]) });
        }
        ops.push(SetOp::PopMin);
        let operands: [Vec<Iv>; 4] = [
            vec![iv(v[1], v[1]), iv(v[3], v[3]), iv(v[5], v[5])],
            vec![iv(v[0], v[2]), iv(v[4], v[6])],
            vec![iv(v[2], v[3])],
            vec![iv(v[0], v[0]), iv(v[7], v[7])],
        ];
        for o in &operands {
            ops.push(SetOp::Union(o.clone()));
            ops.push(SetOp::Difference(o.clone()));
            ops.push(SetOp::Intersection(o.clone()));
        }
        ops
    };
    &OPS.get_or_init(|| [build(0), build(1)])[mode]
}

/// number of sequences of length 1..=depth
fn seq_count(n: u64, depth: u32) -> u64 {
    let mut seqs = 0;
    let mut block = 1;
    for _ in 0..depth {
        block *= n;
        seqs += block;
    }
    seqs
}

/// quick: every sequence of <= 3 ops for 2 presets x 4 limits; thorough adds every sequence of 4 ops
/// for 2 presets x limits {none, 2}
fn enum_set_total(t: Tier) -> u64 {
    let n = enum_set_ops(0).len() as u64;
    let s3 = seq_count(n, 3);
    match t {
        Tier::Quick => 8 * s3,
        Tier::Thorough => 8 * s3 + 4 * n * n * n * n,
    }
}

fn decode_seq<T: Clone>(ops: &[T], mut idx: u64) -> Vec<T> {
    let n = ops.len() as u64;
    let mut len = 1;
    let mut block = n;
    while idx >= block {
        idx -= block;
        block *= n;
        len += 1;
    }
    let mut out = Vec::with_capacity(len);
    for _ in 0..len {
        out.push(ops[(idx % n) as usize].clone());
        idx /= n;
    }
    out
}

fn enum_set_case(_t: Tier, idx: u64) -> SetCase {
    let n = enum_set_ops(0).len() as u64;
    let s3 = seq_count(n, 3);
    // the combination rotates with the sequence so that every shard sees all of them
    let (seq, mode, limit) = if idx < 8 * s3 {
        let seq = idx / 8;
        let combo = ((idx % 8 + seq) % 8) as usize;
        (seq, combo / 4, ENUM_LIMITS[combo % 4])
    } else {
        let rest = idx - 8 * s3;
        let seq = s3 + rest / 4;
        let combo = ((rest % 4 + seq) % 4) as usize;
        (seq, combo / 2, [0u8, 2][combo % 2])
    };
    SetCase { preset: mode as u8, limit, ops: decode_seq(enum_set_ops(mode), seq) }
}

// ---- RangeBounds forms (bound kinds) ---------------------------------------------------

#[derive(Clone, Debug, Hash, PartialEq, Eq, Serialize, Deserialize)]
pub struct BoundsCase {
    pub remove: bool,
    /// 0 included, 1 excluded, 2 unbounded
    pub start_kind: u8,
    pub end_kind: u8,
    pub a: u8,
    pub b: u8,
}

const BOUNDS_VALUES: [u8; 14] = [5, 6, 1, 2, 3, 4, 7, 8, 9, 252, 253, 254, 255, 0];

fn bounds_total(_t: Tier) -> u64 {
    (2 * 3 * 3 * BOUNDS_VALUES.len() * BOUNDS_VALUES.len()) as u64
}

fn bounds_case(_t: Tier, mut idx: u64) -> BoundsCase {
    let n = BOUNDS_VALUES.len() as u64;
    let b = BOUNDS_VALUES[(idx % n) as usize];
    idx /= n;
    let a = BOUNDS_VALUES[(idx % n) as usize];
    idx /= n;
    let end_kind = (idx % 3) as u8;
    idx /= 3;
    let start_kind = (idx % 3) as u8;
    idx /= 3;
    BoundsCase { remove: idx % 2 == 1, start_kind, end_kind, a, b }
}

/// `insert`/`remove` take any `RangeBounds<T>`: the elements denoted by the bounds are the ones a
/// reference set would add/remove. Unbounded sides may be refused (`InvalidInterval`), empty ranges
/// may be refused or ignored; either way nothing else may change.
fn run_bounds(c: &BoundsCase, obs: &mut Obs) -> CaseResult {
    model_selftest();
    let mut set: IntervalSet<u8> = IntervalSet::new();
    let mut m = ISet::default();
    for (s, e) in [(2u8, 4u8), (7, 7), (253, 254)] {
        set.insert(s..=e).unwrap();
        m = m.insert(s as u64, e as u64);
    }
    let bound = |k: u8, v: u8| match k {
        0 => Bound::Included(v),
        1 => Bound::Excluded(v),
        _ => Bound::Unbounded,
    };
    let r = (bound(c.start_kind, c.a), bound(c.end_kind, c.b));
    let lo: Option<u64> = match c.start_kind {
        0 => Some(c.a as u64),
        1 => (c.a < 255).then(|| c.a as u64 + 1),
        _ => Some(0),
    };
    let hi: Option<u64> = match c.end_kind {
        0 => Some(c.b as u64),
        1 => (c.b > 0).then(|| c.b as u64 - 1),
        _ => Some(255),
    };
    let denoted = match (lo, hi) {
        (Some(lo), Some(hi)) if lo <= hi => Some((lo, hi)),
        _ => None,
    };
    let got = if c.remove { set.remove(r) } else { set.insert(r) };
    let unbounded = c.start_kind == 2 || c.end_kind == 2;
    let applied = |m: &ISet, (lo, hi): (u64, u64)| if c.remove { m.remove(lo, hi) } else { m.insert(lo, hi) };
    let key = if c.start_kind == 1 { "interval_set:excluded-start-bound" } else { "interval_set:range-bounds" };
    let want: ISet = match (denoted, &got) {
        (None, Ok(())) | (None, Err(IntervalSetError::InvalidInterval)) => {
            obs.class("empty-range");
            m.clone()
        }
        (Some(_), Err(IntervalSetError::InvalidInterval)) if unbounded => {
            obs.class("unbounded-refused");
            m.clone()
        }
        (Some(d), Ok(())) => {
            obs.nontrivial(m.touching(d.0, d.1) >= 2 || applied(&m, d).len() > m.len());
            applied(&m, d)
        }
        _ => fail!(key, "{c:?}: {} {r:?} on {:?} returned {got:?}; the range denotes {denoted:?}", if c.remove { "remove" } else { "insert" }, m.iv),
    };
    let have = read_intervals(&set);
    ensure_that!(have == want.iv, key, "{c:?}: {} {r:?} (denoting {denoted:?}) on {:?} returned {got:?} and left {have:?}; a reference set holds {:?}", if c.remove { "remove" } else { "insert" }, m.iv, want.iv);
    compare_set("interval_set", 0, c, &set, &want)?;
    obs.units = 1;
    Ok(())
}

// =======================================================================================
// ack::Ranges

#[derive(Clone, Debug, Hash, PartialEq, Eq, Serialize, Deserialize)]
pub enum RangesOp {
    InsertRange(Iv),
    InsertPn(Pos),
    /// through `DerefMut<Target = IntervalSet<PacketNumber>>`, as the ack manager does
    Remove(Iv),
    PopMin,
    Clear,
}

#[derive(Clone, Debug, Hash, PartialEq, Eq, Serialize, Deserialize)]
pub struct RangesCase {
    /// 1..=10
    pub limit: u8,
    pub ops: Vec<RangesOp>,
}

pub fn run_ranges(case: &RangesCase, obs: &mut Obs) -> CaseResult {
    model_selftest();
    let px = "ack_ranges";
    let limit = case.limit.max(1) as usize;
    let mut ranges = ack::Ranges::new(limit);
    let mut m = ISet::default();
    let mut evictions = 0u32;
    let mut rejected = 0u32;
    for (step, op) in case.ops.iter().enumerate() {
        match op {
            RangesOp::InsertRange(_) | RangesOp::InsertPn(_) => {
                let (a, b, got) = match op {
                    RangesOp::InsertRange(iv) => {
                        let (a, b) = resolve_iv(&m, *iv, PN_MAX);
                        // PacketNumberRange::new requires start <= end
                        let (a, b) = (a.min(b), a.max(b));
                        (a, b, ranges.insert_packet_number_range(PacketNumberRange::new(pn(a), pn(b))))
                    }
                    RangesOp::InsertPn(p) => {
                        let a = resolve_pos(&m, *p, PN_MAX);
                        (a, a, ranges.insert_packet_number(pn(a)))
                    }
                    _ => unreachable!(),
                };
                let new = m.insert(a, b);
                if new.len() <= limit {
                    ensure_that!(got.is_ok(), "ack_ranges:insert-result", "step {step} {op:?}: insert [{a}, {b}] into {:?} (limit {limit}) returned {got:?}, expected Ok", m.iv);
                    obs.class_if(m.touching(a, b) >= 2, "merge>=2");
                    m = new;
                } else {
                    // full: a range above the lowest one evicts the lowest one (only); a range
                    // below it is rejected
                    assert_eq!(new.len(), limit + 1);
                    let lowest = m.iv[0];
                    if lowest.1 < a {
                        let want = ack::ranges::Error::LowestRangeDropped { min: pn(lowest.0), max: pn(lowest.1) };
                        ensure_that!(got == Err(want), "ack_ranges:insert-result", "step {step} {op:?}: insert [{a}, {b}] into full {:?} (limit {limit}) returned {got:?}, expected {want:?}", m.iv);
                        m = new;
                        m.iv.remove(0);
                        evictions += 1;
                    } else {
                        let want = ack::ranges::Error::RangeInsertionFailed { min: pn(a), max: pn(b) };
                        ensure_that!(got == Err(want), "ack_ranges:insert-result", "step {step} {op:?}: insert [{a}, {b}] below the minimum of full {:?} (limit {limit}) returned {got:?}, expected {want:?}", m.iv);
                        rejected += 1;
                    }
                }
            }
            RangesOp::Remove(iv) => {
                let (a, b) = resolve_iv(&m, *iv, PN_MAX);
                let (a, b) = (a.min(b), a.max(b));
                let got = ranges.remove(pn(a)..=pn(b));
                match model_remove(&m, a, b, Some(limit)) {
                    RemoveExpect::Ok(new) => {
                        ensure_that!(got.is_ok(), "ack_ranges:remove-result", "step {step} {op:?}: remove [{a}, {b}] from {:?} (limit {limit}) returned {got:?}", m.iv);
                        obs.class_if(new.len() > m.len(), "split");
                        m = new;
                    }
                    RemoveExpect::MustReject => {
                        obs.class("remove-limit-exceeded");
                        ensure_that!(got == Err(IntervalSetError::LimitExceeded), "ack_ranges:remove-result", "step {step} {op:?}: splitting remove [{a}, {b}] from full {:?} (limit {limit}) returned {got:?}", m.iv);
                    }
                    RemoveExpect::Either(new) => match got {
                        Ok(()) => m = new,
                        Err(IntervalSetError::LimitExceeded) => obs.class("remove-split-onto-limit-rejected"),
                        Err(e) => fail!("ack_ranges:remove-result", "step {step} {op:?}: returned {e:?}"),
                    },
                }
            }
            RangesOp::PopMin => {
                let got = ranges.pop_min().map(|i| (i.start_inclusive().as_u64(), i.end_inclusive().as_u64()));
                let want = m.iv.first().copied();
                ensure_that!(got == want, "ack_ranges:pop_min", "step {step}: pop_min returned {got:?}, expected {want:?}");
                if want.is_some() {
                    m.iv.remove(0);
                }
            }
            RangesOp::Clear => {
                ranges.clear();
                m = ISet::default();
            }
        }
        compare_set::<PacketNumber>(px, step, op, &ranges, &m)?;
        ensure_that!(ranges.interval_len() <= limit, "ack_ranges:limit", "step {step} {op:?}: {} ranges with limit {limit}", ranges.interval_len());
        let spread = match (m.iv.first(), m.iv.last()) {
            (Some(f), Some(l)) => l.1 - f.0,
            _ => 0,
        };
        ensure_that!(ranges.spread() as u64 == spread, "ack_ranges:spread", "step {step} {op:?}: spread {} model {spread}", ranges.spread());
        let frame: Vec<(u64, u64)> = (&ranges).ack_ranges().map(|r| (r.start().as_u64(), r.end().as_u64())).collect();
        let mut want = m.iv.clone();
        want.reverse();
        ensure_that!(frame == want, "ack_ranges:ack_ranges", "step {step} {op:?}: ack_ranges() {frame:?}, expected {want:?}");
    }
    obs.units = case.ops.len() as u64;
    obs.nontrivial(evictions > 0);
    obs.class_if(evictions > 0, "evicted-lowest");
    obs.class_if(evictions >= 5, "evicted>=5");
    obs.class_if(rejected > 0, "rejected-below-min");
    obs.class_if(limit == 1, "limit=1");
    obs.class_if(limit == 10, "limit=10");
    Ok(())
}

fn val_pn() -> impl Strategy<Value = u64> {
    prop_oneof![
        4 => 0u64..=64,
        2 => (0u64..=8).prop_map(|d| PN_MAX - d),
        1 => 0u64..=PN_MAX,
    ]
}

fn pos_pn() -> impl Strategy<Value = Pos> {
    prop_oneof![
        // above the maximum (the usual receive order): adjacent, one gap, larger gaps
        6 => (0i8..=4).prop_map(|delta| Pos::Edge { idx: u16::MAX, end: true, delta }),
        1 => (5i8..=100).prop_map(|delta| Pos::Edge { idx: u16::MAX, end: true, delta }),
        // around / below the minimum
        3 => (-4i8..=2).prop_map(|delta| Pos::Edge { idx: 0, end: false, delta }),
        4 => edge_pos(),
        2 => val_pn().prop_map(Pos::Abs),
    ]
}

fn ranges_case(_t: Tier) -> impl Strategy<Value = RangesCase> {
    let iv = || iv_with(pos_pn().boxed());
    let op = prop_oneof![
        8 => pos_pn().prop_map(RangesOp::InsertPn),
        6 => iv().prop_map(RangesOp::InsertRange),
        3 => iv().prop_map(RangesOp::Remove),
        1 => Just(RangesOp::PopMin),
        1 => prop::bool::weighted(0.1).prop_map(|c| if c { RangesOp::Clear } else { RangesOp::PopMin }),
    ];
    (1u8..=10, prop::collection::vec(op, 1..70)).prop_map(|(limit, ops)| RangesCase { limit, ops })
}

// =======================================================================================
// packet::number::Map

#[derive(Clone, Copy, Debug, Hash, PartialEq, Eq, Serialize, Deserialize)]
pub enum MapPos {
    /// idx-th present key + delta
    Key { idx: u16, delta: i8 },
    Start(i8),
    End(i8),
    Abs(u64),
}

#[derive(Clone, Copy, Debug, Hash, PartialEq, Eq, Serialize, Deserialize)]
pub enum MapEnd {
    /// a + len
    Len(u16),
    At(MapPos),
}

#[derive(Clone, Debug, Hash, PartialEq, Eq, Serialize, Deserialize)]
pub enum MapOp {
    /// `insert` of a packet number above everything inserted before: high-water mark + 1 + gap
    Insert { gap: u16 },
    InsertOrUpdate { at: MapPos },
    Remove(MapPos),
    /// `remove_range`, consuming `take` items of the returned iterator before dropping it
    RemoveRange { a: MapPos, b: MapEnd, take: u8 },
    Get(MapPos),
    Clear,
    IterMut,
}

#[derive(Clone, Debug, Hash, PartialEq, Eq, Serialize, Deserialize)]
pub struct MapCase {
    pub base: u64,
    pub ops: Vec<MapOp>,
}

/// the map allocates one slot per packet number between its lowest and highest key
const MAP_SPAN: u64 = 5000;

fn resolve_map_pos(m: &BTreeMap<u64, u32>, hwm: Option<u64>, base: u64, p: MapPos) -> u64 {
    let first = m.keys().next().copied();
    let last = m.keys().next_back().copied();
    let fallback = hwm.unwrap_or(base);
    match p {
        MapPos::Key { idx, delta } => {
            if m.is_empty() {
                shift(fallback, delta as i64, PN_MAX)
            } else {
                let k = *m.keys().nth(pick_index(idx, m.len())).unwrap();
                shift(k, delta as i64, PN_MAX)
            }
        }
        MapPos::Start(d) => shift(first.unwrap_or(fallback), d as i64, PN_MAX),
        MapPos::End(d) => shift(last.unwrap_or(fallback), d as i64, PN_MAX),
        MapPos::Abs(v) => v.min(PN_MAX),
    }
}

fn compare_map(step: usize, op: &MapOp, map: &Map<u32>, m: &BTreeMap<u64, u32>) -> CaseResult {
    ensure_that!(map.is_empty() == m.is_empty(), "pn_map:is_empty", "step {step} {op:?}: is_empty {} model {}", map.is_empty(), m.is_empty());
    let got: Vec<(u64, u32)> = map.iter().map(|(k, v)| (k.as_u64(), *v)).collect();
    let want: Vec<(u64, u32)> = m.iter().map(|(k, v)| (*k, *v)).collect();
    ensure_that!(got == want, "pn_map:iter", "step {step} {op:?}: iter() {got:?}, reference map {want:?}");
    if let (Some(first), Some(last)) = (m.keys().next(), m.keys().next_back()) {
        let r = map.get_range();
        let r = (r.start().as_u64(), r.end().as_u64());
        ensure_that!(r == (*first, *last), "pn_map:get_range", "step {step} {op:?}: get_range {r:?}, reference map spans ({first}, {last})");
        let probe = |k: u64| -> CaseResult {
            let got = map.get(pn(k)).copied();
            ensure_that!(got == m.get(&k).copied(), "pn_map:get", "step {step} {op:?}: get({k}) = {got:?}, reference map {:?}", m.get(&k));
            Ok(())
        };
        if last - first <= 200 {
            for k in first.saturating_sub(2)..=last.saturating_add(2).min(PN_MAX) {
                probe(k)?;
            }
        } else {
            for (i, k) in m.keys().enumerate() {
                if i < 40 || i + 40 >= m.len() {
                    probe(*k)?;
                    probe(k.saturating_sub(1))?;
                    probe(k.saturating_add(1).min(PN_MAX))?;
                }
            }
            probe(first.saturating_sub(1))?;
            probe(last.saturating_add(1).min(PN_MAX))?;
        }
    } else {
        for k in [0, 1, PN_MAX] {
            ensure_that!(map.get(pn(k)).is_none(), "pn_map:get", "step {step} {op:?}: get({k}) on an empty map returned a value");
        }
    }
    Ok(())
}

pub fn run_map(case: &MapCase, obs: &mut Obs) -> CaseResult {
    let base = case.base.min(PN_MAX);
    let mut map: Map<u32> = Map::default();
    let mut m: BTreeMap<u64, u32> = BTreeMap::new();
    // highest packet number ever inserted
    let mut hwm: Option<u64> = None;
    let mut gap_range = false;
    let mut units = 0;
    for (step, op) in case.ops.iter().enumerate() {
        let value = step as u32 + 1;
        let first = m.keys().next().copied();
        match op {
            MapOp::Insert { gap } => {
                let k = match hwm {
                    Some(h) => h.saturating_add(1 + *gap as u64),
                    None => base.saturating_add(*gap as u64),
                };
                if k > PN_MAX || first.map(|f| k - f > MAP_SPAN).unwrap_or(false) {
                    obs.class("insert-skipped");
                    continue;
                }
                map.insert(pn(k), value);
                m.insert(k, value);
                hwm = Some(k);
                obs.class_if(*gap > 0, "insert-with-gap");
            }
            MapOp::InsertOrUpdate { at } => {
                let mut k = resolve_map_pos(&m, hwm, base, *at);
                if let Some(f) = first {
                    // documented: not lower than the start
                    k = k.max(f);
                    if k - f > MAP_SPAN {
                        obs.class("insert-skipped");
                        continue;
                    }
                } else {
                    // empty map: stay near the packet numbers used so far
                    let near = hwm.unwrap_or(base);
                    k = k.clamp(near.saturating_sub(64), near.saturating_add(64).min(PN_MAX));
                }
                map.insert_or_update(pn(k), value, |prev| *prev = prev.wrapping_mul(31).wrapping_add(value));
                match m.get_mut(&k) {
                    Some(prev) => {
                        *prev = prev.wrapping_mul(31).wrapping_add(value);
                        obs.class("update-existing");
                    }
                    None => {
                        obs.class_if(m.keys().next_back().map(|l| k < *l).unwrap_or(false), "insert-into-hole");
                        m.insert(k, value);
                    }
                }
                hwm = Some(hwm.map_or(k, |h| h.max(k)));
            }
            MapOp::Remove(p) => {
                let k = resolve_map_pos(&m, hwm, base, *p);
                let got = map.remove(pn(k));
                let want = m.remove(&k);
                ensure_that!(got == want, "pn_map:remove", "step {step} {op:?}: remove({k}) returned {got:?}, reference map {want:?}");
                obs.class_if(want.is_some() && Some(k) == first, "remove-first");
            }
            MapOp::RemoveRange { a, b, take } => {
                let a = resolve_map_pos(&m, hwm, base, *a);
                let b = match b {
                    MapEnd::Len(l) => a.saturating_add(*l as u64).min(PN_MAX),
                    MapEnd::At(p) => resolve_map_pos(&m, hwm, base, *p),
                };
                let (a, b) = (a.min(b), a.max(b));
                let want: Vec<(u64, u32)> = m.range(a..=b).map(|(k, v)| (*k, *v)).collect();
                let take = if *take == u8::MAX { usize::MAX } else { *take as usize };
                let got: Vec<(u64, u32)> = map.remove_range(PacketNumberRange::new(pn(a), pn(b))).take(take).map(|(k, v)| (k.as_u64(), v)).collect();
                let want_prefix = &want[..want.len().min(take)];
                ensure_that!(got == want_prefix, "pn_map:remove_range", "step {step} {op:?}: remove_range({a}..={b}) yielded {got:?}, reference map holds {want:?} there (taking {take})");
                if want.len() >= 2 && (want.last().unwrap().0 - want[0].0) as usize > want.len() - 1 {
                    gap_range = true;
                    obs.class("remove_range-over-gap");
                }
                obs.class_if(take < want.len(), "remove_range-dropped-early");
                obs.class_if(!want.is_empty() && want.len() == m.len(), "remove_range-all");
                for (k, _) in &want {
                    m.remove(k);
                }
            }
            MapOp::Get(p) => {
                let k = resolve_map_pos(&m, hwm, base, *p);
                let got = map.get(pn(k)).copied();
                ensure_that!(got == m.get(&k).copied(), "pn_map:get", "step {step} {op:?}: get({k}) = {got:?}, reference map {:?}", m.get(&k));
            }
            MapOp::Clear => {
                map.clear();
                m.clear();
            }
            MapOp::IterMut => {
                let mut seen = vec![];
                for (k, v) in map.iter_mut() {
                    *v = v.wrapping_add(1_000_000);
                    seen.push(k.as_u64());
                }
                let want: Vec<u64> = m.keys().copied().collect();
                ensure_that!(seen == want, "pn_map:iter_mut", "step {step}: iter_mut() visited {seen:?}, reference map keys {want:?}");
                for v in m.values_mut() {
                    *v = v.wrapping_add(1_000_000);
                }
            }
        }
        units += 1;
        compare_map(step, op, &map, &m)?;
        obs.class_if(m.len() > 8, "grown");
    }
    obs.units = units;
    obs.nontrivial(gap_range);
    Ok(())
}

fn map_pos() -> impl Strategy<Value = MapPos> {
    prop_oneof![
        5 => (any::<u16>(), -2i8..=2).prop_map(|(idx, delta)| MapPos::Key { idx, delta }),
        2 => (any::<u16>(), Just(0i8)).prop_map(|(idx, delta)| MapPos::Key { idx, delta }),
        3 => (-3i8..=3).prop_map(MapPos::Start),
        3 => (-3i8..=3).prop_map(MapPos::End),
        1 => any::<i8>().prop_map(MapPos::End),
        1 => prop_oneof![0u64..=40, Just(PN_MAX), 0u64..=PN_MAX].prop_map(MapPos::Abs),
    ]
}

fn map_end() -> impl Strategy<Value = MapEnd> {
    prop_oneof![
        6 => (0u16..=6).prop_map(MapEnd::Len),
        2 => (0u16..=40).prop_map(MapEnd::Len),
        1 => (0u16..=3000).prop_map(MapEnd::Len),
        2 => map_pos().prop_map(MapEnd::At),
    ]
}

fn map_case(_t: Tier) -> impl Strategy<Value = MapCase> {
    let gap = prop_oneof![
        12 => Just(0u16),
        5 => 1u16..=3,
        2 => 1u16..=20,
        1 => 1u16..=600,
    ];
    let op = prop_oneof![
        12 => gap.prop_map(|gap| MapOp::Insert { gap }),
        3 => map_pos().prop_map(|at| MapOp::InsertOrUpdate { at }),
        4 => map_pos().prop_map(MapOp::Remove),
        5 => (map_pos(), map_end(), prop_oneof![4 => Just(u8::MAX), 1 => 0u8..=3]).prop_map(|(a, b, take)| MapOp::RemoveRange { a, b, take }),
        1 => map_pos().prop_map(MapOp::Get),
        1 => prop::bool::weighted(0.2).prop_map(|c| if c { MapOp::Clear } else { MapOp::IterMut }),
    ];
    let base = prop_oneof![
        4 => 0u64..=3,
        3 => 0u64..=100_000,
        1 => (0u64..=80).prop_map(|d| PN_MAX - d),
        1 => 0u64..=PN_MAX,
    ];
    (base, prop::collection::vec(op, 1..80)).prop_map(|(base, ops)| MapCase { base, ops })
}

// =======================================================================================
// SlidingWindow

/// read from `sliding_window.rs`: a 128-bit field for the packet numbers below the right edge
/// plus the right edge itself
const WINDOW_WIDTH: u64 = 129;

#[derive(Clone, Copy, Debug, Hash, PartialEq, Eq, Serialize, Deserialize)]
pub enum SwPos {
    /// right edge + d
    Right(u16),
    /// right edge - d
    Left(u16),
    Abs(u64),
}

#[derive(Clone, Copy, Debug, Hash, PartialEq, Eq, Serialize, Deserialize)]
pub enum SwOp {
    Insert(SwPos),
    InsertWithEvicted(SwPos),
    Check(SwPos),
}

#[derive(Clone, Debug, Hash, PartialEq, Eq, Serialize, Deserialize)]
pub struct SwCase {
    pub base: u64,
    pub ops: Vec<SwOp>,
}

#[derive(Default)]
struct SwModel {
    right_edge: Option<u64>,
    /// every packet number ever inserted successfully
    seen: BTreeSet<u64>,
}

#[derive(Debug, PartialEq, Eq, Clone, Copy)]
enum SwVerdict {
    Fresh,
    Duplicate,
    TooOld,
}

impl SwModel {
    fn check(&self, x: u64) -> SwVerdict {
        match self.right_edge {
            None => SwVerdict::Fresh,
            Some(re) if x > re => SwVerdict::Fresh,
            Some(re) if re - x >= WINDOW_WIDTH => SwVerdict::TooOld,
            Some(_) if self.seen.contains(&x) => SwVerdict::Duplicate,
            Some(_) => SwVerdict::Fresh,
        }
    }
    /// returns the evicted packet numbers: never inserted, inside the old window, outside the new
    fn insert(&mut self, x: u64) -> Result<Vec<u64>, SwVerdict> {
        match self.check(x) {
            SwVerdict::Fresh => {}
            v => return Err(v),
        }
        self.seen.insert(x);
        let mut evicted = vec![];
        match self.right_edge {
            None => self.right_edge = Some(x),
            Some(old) if x > old => {
                let old_left = old.saturating_sub(WINDOW_WIDTH - 1);
                for y in old_left..old {
                    if x - y >= WINDOW_WIDTH && !self.seen.contains(&y) {
                        evicted.push(y);
                    }
                }
                self.right_edge = Some(x);
            }
            Some(_) => {}
        }
        Ok(evicted)
    }
}

fn verdict_of(r: &Result<(), SlidingWindowError>) -> SwVerdict {
    match r {
        Ok(()) => SwVerdict::Fresh,
        Err(SlidingWindowError::Duplicate) => SwVerdict::Duplicate,
        Err(SlidingWindowError::TooOld) => SwVerdict::TooOld,
    }
}

pub fn run_sw(case: &SwCase, obs: &mut Obs) -> CaseResult {
    let base = case.base.min(PN_MAX);
    let mut sw = SlidingWindow::default();
    let mut m = SwModel::default();
    let mut evictions = 0usize;
    for (step, op) in case.ops.iter().enumerate() {
        let resolve = |p: SwPos| -> u64 {
            let re = m.right_edge.unwrap_or(base);
            match p {
                SwPos::Right(d) => re.saturating_add(d as u64).min(PN_MAX),
                SwPos::Left(d) => re.saturating_sub(d as u64),
                SwPos::Abs(v) => v.min(PN_MAX),
            }
        };
        match *op {
            SwOp::Check(p) => {
                let x = resolve(p);
                let got = verdict_of(&sw.check(pn(x)));
                ensure_that!(got == m.check(x), "sliding_window:check", "step {step} {op:?}: check({x}) = {got:?}, model {:?} (right edge {:?})", m.check(x), m.right_edge);
            }
            SwOp::Insert(p) => {
                let x = resolve(p);
                let old = m.right_edge;
                let got = verdict_of(&sw.insert(pn(x)));
                let want = match m.insert(x) {
                    Ok(ev) => {
                        evictions += ev.len();
                        SwVerdict::Fresh
                    }
                    Err(v) => v,
                };
                ensure_that!(got == want, "sliding_window:insert-result", "step {step} {op:?}: insert({x}) with right edge {old:?} returned {got:?}, model {want:?}");
                obs.class_if(want == SwVerdict::Duplicate, "duplicate");
                obs.class_if(want == SwVerdict::TooOld, "too-old");
            }
            SwOp::InsertWithEvicted(p) => {
                let x = resolve(p);
                let old = m.right_edge;
                let got = sw.insert_with_evicted(pn(x));
                let want = m.insert(x);
                match (got, want) {
                    (Ok(set), Ok(ev)) => {
                        let mut got: Vec<u64> = set.map(|p| p.as_u64()).collect();
                        got.sort();
                        ensure_that!(got.windows(2).all(|w| w[0] != w[1]), "sliding_window:evicted-set", "step {step} {op:?}: EvictedSet yields a packet number twice: {got:?}");
                        ensure_that!(got == ev, "sliding_window:evicted-set", "step {step} {op:?}: insert({x}) with right edge {old:?} evicted {got:?}, model {ev:?}");
                        evictions += ev.len();
                        obs.class_if(ev.len() == 128, "evicted-whole-window");
                        obs.class_if(old.map(|o| x > o && x - o >= WINDOW_WIDTH).unwrap_or(false), "far-jump");
                    }
                    (Err(e), Err(v)) => {
                        let got = verdict_of(&Err(e));
                        ensure_that!(got == v, "sliding_window:insert-result", "step {step} {op:?}: insert({x}) with right edge {old:?} returned {got:?}, model {v:?}");
                        obs.class_if(v == SwVerdict::Duplicate, "duplicate");
                        obs.class_if(v == SwVerdict::TooOld, "too-old");
                    }
                    (got, want) => {
                        let got = got.map(|s| s.map(|p| p.as_u64()).collect::<Vec<_>>());
                        fail!("sliding_window:insert-result", "step {step} {op:?}: insert({x}) with right edge {old:?} returned {got:?}, model {want:?}");
                    }
                }
            }
        }
        // full observable state: the verdict for every packet number around the window
        if let Some(re) = m.right_edge {
            let lo = re.saturating_sub(WINDOW_WIDTH + 3);
            let hi = re.saturating_add(3).min(PN_MAX);
            for x in lo..=hi {
                let got = verdict_of(&sw.check(pn(x)));
                ensure_that!(got == m.check(x), "sliding_window:content", "step {step} {op:?}: check({x}) = {got:?}, model {:?} (right edge {re}, distance {})", m.check(x), re as i128 - x as i128);
            }
        } else {
            for x in [0, 1, base, PN_MAX] {
                ensure_that!(sw.check(pn(x)).is_ok(), "sliding_window:content", "step {step} {op:?}: empty window rejects {x}");
            }
        }
    }
    obs.units = case.ops.len() as u64;
    obs.nontrivial(evictions > 0);
    obs.class_if(evictions > 0, "evicted");
    Ok(())
}

fn sw_pos() -> impl Strategy<Value = SwPos> {
    let edge = || prop_oneof![Just(126u16), Just(127), Just(128), Just(129), Just(130), Just(1), Just(2), Just(255), Just(256), Just(257)];
    prop_oneof![
        5 => (0u16..=4).prop_map(SwPos::Right),
        3 => (0u16..=300).prop_map(SwPos::Right),
        3 => edge().prop_map(SwPos::Right),
        4 => (0u16..=300).prop_map(SwPos::Left),
        4 => edge().prop_map(SwPos::Left),
        2 => (0u16..=8).prop_map(SwPos::Left),
        1 => prop_oneof![0u64..=300, 0u64..=PN_MAX, (0u64..=300).prop_map(|d| PN_MAX - d)].prop_map(SwPos::Abs),
    ]
}

fn sw_case(_t: Tier) -> impl Strategy<Value = SwCase> {
    let op = prop_oneof![
        3 => sw_pos().prop_map(SwOp::Insert),
        6 => sw_pos().prop_map(SwOp::InsertWithEvicted),
        1 => sw_pos().prop_map(SwOp::Check),
    ];
    let base = prop_oneof![
        3 => 0u64..=300,
        2 => 0u64..=100_000,
        2 => (0u64..=400).prop_map(|d| PN_MAX - d),
        1 => 0u64..=PN_MAX,
    ];
    (base, prop::collection::vec(op, 1..60)).prop_map(|(base, ops)| SwCase { base, ops })
}

const SW_ALPHA: [u64; 16] = [0, 1, 2, 126, 127, 128, 129, 130, 131, 255, 256, 257, 258, 259, 260, 387];

fn sw_enum_total(t: Tier) -> u64 {
    let n = SW_ALPHA.len() as u64;
    let mut seqs = 0;
    let mut block = 1;
    for _ in 0..t.pick(4, 5) {
        block *= n;
        seqs += block;
    }
    seqs
}

fn sw_enum_case(_t: Tier, idx: u64) -> SwCase {
    static OPS: OnceLock<Vec<SwOp>> = OnceLock::new();
    let ops = OPS.get_or_init(|| SW_ALPHA.iter().map(|v| SwOp::InsertWithEvicted(SwPos::Abs(*v))).collect());
    SwCase { base: 0, ops: decode_seq(ops, idx) }
}

// =======================================================================================

pub fn subs() -> Vec<Box<dyn SubCheck>> {
    vec![
        Box::new(EnumCheck::<SetCase> {
            name: "interval_set_u8_exhaustive",
            total: enum_set_total,
            case: enum_set_case,
            oracle: run_set::<u8>,
        }),
        Box::new(EnumCheck::<BoundsCase> {
            name: "interval_set_bounds_exhaustive",
            total: bounds_total,
            case: bounds_case,
            oracle: run_bounds,
        }),
        Box::new(PropCheck::<SetCase, _> {
            name: "interval_set_ops",
            cases: |t| t.pick(160_000, 4_000_000),
            strategy: set_case_u64,
            oracle: run_set::<u64>,
            max_shrink_iters: 20_000,
        }),
        Box::new(PropCheck::<RangesCase, _> {
            name: "ack_ranges_ops",
            cases: |t| t.pick(250_000, 4_000_000),
            strategy: ranges_case,
            oracle: run_ranges,
            max_shrink_iters: 20_000,
        }),
        Box::new(PropCheck::<MapCase, _> {
            name: "pn_map_ops",
            cases: |t| t.pick(250_000, 4_000_000),
            strategy: map_case,
            oracle: run_map,
            max_shrink_iters: 20_000,
        }),
        Box::new(EnumCheck::<SwCase> {
            name: "sliding_window_exhaustive",
            total: sw_enum_total,
            case: sw_enum_case,
            oracle: run_sw,
        }),
        Box::new(PropCheck::<SwCase, _> {
            name: "sliding_window_ops",
            cases: |t| t.pick(160_000, 2_000_000),
            strategy: sw_case,
            oracle: run_sw,
            max_shrink_iters: 20_000,
        }),
    ]
}
