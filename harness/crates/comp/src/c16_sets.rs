//! C16 (part 2): IntervalSet, ack::Ranges, packet::number::Map, SlidingWindow — not built yet.

use vcore::SubCheck;

pub fn subs() -> Vec<Box<dyn SubCheck>> {
    vec![]
}
