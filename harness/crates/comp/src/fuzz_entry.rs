//! Entry points for the coverage-guided fuzz targets (/verif/fuzz): raw bytes -> the same oracles the
//! generated checks use. A verdict that is not a listed known finding panics with `VERIF-VIOLATION|<key>|<msg>`.

use crate::{c05_codec, c14_params, c16_reassembler};
use std::sync::Once;
use vcore::Obs;

static INIT: Once = Once::new();

/// loads the known-finding keys of the property once (VERIF_ROOT or /verif)
pub fn init(property: &str) {
    INIT.call_once(|| {
        let keys: Vec<String> = vcore::load_known(&vcore::verif_root()).into_iter().filter(|k| k.property == property && k.status == "known").map(|k| k.key).collect();
        vcore::set_known_keys(keys);
    });
}

fn verdict(r: Result<(), vcore::Fail>) {
    if let Err(f) = r {
        if vcore::is_known_key(&f.key) {
            return;
        }
        panic!("VERIF-VIOLATION|{}|{}", f.key, f.msg);
    }
}

/// (non-trivial?) statistics are kept by the caller: returns true when both decoders agreed on >= 1 multi-field frame
pub fn c05_frames(data: &[u8]) -> bool {
    init("C05");
    let mut obs = Obs::default();
    match c05_codec::fuzz_payload(data, &mut obs) {
        Ok(n) => n > 0,
        Err(f) => {
            verdict(Err(f));
            false
        }
    }
}

pub fn c05_datagram(data: &[u8]) -> bool {
    init("C05");
    let Some((first, rest)) = data.split_first() else { return false };
    let mut obs = Obs::default();
    match c05_codec::fuzz_datagram(rest, (*first % 21) as usize, &mut obs) {
        Ok(n) => n > 0,
        Err(f) => {
            verdict(Err(f));
            false
        }
    }
}

pub fn c14_params(data: &[u8]) -> bool {
    init("C14");
    let Some((first, rest)) = data.split_first() else { return false };
    let role = if first & 1 == 0 { c14_params::Role::Client } else { c14_params::Role::Server };
    let mut obs = Obs::default();
    let r = c14_params::check_bytes(rest, role, &mut obs);
    let nontrivial = obs.nontrivial;
    verdict(r);
    nontrivial
}

/// op sequences for the reassembler, 6 bytes per op
pub fn c16_reassembler(data: &[u8]) -> bool {
    use c16_reassembler::{Off, Op};
    init("C16");
    let mut ops = vec![];
    for c in data.chunks_exact(6).take(20) {
        let d = i16::from_le_bytes([c[2], c[3]]) as i32;
        let off = match c[1] % 6 {
            0 => Off::Cursor(d),
            1 => Off::MaxRecv(d),
            2 => Off::Final(d),
            3 => Off::Boundary { which: c[2] % 5, k: c[3] % 4, delta: (c[4] as i8) as i32 },
            4 => Off::NearMax(u16::from_le_bytes([c[2], c[3]]) as u32),
            _ => Off::Abs(u32::from_le_bytes([c[2], c[3], c[4], c[5]]) as u64),
        };
        let len = match c[4] % 4 {
            0 => c[5] as u32,
            1 => 4096 + (c[5] as i8) as i32 as u32 % 8192,
            2 => u16::from_le_bytes([c[4], c[5]]) as u32,
            _ => (c[5] as u32) << 6,
        }
        .min(24_000);
        ops.push(match c[0] % 8 {
            0..=2 => Op::Write { off, len, fin: c[0] & 0x80 != 0 },
            3 => Op::FailingWrite { off, len, fin: c[0] & 0x80 != 0 },
            4 => Op::Pop { watermark: if c[1] & 0x80 != 0 { Some(len) } else { None } },
            5 => Op::Skip { len: len as u64 },
            6 => Op::Iter,
            _ => {
                if c[1] & 0xc0 == 0xc0 {
                    Op::Reset
                } else {
                    Op::Pop { watermark: None }
                }
            }
        });
    }
    let mut obs = Obs::default();
    let r = c16_reassembler::run_ops(&ops, &mut obs);
    let nontrivial = obs.nontrivial;
    verdict(r);
    nontrivial
}
