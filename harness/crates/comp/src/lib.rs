//! Component-level checks: the code under test is driven directly through its public API
//! and compared with independent reference models / RFC transcriptions.
//!
//! One module per (part of a) property; each exports `subs()` (its sub-checks) and, where
//! it owns the whole property at component level, `property()`.

pub mod c05_codec;
pub mod c06_crypto;
pub mod c08_pn;
pub mod c09_recovery;
pub mod c10_cc;
pub mod c14_params;
pub mod c15_keyset;
pub mod c16_reassembler;
pub mod c16_sets;
pub mod fuzz_entry;

use vcore::Property;

pub fn c16_property() -> Property {
    let mut subs = vec![];
    subs.extend(c16_reassembler::subs());
    subs.extend(c16_sets::subs());
    Property {
        id: "C16",
        rule: "op sequences over Reassembler / IntervalSet / ack::Ranges / packet::number::Map / SlidingWindow, \
               generated around slot (4096/16384/32768/65536-byte) and window (128) boundaries, compared after every \
               op with plain reference models (interval list + cursors, BTreeSet, BTreeMap). Non-trivial: reassembler \
               sequence contains a write that overlaps unconsumed data across a slot boundary and a later read of it; \
               set sequences contain an op that merges >=2 intervals or splits one. Distinct = distinct op sequences.",
        assumptions: &[
            "reference models (interval list, BTreeSet/BTreeMap) are the trusted base",
            "overlapping writes carry identical bytes (PRF of the offset), as QUIC requires; which copy is kept is not asserted",
        ],
        subs,
        shards: 0,
    }
}

/// every property this crate can decide on its own (component level)
pub fn registry() -> Vec<Property> {
    let mut v = vec![c16_property()];
    for p in [
        c05_codec::property(),
        c08_pn::property(),
        c09_recovery::property(),
        c10_cc::property(),
        c14_params::property(),
        c15_keyset::property(),
    ] {
        if !p.subs.is_empty() {
            v.push(p);
        }
    }
    v
}
