//! Component-level checks: the code under test is driven directly through its public API
//! and compared with independent reference models / RFC transcriptions.

mod c16_reassembler;

use vcore::Property;

fn main() {
    let registry: Vec<Property> = vec![c16_property()];
    vcore::main_with(registry)
}

fn c16_property() -> Property {
    let mut subs = vec![];
    subs.extend(c16_reassembler::subs());
    Property {
        id: "C16",
        rule: "op sequences over Reassembler / IntervalSet / ack::Ranges / packet::number::Map / SlidingWindow, \
               generated around slot (4096/16384/32768/65536-byte) and window (128) boundaries, compared after every \
               op with plain reference models (interval list + cursors, BTreeSet, BTreeMap). Non-trivial: reassembler \
               sequence contains a write that overlaps unconsumed data across a slot boundary and a later read of it; \
               set sequences contain an op that merges >=2 intervals or splits one. Distinct = distinct op sequences.",
        assumptions: &[
            "reference models (interval list, BTreeSet/BTreeMap) are the trusted base",
            "overlapping writes carry identical bytes (PRF of the offset), as QUIC requires; which copy is kept is not asserted",
        ],
        subs,
        shards: 0,
    }
}
