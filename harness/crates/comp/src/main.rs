fn main() {
    vcore::main_with(comp::registry())
}
