//! The generated value of every C20 check: application scripts of both sides, MTUs, the
//! network's fault tapes and (peer-loss family) the loss event. Plain data, replayable
//! from JSON, no floats.

use serde::{Deserialize, Serialize};

/// stream idle timeout of the dc test parameters (`dc::testing::TEST_APPLICATION_PARAMS`)
pub const IDLE_US: u64 = 30_000_000;
/// initial peer flow window of the dc test parameters (`remote_max_data` = 1472 * 10)
pub const INITIAL_FLOW_WINDOW: u32 = 14_720;
/// faults applied later than this make a "finite prefix" case a long-fault case (errors are
/// then tolerated): a PTO chain that started at t=0 and ends here has a next period of at
/// most this long again, so the peer silence stays well below `IDLE_US`.
pub const FAULT_WINDOW_US: u64 = 6_000_000;
pub const MAX_CLIENTS: usize = 4;
pub const MAX_STREAMS: usize = 4;
/// a reading or writing half pauses at most this many times
pub const MAX_PAUSES: u64 = 8;

#[derive(Clone, Copy, Debug, Hash, PartialEq, Eq, Serialize, Deserialize)]
pub enum Proto {
    Udp,
    Tcp,
}

/// what the network does with one datagram (first variant = no fault, so shrinking removes faults)
#[derive(Clone, Copy, Debug, Hash, PartialEq, Eq, Serialize, Deserialize)]
pub enum Fault {
    Pass,
    Drop,
    /// deliver two copies
    Dup,
    /// extra one-way latency in units of 100 us (0..=200 => 0..20 ms): reordering
    Delay(u8),
}

#[derive(Clone, Debug, Default, Hash, PartialEq, Eq, Serialize, Deserialize)]
pub struct Tape {
    pub faults: Vec<Fault>,
    /// false: consumed once, then every datagram passes (finite prefix); true: repeats for ever
    pub repeat: bool,
}

/// total loss during [from_us, to_us) of virtual time (to_us = u64::MAX: for ever)
#[derive(Clone, Copy, Debug, Hash, PartialEq, Eq, Serialize, Deserialize)]
pub struct Blackhole {
    pub from_us: u64,
    pub to_us: u64,
    /// client -> server
    pub up: bool,
    /// server -> client
    pub down: bool,
}

/// datagram classes of the cleartext tag byte (see `net::classify`)
#[derive(Clone, Copy, Debug, Hash, PartialEq, Eq, Serialize, Deserialize)]
pub enum PktKind {
    Stream,
    Recovery,
    Control,
}

/// which datagram of one direction a targeted fault hits
#[derive(Clone, Copy, Debug, Hash, PartialEq, Eq, Serialize, Deserialize)]
pub enum Target {
    /// the n-th datagram (0-based, send order) of this class in this direction
    Nth { kind: PktKind, n: u16 },
    /// the n-th recovery-space packet (n = 0: the first) that carries stream bytes of the k-th
    /// stream-space packet of this direction again (same stream, overlapping offset range);
    /// for a k-th packet without payload: the n-th recovery-space packet of the same stream
    /// sent after it
    RetxOf { k: u16, n: u16 },
}

/// a fault addressed by packet class and ordinal instead of by datagram index
#[derive(Clone, Copy, Debug, Hash, PartialEq, Eq, Serialize, Deserialize)]
pub struct Targeted {
    /// client -> server
    pub up: bool,
    pub target: Target,
    pub fault: Fault,
}

#[derive(Clone, Debug, Default, Hash, PartialEq, Eq, Serialize, Deserialize)]
pub struct NetCase {
    /// decisions for client -> server datagrams, in send order
    pub up: Tape,
    /// decisions for server -> client datagrams
    pub down: Tape,
    pub blackholes: Vec<Blackhole>,
    /// one fault at the k-th datagram of the run (both directions, send order); used by the
    /// single-fault enumeration
    pub single: Option<(u32, Fault)>,
    /// faults addressed by (direction, class, ordinal); they override the tapes
    #[serde(default)]
    pub targeted: Vec<Targeted>,
}

#[derive(Clone, Copy, Debug, Hash, PartialEq, Eq, Serialize, Deserialize)]
pub enum WriteEnd {
    /// `shutdown()` after the last byte, then keep the half open for `hold_us`
    Shutdown,
    /// drop the writing half without `shutdown()`
    Drop,
}

/// one direction of a stream: what the writer does and what the reader does
#[derive(Clone, Debug, Hash, PartialEq, Eq, Serialize, Deserialize)]
pub struct Transfer {
    /// payload bytes (the request carries one extra leading header byte on the wire)
    pub len: u32,
    /// write sizes, cyclic (each >= 1)
    pub chunks: Vec<u32>,
    /// pause before every n-th write (0 = never)
    pub write_pause_every: u16,
    pub write_pause_us: u32,
    /// pause between the last write and shutdown/drop
    pub end_pause_us: u32,
    pub end: WriteEnd,
    /// read buffer sizes, cyclic (1..=65536)
    pub read_bufs: Vec<u32>,
    pub read_pause_every: u16,
    pub read_pause_us: u32,
    /// drop the reading half after at least this many payload bytes were read (None: read to EOF)
    pub read_drop_at: Option<u32>,
}

/// request/response dialogue on an open stream: the client writes the header byte and the
/// first `first` payload bytes of the request WITHOUT finishing, waits for the complete
/// response (its length is known to the script), writes the rest of the request and only
/// then finishes; the server reads exactly those 1 + `first` request bytes, writes the whole
/// response (and ends its writing half as generated), then reads the request to its end.
#[derive(Clone, Copy, Debug, Hash, PartialEq, Eq, Serialize, Deserialize)]
pub struct Dialog {
    /// payload bytes of the request written before the response is awaited (<= req.len)
    pub first: u32,
}

#[derive(Clone, Debug, Hash, PartialEq, Eq, Serialize, Deserialize)]
pub struct StreamCase {
    /// delay between the client's start and `connect`
    pub start_us: u32,
    /// client writes, server reads
    pub req: Transfer,
    /// server writes, client reads
    pub resp: Transfer,
    /// client: read the response concurrently with writing the request (split halves);
    /// false: write, shutdown, then read
    pub client_concurrent: bool,
    /// server: write the response concurrently with reading the request; false: read the
    /// request to EOF first (then "response only after the complete request" is checked)
    pub server_concurrent: bool,
    /// Some: the dialogue script above replaces the two `*_concurrent` modes
    #[serde(default)]
    pub dialog: Option<Dialog>,
}

#[derive(Clone, Debug, Hash, PartialEq, Eq, Serialize, Deserialize)]
pub struct ClientCase {
    pub mtu: u16,
    pub start_us: u32,
    pub streams: Vec<StreamCase>,
}

#[derive(Clone, Copy, Debug, Hash, PartialEq, Eq, Serialize, Deserialize)]
pub enum LossKind {
    /// both directions are lost for ever
    Blackhole,
    /// only client -> server is lost for ever
    BlackholeUp,
    /// only server -> client is lost for ever
    BlackholeDown,
    /// every server stream task is dropped in the middle of whatever it does; streams accepted
    /// later are dropped at once
    AbortServer,
    /// the server forgets all path secrets (`Map::drop_state`, as on a restart)
    ForgetSecret,
}

#[derive(Clone, Copy, Debug, Hash, PartialEq, Eq, Serialize, Deserialize)]
pub struct PeerLoss {
    pub at_us: u32,
    pub kind: LossKind,
}

#[derive(Clone, Debug, Hash, PartialEq, Eq, Serialize, Deserialize)]
pub struct Case {
    /// seeds the simulation runtime and the payload keys
    pub seed: u64,
    pub proto: Proto,
    pub server_mtu: u16,
    pub clients: Vec<ClientCase>,
    pub net: NetCase,
    pub loss: Option<PeerLoss>,
}

impl Case {
    /// payload key of one direction of one stream
    pub fn key(&self, client: usize, stream: usize, resp: bool) -> u64 {
        vcore::hash_of(&(self.seed, client as u64, stream as u64, resp))
    }

    /// faults stop after a finite number of datagrams / a bounded time (a targeted fault hits
    /// one datagram)
    pub fn finite_faults(&self) -> bool {
        !self.net.up.repeat
            && !self.net.down.repeat
            && self.net.blackholes.iter().all(|b| b.to_us <= FAULT_WINDOW_US)
    }

    /// no side of any stream drops a half early or without shutdown
    pub fn polite(&self) -> bool {
        self.clients.iter().all(|c| {
            c.streams.iter().all(|s| {
                [&s.req, &s.resp]
                    .iter()
                    .all(|t| t.end == WriteEnd::Shutdown && t.read_drop_at.is_none())
            })
        })
    }

    pub fn max_len(&self) -> u32 {
        self.clients
            .iter()
            .flat_map(|c| c.streams.iter())
            .map(|s| s.req.len.max(s.resp.len))
            .max()
            .unwrap_or(0)
    }

    /// upper bound of the time all generated pauses of one stream take, in us (every half
    /// pauses at most `MAX_PAUSES` times)
    pub fn pause_budget_us(&self) -> u64 {
        let t = |t: &Transfer| -> u64 {
            MAX_PAUSES * (t.write_pause_us as u64 + t.read_pause_us as u64) + t.end_pause_us as u64
        };
        self.clients
            .iter()
            .map(|c| {
                c.start_us as u64
                    + c.streams
                        .iter()
                        .map(|s| s.start_us as u64 + t(&s.req) + t(&s.resp))
                        .max()
                        .unwrap_or(0)
            })
            .max()
            .unwrap_or(0)
    }
}
