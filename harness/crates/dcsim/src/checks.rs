//! Sub-checks of C20 and their registration.

use crate::{
    case::*,
    gen, oracle,
    sim::{self, Outcome},
    tcp, tcp_cut,
};
use serde::{Deserialize, Serialize};
use serde_json::json;
use std::sync::OnceLock;
use vcore::{CaseResult, EnumCheck, Obs, PropCheck, Property, SubCheck, Tier};

fn trace_enabled() -> bool {
    static T: OnceLock<bool> = OnceLock::new();
    *T.get_or_init(|| std::env::var_os("DCSIM_TRACE").is_some())
}

fn print_trace(case: &Case, out: &Outcome) {
    eprintln!("--- case seed={} proto={:?} loss={:?}", case.seed, case.proto, case.loss);
    if let Some(log) = &out.log {
        for e in log {
            eprintln!(
                "  {:>10}us {} {:?} len={} {:?}{}",
                e.at_us,
                if e.up { "c->s" } else { "s->c" },
                e.kind,
                e.len,
                e.fault,
                if e.blackholed { " BLACKHOLED" } else { "" }
            );
        }
    }
    for (ci, c) in out.world.streams.iter().enumerate() {
        for (si, s) in c.iter().enumerate() {
            eprintln!(
                "  stream {ci}.{si}: connected {:?} accepted {:?} client_done {:?} server_done {:?} aborted {:?} connect_err {:?}",
                s.connected_at, s.accepted_at, s.client_done_at, s.server_done_at, s.server_aborted_at, s.connect_err
            );
            eprintln!("    client_w {:?}", s.client_w.lock().unwrap());
            eprintln!("    server_r {:?}", s.server_r.lock().unwrap());
            eprintln!("    server_w {:?}", s.server_w.lock().unwrap());
            eprintln!("    client_r {:?}", s.client_r.lock().unwrap());
        }
    }
    eprintln!(
        "  end={}us capped={} stall={} drain_end={}us anonymous={:?} net={:?}",
        out.end_us,
        out.capped,
        out.stall.is_some(),
        out.drain_end_us,
        out.world.anonymous,
        out.net
    );
}

fn summary(case: &Case, out: &Outcome) -> serde_json::Value {
    json!({
        "seed": case.seed,
        "proto": format!("{:?}", case.proto),
        "server_mtu": case.server_mtu,
        "clients": case.clients.iter().map(|c| json!({
            "mtu": c.mtu,
            "streams": c.streams.iter().map(|s| json!({
                "req": s.req.len, "resp": s.resp.len,
                "client_concurrent": s.client_concurrent, "server_concurrent": s.server_concurrent,
                "dialog_first": s.dialog.map(|d| d.first),
            })).collect::<Vec<_>>(),
        })).collect::<Vec<_>>(),
        "tape_up": case.net.up.faults.len(), "tape_down": case.net.down.faults.len(),
        "repeat": case.net.up.repeat,
        "blackholes": case.net.blackholes.len(),
        "targeted": case.net.targeted.len(),
        "loss": case.loss.map(|l| format!("{:?}@{}us", l.kind, l.at_us)),
        "datagrams": out.net.sent,
        "dropped": [out.net.dropped_stream, out.net.dropped_recovery, out.net.dropped_control],
        "duplicated": out.net.duplicated, "overtaken": out.net.overtaken,
        "end_us": out.end_us,
    })
}

fn classes(case: &Case, out: &Outcome, obs: &mut Obs) {
    let streams: Vec<&StreamCase> = case.clients.iter().flat_map(|c| c.streams.iter()).collect();
    obs.class_if(case.clients.len() > 1, "clients>1");
    obs.class_if(case.clients.iter().any(|c| c.streams.len() > 1), "streams>1");
    obs.class_if(case.max_len() > INITIAL_FLOW_WINDOW, "exceeds_flow_window");
    obs.class_if(case.max_len() > 200_000, "large>200k");
    obs.class_if(streams.iter().any(|s| s.resp.len == 0), "empty_response");
    obs.class_if(streams.iter().any(|s| s.req.len == 0), "header_only_request");
    obs.class_if(!case.polite(), "rude_half");
    obs.class_if(streams.iter().any(|s| s.client_concurrent), "client_concurrent");
    obs.class_if(streams.iter().any(|s| s.server_concurrent), "server_concurrent");
    obs.class_if(streams.iter().any(|s| s.dialog.is_some()), "dialog");
    obs.class_if(
        streams.iter().any(|s| s.dialog.map_or(false, |d| d.first >= s.req.len)),
        "dialog:whole_request_then_wait",
    );
    obs.class_if(
        streams.iter().any(|s| s.dialog.map_or(false, |d| d.first < s.req.len)),
        "dialog:more_after_response",
    );
    obs.class_if(
        case.server_mtu > 9000 || case.clients.iter().any(|c| c.mtu > 9000),
        "mtu>9000",
    );
    obs.class_if(case.clients.iter().any(|c| c.mtu != case.server_mtu), "mtu_differs");
    if case.proto == Proto::Udp {
        obs.class_if(case.loss.is_none() && case.finite_faults(), "finite_prefix");
        obs.class_if(case.loss.is_none() && !case.finite_faults(), "lossy_forever");
        let n = &out.net;
        obs.class_if(n.dropped_stream > 0, "dropped_stream_pkt");
        obs.class_if(n.dropped_recovery > 0, "dropped_recovery_pkt");
        obs.class_if(n.dropped_control > 0, "dropped_control_pkt");
        obs.class_if(n.duplicated > 0, "duplicated");
        obs.class_if(n.overtaken > 0, "overtaken");
        obs.class_if(n.secret_control_seen > 0, "secret_control_pkt");
        obs.class_if(!case.net.blackholes.is_empty(), "blackhole_phase");
        if !case.net.targeted.is_empty() {
            obs.class_if(n.targeted_applied > 0, "targeted_fault_applied");
            obs.class_if(n.targeted_applied == 0, "targeted_fault_missed");
            obs.class_if(n.retx_of_lost_dropped == 1, "lost_pkt_retx_lost_once");
            obs.class_if(n.retx_of_lost_dropped >= 2, "lost_pkt_retx_lost_twice+");
        }
        obs.class_if(
            n.dropped_stream + n.dropped_recovery + n.dropped_control + n.duplicated + n.delayed == 0,
            "no_fault_applied",
        );
        if let Some(l) = case.loss {
            obs.class(match l.kind {
                LossKind::Blackhole => "loss:blackhole",
                LossKind::BlackholeUp => "loss:blackhole_up",
                LossKind::BlackholeDown => "loss:blackhole_down",
                LossKind::AbortServer => "loss:abort_server",
                LossKind::ForgetSecret => "loss:forget_secret",
            });
        }
    }
    let all_complete = out.world.streams.iter().flatten().all(|s| {
        s.client_r.lock().unwrap().eof_at.is_some() && s.server_r.lock().unwrap().eof_at.is_some()
    });
    obs.class_if(all_complete, "all_streams_complete");
    obs.units = out.net.sent[0] + out.net.sent[1];
    obs.sample = Some(summary(case, out));
}

/// one isolated simulation; a panic of the code under test is the violation the engine
/// would report (same key), a panic of harness code stays a harness error
fn run_sim(case: &Case) -> Result<Outcome, vcore::Fail> {
    match sim::run(case, trace_enabled()) {
        Ok(out) => {
            if trace_enabled() {
                print_trace(case, &out);
            }
            Ok(out)
        }
        Err(p) if p.in_repo() => Err(vcore::Fail::new(
            p.key(),
            format!("code under test panicked at {}:{}: {}", p.file, p.line, p.msg),
        )),
        Err(p) => panic!("panic inside the simulation thread at {}:{}: {}", p.file, p.line, p.msg),
    }
}

fn udp_oracle(case: &Case, obs: &mut Obs) -> CaseResult {
    assert_eq!(case.proto, Proto::Udp, "replay file of another sub-check");
    if let Some(path) = std::env::var_os("DCSIM_ECHO") {
        // debugging aid: the case that is about to run, as a replay file
        let _ = std::fs::write(
            path,
            serde_json::to_string(&json!({"property": "C20", "sub": "udp_generated", "case": case})).unwrap(),
        );
    }
    let out = run_sim(case)?;
    classes(case, &out, obs);
    obs.nontrivial(oracle::nontrivial(case, &out));
    oracle::judge(case, &out, obs)
}

/// non-trivial: a stream-space packet and a recovery-space packet that carried its bytes again
/// were both lost while a dialogue (writer idle before its FIN) was in the case
fn dialog_oracle(case: &Case, obs: &mut Obs) -> CaseResult {
    assert_eq!(case.proto, Proto::Udp, "replay file of another sub-check");
    let out = run_sim(case)?;
    classes(case, &out, obs);
    let dialog = case.clients.iter().flat_map(|c| c.streams.iter()).any(|s| s.dialog.is_some());
    obs.nontrivial(dialog && out.net.retx_of_lost_dropped >= 1);
    oracle::judge(case, &out, obs)
}

fn tcp_oracle(case: &Case, obs: &mut Obs) -> CaseResult {
    assert_eq!(case.proto, Proto::Tcp, "replay file of another sub-check");
    let out = tcp::run(case);
    if trace_enabled() {
        print_trace(case, &out);
    }
    classes(case, &out, obs);
    // no faults on kernel TCP: non-trivial = flow blocking can occur and more than one script order
    obs.nontrivial(case.max_len() > INITIAL_FLOW_WINDOW);
    oracle::judge(case, &out, obs)
}

// ---------------------------------------------------------------------------------------
// single-fault enumeration

#[derive(Clone, Debug, Hash, PartialEq, Eq, Serialize, Deserialize)]
pub struct SingleFault {
    pub exchange: u8,
    /// index of the datagram (both directions, send order) the fault is applied to
    pub k: u32,
    pub fault: Fault,
}

const SINGLE_FAULTS: [Fault; 4] = [Fault::Drop, Fault::Dup, Fault::Delay(20), Fault::Delay(200)];

fn whole(len: u32) -> Transfer {
    Transfer {
        len,
        chunks: vec![u32::MAX],
        write_pause_every: 0,
        write_pause_us: 0,
        end_pause_us: 0,
        end: WriteEnd::Shutdown,
        read_bufs: vec![65_536],
        read_pause_every: 0,
        read_pause_us: 0,
        read_drop_at: None,
    }
}

/// the fixed request/response exchanges of the enumeration
fn exchange(i: u8) -> Case {
    let (req, resp, mtu, client_concurrent, server_concurrent, req_end_pause_us) = match i {
        // exceeds the initial flow window in both directions
        0 => (40_000, 20_000, 1500, false, false, 0),
        // tiny: every datagram is a first/last one
        1 => (1, 1, 1500, false, false, 0),
        // late reader: the client only starts to read when the whole initial window of the
        // response has arrived, so exactly one datagram carries the new flow credit
        2 => (10, 20_000, 1500, false, true, 10_000),
        // jumbo datagrams, full duplex
        3 => (100_000, 100_000, 9000, true, true, 0),
        _ => (20_000, 0, 1250, true, false, 0),
    };
    let mut req_t = whole(req);
    req_t.end_pause_us = req_end_pause_us;
    Case {
        seed: 20 + i as u64,
        proto: Proto::Udp,
        server_mtu: mtu,
        clients: vec![ClientCase {
            mtu,
            start_us: 0,
            streams: vec![StreamCase {
                start_us: 0,
                req: req_t,
                resp: whole(resp),
                client_concurrent,
                server_concurrent,
                dialog: None,
            }],
        }],
        net: NetCase::default(),
        loss: None,
    }
}

const EXCHANGES: u8 = 5;

fn exchanges(tier: Tier) -> u8 {
    tier.pick(3, EXCHANGES)
}

/// datagrams of the fault-free run of every exchange
fn fault_free_counts() -> &'static Vec<u32> {
    static N: OnceLock<Vec<u32>> = OnceLock::new();
    N.get_or_init(|| {
        (0..EXCHANGES)
            .map(|i| {
                let out = sim::run(&exchange(i), false).expect("fault-free exchange panicked");
                (out.net.sent[0] + out.net.sent[1]) as u32
            })
            .collect()
    })
}

fn enum_total(tier: Tier) -> u64 {
    let n = fault_free_counts();
    (0..exchanges(tier)).map(|i| n[i as usize] as u64 * SINGLE_FAULTS.len() as u64).sum()
}

fn enum_case(tier: Tier, mut idx: u64) -> SingleFault {
    let n = fault_free_counts();
    for i in 0..exchanges(tier) {
        let span = n[i as usize] as u64 * SINGLE_FAULTS.len() as u64;
        if idx < span {
            return SingleFault {
                exchange: i,
                k: (idx / SINGLE_FAULTS.len() as u64) as u32,
                fault: SINGLE_FAULTS[(idx % SINGLE_FAULTS.len() as u64) as usize],
            };
        }
        idx -= span;
    }
    unreachable!("index beyond the enumeration")
}

fn enum_oracle(sf: &SingleFault, obs: &mut Obs) -> CaseResult {
    let mut case = exchange(sf.exchange);
    case.net.single = Some((sf.k, sf.fault));
    let out = run_sim(&case)?;
    classes(&case, &out, obs);
    obs.class(match sf.fault {
        Fault::Drop => "single:drop",
        Fault::Dup => "single:dup",
        Fault::Delay(_) => "single:delay",
        Fault::Pass => "single:pass",
    });
    // the fault hit a datagram of this run
    let applied = (sf.k as u64) < out.net.sent[0] + out.net.sent[1];
    obs.nontrivial(applied);
    oracle::judge(&case, &out, obs)?;
    // the simulation is deterministic: the same case again gives the same datagram trace
    let again = sim::run(&case, false).expect("second run of the same case panicked");
    obs.class_if(
        again.net.digest != out.net.digest || again.end_us != out.end_us,
        "rerun_differs",
    );
    Ok(())
}

// ---------------------------------------------------------------------------------------
// enumeration: one datagram is lost, then the network goes away for ever at an instant of a grid
// (a receiver that knows the final size but still has a gap, a writer waiting for the last
// acknowledgement, ... must all fail within the idle timeout)

#[derive(Clone, Debug, Hash, PartialEq, Eq, Serialize, Deserialize)]
pub struct DropThenSilence {
    /// index of the lost datagram (both directions, send order) of exchange 0
    pub k: u32,
    /// the network blackholes for ever at this instant
    pub at_us: u32,
}

const SILENCE_GRID: u64 = 24;

/// (datagrams, duration in us) of the fault-free run of exchange 0
fn silence_base() -> (u32, u64) {
    static N: OnceLock<(u32, u64)> = OnceLock::new();
    *N.get_or_init(|| {
        let out = sim::run(&exchange(0), false).expect("fault-free exchange panicked");
        ((out.net.sent[0] + out.net.sent[1]) as u32, out.end_us.max(1))
    })
}

fn silence_total(tier: Tier) -> u64 {
    let (n, _) = silence_base();
    // quick: every second datagram
    (n as u64).div_ceil(tier.pick(2, 1)) * SILENCE_GRID
}

fn silence_case(tier: Tier, idx: u64) -> DropThenSilence {
    let (_, dur) = silence_base();
    let step = tier.pick(2u64, 1);
    let k = (idx / SILENCE_GRID) * step;
    let g = idx % SILENCE_GRID;
    // instants on a geometric grid from 50 us to ~50 ms of virtual time (the fault-free exchange takes a few milliseconds)
    let _ = dur;
    let mut at = 50u64;
    for _ in 0..g {
        at = at * 27 / 20;
    }
    DropThenSilence { k: k as u32, at_us: at as u32 }
}

fn silence_oracle(c: &DropThenSilence, obs: &mut Obs) -> CaseResult {
    let mut case = exchange(0);
    case.net.single = Some((c.k, Fault::Drop));
    case.loss = Some(crate::case::PeerLoss { at_us: c.at_us, kind: crate::case::LossKind::Blackhole });
    let out = run_sim(&case)?;
    classes(&case, &out, obs);
    obs.nontrivial((c.k as u64) < out.net.sent[0] + out.net.sent[1]);
    oracle::judge(&case, &out, obs)
}

// ---------------------------------------------------------------------------------------
// enumeration: a stream-space packet and its first retransmission(s) are lost, in dialogues

#[derive(Clone, Debug, Hash, PartialEq, Eq, Serialize, Deserialize)]
pub struct RetxPair {
    pub dialogue: u8,
    /// direction of the lost packets: client -> server
    pub up: bool,
    /// ordinal of the lost stream-space packet in that direction
    pub k: u16,
    /// 1: its first retransmission is lost too; 2: the first two
    pub depth: u8,
}

/// the fixed dialogues of the enumeration
fn dialogue(i: u8) -> Case {
    // (request, bytes of it before the response, response, MTU)
    let (req, first, resp, mtu) = match i {
        // the whole request within the initial flow window, then wait, then finish
        0 => (8_000, 8_000, 3_000, 1500),
        // both directions exceed the flow window; more request after the response
        1 => (30_000, 12_000, 20_000, 1500),
        // header-only first part, jumbo datagrams
        2 => (50_000, 0, 60_000, 9000),
        _ => (14_000, 14_000, 14_720, 1250),
    };
    let mut case = exchange(0);
    case.seed = 40 + i as u64;
    case.server_mtu = mtu;
    let c = &mut case.clients[0];
    c.mtu = mtu;
    c.streams[0].req = whole(req);
    c.streams[0].resp = whole(resp);
    c.streams[0].dialog = Some(Dialog { first });
    case
}

const DIALOGUES: u8 = 4;
const DEPTHS: u64 = 2;

fn dialogues(tier: Tier) -> u8 {
    tier.pick(2, DIALOGUES)
}

/// stream-space packets [up, down] of the fault-free run of every dialogue
fn dialogue_counts() -> &'static Vec<[u32; 2]> {
    static N: OnceLock<Vec<[u32; 2]>> = OnceLock::new();
    N.get_or_init(|| {
        (0..DIALOGUES)
            .map(|i| {
                let out = sim::run(&dialogue(i), false).expect("fault-free dialogue panicked");
                assert!(
                    out.world.streams[0][0].client_r.lock().unwrap().eof_at.is_some(),
                    "fault-free dialogue {i} did not complete"
                );
                [out.net.sent_kind[0][0], out.net.sent_kind[1][0]]
            })
            .collect()
    })
}

fn pair_total(tier: Tier) -> u64 {
    let n = dialogue_counts();
    (0..dialogues(tier)).map(|i| (n[i as usize][0] + n[i as usize][1]) as u64 * DEPTHS).sum()
}

fn pair_case(tier: Tier, mut idx: u64) -> RetxPair {
    let n = dialogue_counts();
    for i in 0..dialogues(tier) {
        let [up, down] = n[i as usize];
        let span = (up + down) as u64 * DEPTHS;
        if idx < span {
            let depth = (idx % DEPTHS) as u8 + 1;
            let p = (idx / DEPTHS) as u32;
            return if p < up {
                RetxPair { dialogue: i, up: true, k: p as u16, depth }
            } else {
                RetxPair { dialogue: i, up: false, k: (p - up) as u16, depth }
            };
        }
        idx -= span;
    }
    unreachable!("index beyond the enumeration")
}

fn pair_oracle(rp: &RetxPair, obs: &mut Obs) -> CaseResult {
    let mut case = dialogue(rp.dialogue);
    case.net.targeted.push(Targeted {
        up: rp.up,
        target: Target::Nth { kind: PktKind::Stream, n: rp.k },
        fault: Fault::Drop,
    });
    for n in 0..rp.depth {
        case.net.targeted.push(Targeted {
            up: rp.up,
            target: Target::RetxOf { k: rp.k, n: n as u16 },
            fault: Fault::Drop,
        });
    }
    let out = run_sim(&case)?;
    classes(&case, &out, obs);
    obs.class(if rp.up { "pair:request_direction" } else { "pair:response_direction" });
    obs.class(if rp.depth == 1 { "pair:first_retx_lost" } else { "pair:first_two_retx_lost" });
    // the packet and (at least) its first retransmission were lost
    obs.nontrivial(out.net.dropped_stream >= 1 && out.net.retx_of_lost_dropped >= 1);
    oracle::judge(&case, &out, obs)
}

// ---------------------------------------------------------------------------------------

pub fn subs() -> Vec<Box<dyn SubCheck>> {
    let mut subs: Vec<Box<dyn SubCheck>> = vec![
        Box::new(EnumCheck::<SingleFault> {
            name: "udp_single_fault_enum",
            total: enum_total,
            case: enum_case,
            oracle: enum_oracle,
        }),
        Box::new(EnumCheck::<DropThenSilence> {
            name: "udp_drop_then_silence_enum",
            total: silence_total,
            case: silence_case,
            oracle: silence_oracle,
        }),
        Box::new(EnumCheck::<RetxPair> {
            name: "udp_retx_pair_enum",
            total: pair_total,
            case: pair_case,
            oracle: pair_oracle,
        }),
        Box::new(PropCheck {
            name: "udp_dialog_retx",
            cases: |t| t.pick(480, 8_000),
            strategy: |_| gen::dialog_case(),
            oracle: dialog_oracle,
            max_shrink_iters: 150,
        }),
        Box::new(PropCheck {
            name: "udp_generated",
            cases: |t| t.pick(1_440, 20_000),
            strategy: |_| gen::udp_case(),
            oracle: udp_oracle,
            max_shrink_iters: 120,
        }),
        Box::new(PropCheck {
            name: "peer_loss",
            cases: |t| t.pick(560, 7_000),
            strategy: |_| gen::peer_loss_case(),
            oracle: udp_oracle,
            max_shrink_iters: 200,
        }),
        Box::new(PropCheck {
            name: "tcp_generated",
            cases: |t| t.pick(160, 1_200),
            strategy: |_| gen::tcp_case(),
            oracle: tcp_oracle,
            max_shrink_iters: 100,
        }),
    ];
    subs.extend(tcp_cut::subs());
    subs
}

pub fn property() -> Property {
    Property {
        id: "C20",
        rule: "udp_generated: 1-4 clients x 1-4 streams of stream::testing::{Client,Server} in a seeded bach simulation; per stream a request/response script (sizes 0..2 MiB biased to 0/1, the MTU region, 14720 = initial flow window, 64 KiB; write chunkings, read buffers 1..64 KiB, pauses, shutdown or drop, early reader drop, sequential or full-duplex on either side), MTU 1250..32000 per endpoint, own fault allocator with a decision per datagram (pass/drop/duplicate/delay 0..20 ms) per direction plus blackhole phases; tapes are a finite prefix (85%) or repeat for ever (15%, integrity only). peer_loss: same scripts, at a generated instant the network blackholes for ever (both or one direction) / all server tasks are dropped / the server forgets the path secrets. udp_single_fault_enum: for 3 (quick) / 5 (thorough) fixed exchanges every datagram index k of the fault-free run x {drop, duplicate, delay 2 ms, delay 20 ms} (complete), each case run twice to confirm determinism. udp_drop_then_silence_enum: the first fixed exchange with datagram k lost (every k; every second k in the quick tier) and the network gone for ever (both directions) from an instant of a 24-point geometric grid 50 us .. 50 ms (complete); the peer-loss oracle applies: whatever is pending - a reader that knows the final size and still has a gap, a writer waiting for the last acknowledgement - must fail within the idle timeout. udp_dialog_retx: 1-2 clients x 1-3 streams, 90% of them dialogues on an open stream (the client writes the first part of the request - nothing / a part / all of it - WITHOUT finishing, waits for the complete response, writes the rest and only then finishes; the server reads exactly that first part, answers, then reads to the end), faults addressed by packet class and ordinal from the cleartext headers: 1-3 groups 'the k-th stream-space packet of a direction is lost, and so are (or: are delayed/duplicated) the first 0-3 recovery-space packets that carry its bytes again', 10% plus a lost control datagram of the other direction, 20% on top of a light tape; the liveness oracle of the finite-prefix family applies (all faults hit single datagrams). udp_retx_pair_enum: for 2 (quick) / 4 (thorough) fixed dialogues every stream-space packet k of either direction of the fault-free run x {its first retransmission lost too, its first two} (complete). tcp_generated: the same scripts over loopback TCP under tokio, no fault injection. tcp_cut_enum / tcp_cut_generated: loopback TCP through an in-process forwarder that parses the record headers of one direction (request or response), lets a chosen number of complete records and a chosen part of the next one (nothing / 1 byte / inside the header / exactly the header / inside the payload / all but one byte) through and then closes both sockets or sends FIN to the reader only; the writer ends the stream inside its last write (write_all_from_fin: every record of it announces the final offset) or by shutdown(); enum: 3 (quick) / 4 (thorough) sizes (last write of 1, 2, 3, 7 records) x direction x finish mode x close mode x every record of the last write x 5 parts + clean (complete); generated: lead writes 0..40 kB in generated chunks, last write 0..300 kB biased to multiples of the 16 KiB record, read buffers 1..64 KiB. Non-trivial (udp_generated, peer_loss): at least one stream-space datagram and one control (ACK) datagram were lost and one datagram was duplicated or overtaken and a transfer exceeded the initial flow window of 14720 bytes, or the peer-loss event was applied while scripts were running; enum: the fault hit a datagram of the run; udp_dialog_retx / udp_retx_pair_enum: a stream-space packet and a recovery-space packet carrying its bytes again were both lost (and the case has a dialogue); tcp: a transfer exceeded the initial flow window; tcp_cut_*: the connection was cut while a reader was reading the cut direction. Distinct = distinct generated case.",
        assumptions: &[
            "bach 0.1.2 discrete-event runtime, its UDP socket model and virtual clock; the harness's fault allocator is a copy of bach's Fixed::for_udp with a per-datagram decision",
            "stream::testing::{Client, Server} builders of s2n-quic-dc (in-memory path secret exchange instead of the real handshake; TEST_APPLICATION_PARAMS: idle timeout 30 s, initial peer window 14720)",
            "no datagram corruption (UDP checksum assumed); datagram classes are taken from the cleartext tag byte",
            "TCP sub-checks: kernel loopback TCP and wall-clock scheduling; a 300 s wall-clock backstop stands in for the virtual-time cap",
            "tcp_cut_*: the forwarder finds record boundaries with s2n-quic-dc's own packet decoder (cleartext header only); records are sealed as a whole, so a partly forwarded record can never be delivered; after the forwarder has closed the connection the only thing a reader legitimately waits for is the loopback delivery of FIN/RST, so a reader still pending 10 s later is taken as hanging (the watchdog turns a hang into a verdict, it never separates two terminating behaviours); endpoints are shared by the cases of one process",
            "targeted faults: stream offset / payload length / stream identity are read from the cleartext header with s2n-quic-dc's stream packet decoder",
            "payload = keyed PRF per (case seed, client, stream, direction); the first request byte names the stream for the server side of the harness",
        ],
        subs: subs(),
        shards: 0,
    }
}
