//! Case generators. Construction, not rejection; sizes biased to 0/1, the MTU region, the
//! initial flow window (14720) and 64 KiB; every knob shrinks towards "one client, one
//! stream, whole-buffer writes, no pauses, no faults".

use crate::case::*;
use proptest::prelude::*;

const LEN_POINTS: &[u32] = &[
    0, 1, 2, 1100, 1200, 1250, 1400, 1472, 1500, 4096, 8192, 8900, 8950, 9000, 14_719, 14_720, 14_721, 16_384, 32_768, 65_535,
    65_536, 65_537,
];

pub fn len(max: u32, large_weight: u32) -> BoxedStrategy<u32> {
    let pts: Vec<u32> = LEN_POINTS.iter().copied().filter(|p| *p <= max).collect();
    prop_oneof![
        2 => 0u32..=2,
        4 => (proptest::sample::select(pts), 0u32..=6).prop_map(move |(p, d)| (p + d).saturating_sub(3).min(max)),
        3 => 0u32..=max.min(3000),
        3 => 0u32..=max.min(40_000),
        2 => 0u32..=max.min(200_000),
        large_weight => 0u32..=max,
    ]
    .boxed()
}

fn io_size() -> BoxedStrategy<u32> {
    prop_oneof![
        3 => Just(u32::MAX),
        2 => proptest::sample::select(vec![1u32, 2, 100, 1000, 1200, 1472, 4096, 8192, 16_384, 65_536, 1 << 20]),
        2 => 1u32..=2000,
        2 => 1u32..=65_536,
    ]
    .boxed()
}

fn pause() -> BoxedStrategy<(u16, u32)> {
    prop_oneof![
        6 => Just((0u16, 0u32)),
        2 => (1u16..=8, 0u32..=2_000),
        2 => (1u16..=8, 0u32..=50_000),
    ]
    .boxed()
}

/// at most this many writes / full-buffer reads per transfer (keeps byte-sized I/O on big
/// transfers from dominating the cost; the clamp is visible in the generated value)
const MAX_OPS: u32 = 400;

pub fn transfer(max_len: u32, large_weight: u32, rude: bool) -> BoxedStrategy<Transfer> {
    let end = if rude {
        prop_oneof![5 => Just(WriteEnd::Shutdown), 1 => Just(WriteEnd::Drop)].boxed()
    } else {
        Just(WriteEnd::Shutdown).boxed()
    };
    let drop_at = if rude {
        prop_oneof![9 => Just(None), 1 => (0u32..=70_000).prop_map(Some)].boxed()
    } else {
        Just(None).boxed()
    };
    (
        len(max_len, large_weight),
        prop::collection::vec(io_size(), 1..=3),
        pause(),
        prop_oneof![4 => Just(0u32), 1 => 0u32..=20_000],
        end,
        prop::collection::vec(io_size(), 1..=3),
        pause(),
        drop_at,
    )
        .prop_map(|(len, chunks, wp, end_pause_us, end, bufs, rp, drop_at)| {
            let floor = (len / MAX_OPS).max(1);
            Transfer {
                len,
                chunks: chunks.into_iter().map(|c| c.max(floor)).collect(),
                write_pause_every: wp.0,
                write_pause_us: wp.1,
                end_pause_us,
                end,
                read_bufs: bufs.into_iter().map(|b| b.min(65_536).max(floor.min(65_536))).collect(),
                read_pause_every: rp.0,
                read_pause_us: rp.1,
                read_drop_at: drop_at.map(|d| d.min(len)),
            }
        })
        .boxed()
}

pub fn stream(max_len: u32, large_weight: u32, rude: bool) -> BoxedStrategy<StreamCase> {
    (
        prop_oneof![3 => Just(0u32), 1 => 0u32..=5_000, 1 => 0u32..=200_000],
        transfer(max_len, large_weight, rude),
        transfer(max_len, large_weight, rude),
        any::<bool>(),
        prop::bool::weighted(0.3),
    )
        .prop_map(|(start_us, req, resp, client_concurrent, server_concurrent)| StreamCase {
            start_us,
            req,
            resp,
            client_concurrent,
            server_concurrent,
            dialog: None,
        })
        .boxed()
}

pub fn mtu(udp: bool) -> BoxedStrategy<u16> {
    if udp {
        prop_oneof![
            30 => proptest::sample::select(vec![1250u16, 1251, 1400, 1472, 1500, 8950, 9000]),
            30 => 1250u16..=1600,
            30 => 1250u16..=9000,
            // beyond jumbo frames (the property quantifies up to 32k)
            2 => 9001u16..=16_383,
            1 => 16_384u16..=32_000,
        ]
        .boxed()
    } else {
        prop_oneof![
            2 => proptest::sample::select(vec![1250u16, 1472, 1500, 8950, 9000]),
            1 => 1250u16..=9000,
        ]
        .boxed()
    }
}

fn clients(max_len: u32, large_weight: u32, rude: bool, udp: bool, budget: u64) -> BoxedStrategy<Vec<ClientCase>> {
    let streams = prop_oneof![
        4 => prop::collection::vec(stream(max_len, large_weight, rude), 1..=1),
        3 => prop::collection::vec(stream(max_len, large_weight, rude), 1..=MAX_STREAMS),
    ];
    let client = (mtu(udp), prop_oneof![3 => Just(0u32), 1 => 0u32..=100_000], streams)
        .prop_map(|(mtu, start_us, streams)| ClientCase { mtu, start_us, streams });
    prop_oneof![
        4 => prop::collection::vec(client.clone(), 1..=1),
        3 => prop::collection::vec(client, 1..=MAX_CLIENTS),
    ]
    .prop_map(move |mut cs| {
        // keep the bytes of one case within the budget (the first streams keep their size)
        let mut left = budget;
        for c in cs.iter_mut() {
            for s in c.streams.iter_mut() {
                for t in [&mut s.req, &mut s.resp] {
                    if t.len as u64 > left {
                        t.len = left as u32;
                        if let Some(d) = t.read_drop_at.as_mut() {
                            *d = (*d).min(t.len);
                        }
                    }
                    left -= t.len as u64;
                }
            }
        }
        cs
    })
    .boxed()
}

fn fault(heavy: bool) -> BoxedStrategy<Fault> {
    if heavy {
        prop_oneof![
            50 => Just(Fault::Pass),
            25 => Just(Fault::Drop),
            10 => Just(Fault::Dup),
            15 => (1u8..=200).prop_map(Fault::Delay),
        ]
        .boxed()
    } else {
        prop_oneof![
            84 => Just(Fault::Pass),
            8 => Just(Fault::Drop),
            3 => Just(Fault::Dup),
            5 => (1u8..=200).prop_map(Fault::Delay),
        ]
        .boxed()
    }
}

fn tape(repeat: bool) -> BoxedStrategy<Tape> {
    prop_oneof![
        1 => Just(vec![]).boxed(),
        3 => prop::collection::vec(fault(true), 1..=40).boxed(),
        3 => prop::collection::vec(fault(true), 1..=160).boxed(),
        2 => prop::collection::vec(fault(false), 1..=300).boxed(),
    ]
    .prop_map(move |faults| Tape { faults, repeat })
    .boxed()
}

fn blackholes() -> BoxedStrategy<Vec<Blackhole>> {
    let b = (0u64..=3_000_000, 1u64..=1_500_000, 0u8..3).prop_map(|(from_us, dur, d)| Blackhole {
        from_us,
        to_us: from_us + dur,
        up: d != 1,
        down: d != 0,
    });
    prop_oneof![
        6 => Just(vec![]),
        2 => prop::collection::vec(b, 1..=2),
    ]
    .boxed()
}

pub fn net(lossy_forever_pct: u32) -> BoxedStrategy<NetCase> {
    (0u32..100, blackholes()).prop_flat_map(move |(p, blackholes)| {
        let repeat = p < lossy_forever_pct;
        (tape(repeat), tape(repeat)).prop_map(move |(up, down)| NetCase {
            up,
            down,
            blackholes: blackholes.clone(),
            single: None,
            targeted: vec![],
        })
    })
    .boxed()
}

/// debugging aid (DCSIM_SMALL=1): one polite stream, small sizes, short heavy tapes - used to
/// obtain small reproductions of a failure class; never set in a check run
fn small_udp_case() -> BoxedStrategy<Case> {
    let t = |max: u32| {
        (0u32..=max, prop_oneof![2 => Just(0u32), 1 => 0u32..=20_000]).prop_map(|(len, end_pause_us)| Transfer {
            len,
            chunks: vec![u32::MAX],
            write_pause_every: 0,
            write_pause_us: 0,
            end_pause_us,
            end: WriteEnd::Shutdown,
            read_bufs: vec![65_536],
            read_pause_every: 0,
            read_pause_us: 0,
            read_drop_at: None,
        })
    };
    (
        any::<u64>(),
        t(3_000),
        t(20_000),
        any::<bool>(),
        any::<bool>(),
        prop::collection::vec(fault(true), 0..=30),
        prop::collection::vec(fault(true), 0..=30),
    )
        .prop_map(|(seed, req, resp, cc, sc, up, down)| Case {
            seed,
            proto: Proto::Udp,
            server_mtu: 1500,
            clients: vec![ClientCase {
                mtu: 1500,
                start_us: 0,
                streams: vec![StreamCase { start_us: 0, req, resp, client_concurrent: cc, server_concurrent: sc, dialog: None }],
            }],
            net: NetCase {
                up: Tape { faults: up, repeat: false },
                down: Tape { faults: down, repeat: false },
                blackholes: vec![],
                single: None,
            targeted: vec![],
            },
            loss: None,
        })
        .boxed()
}

/// `udp_generated`: faulty network, finite prefix (most) or lossy for ever
pub fn udp_case() -> BoxedStrategy<Case> {
    if std::env::var_os("DCSIM_SMALL").is_some() {
        return small_udp_case();
    }
    (any::<u64>(), mtu(true), clients(2 << 20, 1, true, true, 2 << 20), net(15))
        .prop_map(|(seed, server_mtu, clients, net)| Case {
            seed,
            proto: Proto::Udp,
            server_mtu,
            clients,
            net,
            loss: None,
        })
        .boxed()
}

fn loss() -> BoxedStrategy<PeerLoss> {
    (
        prop_oneof![
            5 => 0u32..=20_000,
            3 => 0u32..=300_000,
            1 => 0u32..=3_000_000,
        ],
        prop_oneof![
            3 => Just(LossKind::Blackhole),
            1 => Just(LossKind::BlackholeUp),
            1 => Just(LossKind::BlackholeDown),
            3 => Just(LossKind::AbortServer),
            3 => Just(LossKind::ForgetSecret),
        ],
    )
        .prop_map(|(at_us, kind)| PeerLoss { at_us, kind })
        .boxed()
}

/// `peer_loss`: mostly clean network, the peer disappears at a generated instant
pub fn peer_loss_case() -> BoxedStrategy<Case> {
    let net = prop_oneof![
        7 => Just(NetCase::default()).boxed(),
        3 => (prop::collection::vec(fault(false), 0..=100), prop::collection::vec(fault(false), 0..=100))
            .prop_map(|(u, d)| NetCase {
                up: Tape { faults: u, repeat: false },
                down: Tape { faults: d, repeat: false },
                blackholes: vec![],
                single: None,
            targeted: vec![],
            })
            .boxed(),
    ];
    (any::<u64>(), mtu(true), clients(2 << 20, 1, true, true, 2 << 20), net, loss())
        .prop_map(|(seed, server_mtu, clients, net, loss)| Case {
            seed,
            proto: Proto::Udp,
            server_mtu,
            clients,
            net,
            loss: Some(loss),
        })
        .boxed()
}

/// `tcp_generated`: the same scripts on loopback TCP (no fault injection)
pub fn tcp_case() -> BoxedStrategy<Case> {
    (any::<u64>(), mtu(false), clients(2 << 20, 1, true, false, 3 << 20))
        .prop_map(|(seed, server_mtu, clients)| Case {
            seed,
            proto: Proto::Tcp,
            server_mtu,
            clients,
            net: NetCase::default(),
            loss: None,
        })
        .boxed()
}

// ---------------------------------------------------------------------------------------
// dialogues on open streams + targeted multi-faults

/// stream-space packets one endpoint sends for `len` wire bytes at least (connect prelude or
/// nothing, full-sized data packets, the end of the stream); chunked writes only add packets
fn est_packets(len: u32, mtu: u16) -> u32 {
    2 + len / (mtu as u32).saturating_sub(100).max(1)
}

/// one group of targeted faults: a stream-space packet and its first `depth - 1`
/// retransmissions
#[derive(Clone, Debug)]
struct Group {
    up: bool,
    /// position of the stream packet in the direction, in 1/256 of the estimated packet count
    frac: u8,
    depth: u8,
    /// fault of the retransmissions (the original is always dropped)
    again: Fault,
    /// an acknowledgement / flow credit datagram of the other direction is lost as well
    control: Option<u16>,
}

fn group() -> BoxedStrategy<Group> {
    (
        prop::bool::weighted(0.7),
        prop_oneof![2 => 0u8..=40, 3 => any::<u8>()],
        prop_oneof![1 => Just(1u8), 5 => Just(2u8), 2 => Just(3u8), 1 => Just(4u8)],
        prop_oneof![8 => Just(Fault::Drop), 1 => (1u8..=200).prop_map(Fault::Delay), 1 => Just(Fault::Dup)],
        prop_oneof![9 => Just(None), 1 => (0u16..=30).prop_map(Some)],
    )
        .prop_map(|(up, frac, depth, again, control)| Group { up, frac, depth, again, control })
        .boxed()
}

fn dialog_stream(max_len: u32) -> BoxedStrategy<StreamCase> {
    (
        stream(max_len, 1, false),
        prop::bool::weighted(0.1),
        stream(max_len, 1, true),
        // 0 = no dialogue, 1 = nothing before the response, 2 = a part, 3 = the whole request
        prop_oneof![1 => Just(0u8), 1 => Just(1u8), 3 => Just(2u8), 5 => Just(3u8)],
        any::<u16>(),
    )
        .prop_map(|(polite, be_rude, rude, mode, part)| {
            let mut s = if be_rude { rude } else { polite };
            s.dialog = match mode {
                0 => None,
                1 => Some(Dialog { first: 0 }),
                2 => Some(Dialog { first: (s.req.len as u64 * part as u64 / 65_536) as u32 }),
                _ => Some(Dialog { first: s.req.len }),
            };
            s
        })
        .boxed()
}

/// `udp_dialog_retx`: request/response dialogues on open streams (the writer is idle in the
/// middle of its stream while it waits for the peer); faults are groups "the k-th stream-space
/// packet of a direction and its first retransmissions", optionally on top of a light tape
pub fn dialog_case() -> BoxedStrategy<Case> {
    let streams = prop_oneof![
        3 => prop::collection::vec(dialog_stream(120_000), 1..=1),
        1 => prop::collection::vec(dialog_stream(60_000), 1..=3),
    ];
    let mtus = prop_oneof![
        6 => proptest::sample::select(vec![1250u16, 1400, 1472, 1500, 9000]),
        3 => 1250u16..=1600,
        1 => mtu(true),
    ];
    let client = (mtus.clone(), prop_oneof![4 => Just(0u32), 1 => 0u32..=20_000], streams)
        .prop_map(|(mtu, start_us, streams)| ClientCase { mtu, start_us, streams });
    let clients = prop_oneof![
        4 => prop::collection::vec(client.clone(), 1..=1),
        1 => prop::collection::vec(client, 2..=2),
    ];
    let tapes = prop_oneof![
        4 => Just((vec![], vec![])).boxed(),
        1 => (prop::collection::vec(fault(false), 0..=60), prop::collection::vec(fault(false), 0..=60)).boxed(),
    ];
    (any::<u64>(), mtus, clients, prop::collection::vec(group(), 1..=3), tapes)
        .prop_map(|(seed, server_mtu, clients, groups, (tu, td))| {
            let mtu = clients.iter().map(|c| c.mtu).max().unwrap_or(1500).max(server_mtu);
            let est = |resp: bool| -> u32 {
                clients
                    .iter()
                    .flat_map(|c| c.streams.iter())
                    .map(|s| est_packets(if resp { s.resp.len } else { s.req.len + 1 }, mtu))
                    .sum()
            };
            let (est_up, est_down) = (est(false), est(true));
            let mut targeted = vec![];
            for g in &groups {
                let est = if g.up { est_up } else { est_down };
                let k = (g.frac as u32 * est / 256).min(u16::MAX as u32) as u16;
                targeted.push(Targeted { up: g.up, target: Target::Nth { kind: PktKind::Stream, n: k }, fault: Fault::Drop });
                for n in 0..g.depth.saturating_sub(1) {
                    targeted.push(Targeted { up: g.up, target: Target::RetxOf { k, n: n as u16 }, fault: g.again });
                }
                if let Some(n) = g.control {
                    targeted.push(Targeted { up: !g.up, target: Target::Nth { kind: PktKind::Control, n }, fault: Fault::Drop });
                }
            }
            Case {
                seed,
                proto: Proto::Udp,
                server_mtu,
                clients,
                net: NetCase {
                    up: Tape { faults: tu, repeat: false },
                    down: Tape { faults: td, repeat: false },
                    blackholes: vec![],
                    single: None,
                    targeted,
                },
                loss: None,
            }
        })
        .boxed()
}
