//! C20 — s2n-quic-dc streams deliver bytes exactly, or fail promptly with an error.
//!
//! Environment knobs (debugging only, never needed for a verdict):
//!   DCSIM_TRACE=1      print the datagram log and the per-stream records of every executed case
//!                      (tcp_cut_*: the records of both halves and of the forwarder)
//!   DCSIM_ECHO=<file>  write the udp case that is about to run as a replay file (crash hunting)
//!   DCSIM_BACKTRACE=1  print a backtrace for panics inside the simulation thread
//!   DCSIM_SMALL=1      udp_generated draws one small polite stream (small reproductions)
//!   S2N_LOG=...        tracing filter of s2n-quic-dc (default here: off)

mod case;
mod checks;
mod gen;
mod net;
mod oracle;
mod script;
mod sim;
mod tcp;
mod tcp_cut;

fn main() {
    if std::env::var_os("S2N_LOG").is_none() {
        // the in-tree test setup logs at DEBUG when debug assertions are on
        std::env::set_var("S2N_LOG", "off");
    }
    vcore::main_with(vec![checks::property()])
}
