//! The faulty network of the simulation: a `bach` queue allocator modelled on
//! `bach::environment::net::queue::Fixed::for_udp`, plus a decision per datagram taken from
//! the generated case (tapes per direction, blackhole phases, one single fault by global index,
//! faults addressed by packet class + ordinal or as "the n-th retransmission of the bytes of
//! the k-th stream packet", resolved from the cleartext packet headers).
//! Drop = the datagram never enters the wire; Dup = it enters twice; Delay = extra one-way
//! latency for this datagram only, so later datagrams overtake it.

use crate::case::{Fault, NetCase, PktKind, Target};
use bach::{
    environment::net::{
        ip::{Packet, Segments},
        monitor::List as Monitors,
        pcap,
        queue::{Allocator, Dispatch, PacketQueue},
    },
    ext::*,
    group::Group,
    net::SocketAddr,
    queue::{latent::Latency, vec_deque},
    sync::channel::Sender,
};
use std::{
    sync::{Arc, Mutex},
    time::Duration,
};

/// one-way latency of the fault-free network (the in-tree `testing::sim` uses the same: 1 ms RTT)
pub const BASE_LATENCY_US: u64 = 500;

#[derive(Clone, Copy, Debug, PartialEq, Eq)]
pub enum Kind {
    /// stream space packet (tag 0b00xx_xxxx without the recovery bit)
    Stream,
    /// recovery space packet: retransmission or probe (recovery bit set)
    Recovery,
    /// control packet: ACK / MAX_DATA / CONNECTION_CLOSE (tag 0b0101_xxxx)
    Control,
    /// secret control: UnknownPathSecret / StaleKey / ReplayDetected (tag 0b0110_0xxx)
    Secret,
    Other,
}

/// classification by the cleartext tag byte, see `dc/s2n-quic-dc/src/packet/tag.rs`
pub fn classify(payload: &[u8]) -> Kind {
    match payload.first().copied() {
        Some(t @ 0b0000_0000..=0b0011_1111) => {
            if t & 0b01_0000 != 0 {
                Kind::Recovery
            } else {
                Kind::Stream
            }
        }
        Some(0b0101_0000..=0b0101_1111) => Kind::Control,
        Some(0b0110_0000..=0b0110_0111) => Kind::Secret,
        _ => Kind::Other,
    }
}

#[derive(Clone, Debug, Default)]
pub struct NetStats {
    /// datagrams handed to the network, per direction [up, down]
    pub sent: [u64; 2],
    pub dropped_stream: u64,
    pub dropped_recovery: u64,
    pub dropped_control: u64,
    pub dropped_other: u64,
    pub duplicated: u64,
    pub delayed: u64,
    /// datagrams that arrive before a datagram sent earlier in the same direction
    pub overtaken: u64,
    pub secret_control_seen: u64,
    /// virtual time of the last datagram that was lost by a fault (drop / blackhole)
    pub last_loss_us: u64,
    /// virtual time of the last fault of any kind
    pub last_fault_us: u64,
    /// order-sensitive digest of (time, direction, length, decision) of every datagram
    pub digest: u64,
    pub bytes: u64,
    /// datagrams per direction [up, down] and class [stream, recovery, control]
    pub sent_kind: [[u32; 3]; 2],
    /// targeted faults that found their datagram
    pub targeted_applied: u64,
    /// lost recovery-space packets that carried bytes of a lost stream-space packet of the same
    /// stream again (only counted in runs with targeted faults, which parse the headers)
    pub retx_of_lost_dropped: u64,
}

#[derive(Clone, Copy, Debug)]
pub struct LogEntry {
    pub at_us: u64,
    pub up: bool,
    pub kind: Kind,
    pub len: usize,
    pub fault: Fault,
    pub blackholed: bool,
}

pub struct NetState {
    cfg: NetCase,
    idx: [usize; 2],
    global_idx: u32,
    /// arrival time of the latest-arriving datagram so far, per direction
    max_arrival_us: [u64; 2],
    /// extra latency of the datagram that is being pushed right now
    pending_extra_us: u64,
    /// blackhole for ever (peer-loss family), per direction
    pub kill: [bool; 2],
    pub stats: NetStats,
    pub log: Option<Vec<LogEntry>>,
    /// address of every client socket group ("client{i}" -> i), filled when sockets are opened
    client_ips: Vec<(std::net::IpAddr, usize)>,
    /// per client: (time, client -> server?) of every datagram handed to the network
    pub flows: Vec<Vec<(u64, bool)>>,
    /// runs with targeted faults: (stream, offset, payload length) of every stream-space
    /// packet per direction, in send order
    stream_pkts: [Vec<PktRange>; 2],
    /// the lost ones of them
    lost_stream_pkts: [Vec<PktRange>; 2],
    /// per targeted fault: matching recovery-space packets seen so far (`Target::RetxOf`)
    retx_seen: Vec<u32>,
}

/// (hash of credentials + stream id, stream offset, payload length) from the cleartext header
type PktRange = (u64, u64, u64);

fn parse_stream_header(payload: &[u8]) -> Option<PktRange> {
    use s2n_quic_core::packet::interceptor::DecoderBufferMut;
    use s2n_quic_dc::packet::stream::decoder::Packet;
    let mut copy = payload.to_vec();
    let (p, _) = Packet::decode(DecoderBufferMut::new(&mut copy), (), 16).ok()?;
    let id = vcore::hash_of(&format!("{:?} {:?}", p.credentials(), p.stream_id()));
    Some((id, p.stream_offset().as_u64(), p.payload().len() as u64))
}

/// `b` carries bytes of `a` again (a packet without payload: any later packet of the stream)
fn recarries(a: &PktRange, b: &PktRange) -> bool {
    a.0 == b.0 && (a.2 == 0 || (b.2 > 0 && b.1 < a.1 + a.2 && a.1 < b.1 + b.2))
}

pub type SharedNet = Arc<Mutex<NetState>>;

pub fn new_state(cfg: &NetCase, log: bool) -> SharedNet {
    Arc::new(Mutex::new(NetState {
        cfg: cfg.clone(),
        idx: [0, 0],
        global_idx: 0,
        max_arrival_us: [0, 0],
        pending_extra_us: 0,
        kill: [false, false],
        stats: NetStats::default(),
        log: if log { Some(vec![]) } else { None },
        client_ips: vec![],
        flows: vec![vec![]; crate::case::MAX_CLIENTS],
        stream_pkts: [vec![], vec![]],
        lost_stream_pkts: [vec![], vec![]],
        retx_seen: vec![0; cfg.targeted.len()],
    }))
}

enum Decision {
    Drop,
    Deliver { copies: u8, extra_us: u64 },
}

impl NetState {
    fn decide(&mut self, up: bool, packet: &Packet, now_us: u64) -> Decision {
        let d = if up { 0 } else { 1 };
        let payload = packet.transport.payload();
        let kind = classify(payload);
        self.stats.sent[d] += 1;
        self.stats.bytes += payload.len() as u64;
        if kind == Kind::Secret {
            self.stats.secret_control_seen += 1;
        }
        let client_ip = if up { packet.source().ip() } else { packet.destination().ip() };
        if let Some((_, ci)) = self.client_ips.iter().find(|(ip, _)| *ip == client_ip) {
            self.flows[*ci].push((now_us, up));
        }

        // every datagram consumes its tape slot, also while the wire is dead
        let tape = if up { &self.cfg.up } else { &self.cfg.down };
        let mut fault = if tape.faults.is_empty() {
            Fault::Pass
        } else if tape.repeat {
            tape.faults[self.idx[d] % tape.faults.len()]
        } else {
            tape.faults.get(self.idx[d]).copied().unwrap_or(Fault::Pass)
        };
        self.idx[d] += 1;
        if let Some((k, f)) = self.cfg.single {
            if k == self.global_idx {
                fault = f;
            }
        }
        self.global_idx += 1;

        // faults addressed by class and ordinal
        let pkt_kind = match kind {
            Kind::Stream => Some(PktKind::Stream),
            Kind::Recovery => Some(PktKind::Recovery),
            Kind::Control => Some(PktKind::Control),
            _ => None,
        };
        let mut range = None;
        if let Some(pk) = pkt_kind {
            let ord = self.stats.sent_kind[d][pk as usize];
            self.stats.sent_kind[d][pk as usize] += 1;
            if !self.cfg.targeted.is_empty() {
                if pk != PktKind::Control {
                    range = parse_stream_header(payload);
                }
                if let (PktKind::Stream, Some(r)) = (pk, range) {
                    self.stream_pkts[d].push(r);
                } else if pk == PktKind::Stream {
                    // keeps the ordinals aligned; matches nothing
                    self.stream_pkts[d].push((u64::MAX, 0, 0));
                }
                let mut hit = None;
                for (ti, t) in self.cfg.targeted.iter().enumerate() {
                    if t.up != up {
                        continue;
                    }
                    let m = match t.target {
                        Target::Nth { kind: tk, n } => tk == pk && n as u32 == ord,
                        Target::RetxOf { k, n } => {
                            let again = pk == PktKind::Recovery
                                && match (self.stream_pkts[d].get(k as usize), &range) {
                                    (Some(orig), Some(r)) => recarries(orig, r),
                                    _ => false,
                                };
                            if again {
                                self.retx_seen[ti] += 1;
                            }
                            again && self.retx_seen[ti] == n as u32 + 1
                        }
                    };
                    if m && hit.is_none() {
                        hit = Some(t.fault);
                    }
                }
                if let Some(f) = hit {
                    fault = f;
                    self.stats.targeted_applied += 1;
                }
            }
        }

        let blackholed = self.kill[d]
            || self.cfg.blackholes.iter().any(|b| {
                (if up { b.up } else { b.down }) && b.from_us <= now_us && now_us < b.to_us
            });

        if let Some(log) = self.log.as_mut() {
            log.push(LogEntry { at_us: now_us, up, kind, len: payload.len(), fault, blackholed });
        }
        let code = match (blackholed, fault) {
            (true, _) => 1u64,
            (_, Fault::Pass) => 2,
            (_, Fault::Drop) => 3,
            (_, Fault::Dup) => 4,
            (_, Fault::Delay(n)) => 5 + n as u64,
        };
        self.stats.digest =
            vcore::hash_of(&(self.stats.digest, now_us, up, payload.len() as u64, code));

        if blackholed || fault == Fault::Drop {
            if let Some(r) = range {
                if kind == Kind::Stream {
                    self.lost_stream_pkts[d].push(r);
                } else if self.lost_stream_pkts[d].iter().any(|o| recarries(o, &r)) {
                    self.stats.retx_of_lost_dropped += 1;
                }
            }
            match kind {
                Kind::Stream => self.stats.dropped_stream += 1,
                Kind::Recovery => self.stats.dropped_recovery += 1,
                Kind::Control => self.stats.dropped_control += 1,
                _ => self.stats.dropped_other += 1,
            }
            // the for-ever blackhole of the peer-loss family is the loss event itself, not a fault
            if !self.kill[d] {
                self.stats.last_loss_us = now_us;
                self.stats.last_fault_us = now_us;
            }
            return Decision::Drop;
        }

        let (copies, extra_us) = match fault {
            Fault::Dup => {
                self.stats.duplicated += 1;
                self.stats.last_fault_us = now_us;
                (2, 0)
            }
            Fault::Delay(n) if n > 0 => {
                self.stats.delayed += 1;
                self.stats.last_fault_us = now_us;
                (1, n.min(200) as u64 * 100)
            }
            _ => (1, 0),
        };
        let arrival = now_us + BASE_LATENCY_US + extra_us;
        if arrival < self.max_arrival_us[d] {
            self.stats.overtaken += 1;
        }
        self.max_arrival_us[d] = self.max_arrival_us[d].max(arrival);
        Decision::Deliver { copies, extra_us }
    }
}

/// per-datagram latency: base + the extra latency the decision for this datagram asked for
struct FaultLatency(SharedNet);

impl Latency<Packet> for FaultLatency {
    fn for_value(&self, _value: &Packet) -> Duration {
        let extra = self.0.lock().unwrap().pending_extra_us;
        Duration::from_micros(BASE_LATENCY_US + extra)
    }
}

pub struct FaultAllocator {
    pub state: SharedNet,
    /// name of the bach group whose sockets send "down" (server -> client)
    pub server_group: String,
}

impl Allocator for FaultAllocator {
    fn for_udp(
        &mut self,
        group: &Group,
        addr: SocketAddr,
        dispatch: &Dispatch,
        _monitors: &Monitors,
        _pcaps: &mut pcap::Registry,
    ) -> PacketQueue {
        // same queue sizes as `Fixed::default()`
        let (tx_sender, mut tx_receiver) = vec_deque::Queue::builder()
            .with_capacity(Some(4096))
            .with_overflow(vec_deque::Overflow::PreferOldest)
            .build()
            .sojourn()
            .span(format!("udp://{addr}/tx"))
            .mutex()
            .channel();

        let _: &Sender<Segments> = &tx_sender;

        let (rx_sender, rx_receiver) = vec_deque::Queue::builder()
            .with_capacity(Some(4096))
            .with_overflow(vec_deque::Overflow::PreferOldest)
            .build()
            .sojourn()
            .span(format!("udp://{addr}/rx"))
            .mutex()
            .channel();

        let (mut net_send, mut net_recv) = vec_deque::Queue::builder()
            .with_capacity(Some(u16::MAX as usize))
            .with_overflow(vec_deque::Overflow::PreferOldest)
            .build()
            .latent(FaultLatency(self.state.clone()))
            .span(format!("udp://{addr}/net"))
            .mutex()
            .channel();

        let name = group.name();
        let up = name != self.server_group;
        if let Some(ci) = name.strip_prefix("client").and_then(|n| n.parse::<usize>().ok()) {
            let mut st = self.state.lock().unwrap();
            if ci < st.flows.len() && !st.client_ips.iter().any(|(ip, _)| *ip == addr.ip()) {
                st.client_ips.push((addr.ip(), ci));
            }
        }
        let state = self.state.clone();

        async move {
            while let Ok(segments) = tx_receiver.recv().await {
                for packet in segments {
                    let now_us =
                        bach::time::Instant::now().elapsed_since_start().as_micros() as u64;
                    let decision = state.lock().unwrap().decide(up, &packet, now_us);
                    let Decision::Deliver { copies, extra_us } = decision else {
                        continue;
                    };
                    state.lock().unwrap().pending_extra_us = extra_us;
                    let mut closed = false;
                    for i in 0..copies {
                        let p = if i + 1 < copies { packet.clone() } else { packet.clone() };
                        if net_send.push_nowait(p).await.is_err() {
                            closed = true;
                            break;
                        }
                    }
                    state.lock().unwrap().pending_extra_us = 0;
                    if closed {
                        let _ = tx_receiver.close();
                        return;
                    }
                }
            }
            let _ = tx_receiver.close();
        }
        .spawn_named(format_args!("udp://{addr}/net/local"));

        let senders = dispatch.clone();
        async move {
            while let Ok(packet) = net_recv.recv().await {
                senders.send(packet).await;
            }
            let _ = net_recv.close();
        }
        .spawn_named(format_args!("udp://{addr}/net/remote"));

        PacketQueue {
            local_sender: tx_sender,
            local_receiver: rx_receiver,
            remote_sender: rx_sender,
        }
    }
}
