//! Verdict over the outcome of one run. Nothing here looks at s2n-quic-dc internals: the
//! inputs are what the applications wrote/read/were told (records of `script.rs`), the
//! virtual clock and the harness's own network statistics.
//!
//! Always (every family):
//!   * every byte read is the next byte of the keyed PRF stream of that direction (`c20:data`)
//!   * `read` returns 0 only after the writer ended, and exactly at the number of bytes the
//!     writer had written (`c20:eof`); never more bytes than were written (`c20:overrun`);
//!     a non-empty `write` never returns 0 (`c20:zero-write`)
//!   * a server that answers only after the complete request never lets the client see the
//!     response before the client finished writing (`c20:early-response`)
//!   * no stream is accepted twice (`c20:dup-accept`); a stream that no client opened (the
//!     server accepts one from a late copy of a datagram) yields an error, never data or a
//!     clean end (`c20:phantom-eof`)
//!   * the stream workers end by themselves after the scripts (`c20:stall` = bach reports a
//!     stalled runtime, `c20:worker-hang` / `c20:hang:phantom-stream` = still alive after 4
//!     idle timeouts)
//! Finite fault prefix (last lost datagram within `FAULT_WINDOW_US`), no peer loss: every
//! script ends before the cap (`c20:hang`, `c20:hang:phantom-stream`), and a stream on which
//! no half is dropped early ends without any error, completely (`c20:error`, `c20:incomplete`).
//! An error that arrives 25 s or more after the last lost datagram is classified by what the
//! two endpoints still sent while stuck (`c20:flow-credit-lost`, `c20:stuck:silence`,
//! `c20:stuck:probes-unanswered`, `c20:stuck:writer-silent`, `c20:stuck:no-progress`; or, when
//! that half only waited for the peer and the other direction is the one that lost bytes while
//! its writer's endpoint kept probing a silent peer, `c20:stuck:peer-probes-unanswered`).
//! Dialogues on an open stream and targeted multi-faults (`udp_dialog_retx`,
//! `udp_retx_pair_enum`) are finite-prefix cases: the same completion rule applies, so a
//! writer that is idle before its FIN and never recovers a twice-lost packet shows up as
//! `c20:stuck:*` / `c20:error`.
//! Peer loss: every operation ends no later than loss + k * idle timeout + slack
//! (`c20:late-error`), nothing is pending at the end (`c20:hang`), and a stream opened with a
//! secret the server forgot carries no data (`c20:forgotten-secret`).
//! A panic of the code under test (debug assertions are armed) is reported with the engine's
//! `panic:<file>:<message>` key.

use crate::{
    case::{Case, LossKind, StreamCase, WriteEnd, FAULT_WINDOW_US, IDLE_US, INITIAL_FLOW_WINDOW},
    script::{ReadRec, WriteRec},
    sim::{Outcome, StreamRec},
};
use vcore::{ensure_that, fail, CaseResult, Obs};

/// allowance on top of the idle timeout for an operation to report the error (timer
/// granularity of the workers, one PTO of the peer's last datagrams in flight)
pub const DEADLINE_SLACK_US: u64 = 1_500_000;

struct Dir {
    name: &'static str,
    wire_len: u64,
    w: WriteRec,
    r: ReadRec,
    /// the task that owned the writer was dropped at this time (peer-loss family)
    w_aborted_at: Option<u64>,
    /// the writer was dropped before it wrote anything, at this time
    w_unused_dropped_at: Option<u64>,
}

fn integrity(ci: usize, si: usize, d: &Dir) -> CaseResult {
    let id = format!("client {ci} stream {si} {}", d.name);
    if let Some((off, got, want)) = d.r.mismatch {
        fail!(
            "c20:data",
            "{id}: byte at wire offset {off} is {got:#04x}, the writer wrote {want:#04x} (reader had {} bytes, writer accepted {})",
            d.r.bytes, d.w.accepted
        );
    }
    ensure_that!(
        d.r.bytes <= d.wire_len && d.r.bytes <= d.w.attempt_end.max(d.w.accepted),
        "c20:overrun",
        "{id}: reader got {} bytes, writer wrote at most {} of {}",
        d.r.bytes,
        d.w.attempt_end,
        d.wire_len
    );
    ensure_that!(!d.w.zero_write, "c20:zero-write", "{id}: write of a non-empty buffer returned Ok(0)");
    if let Some(eof_at) = d.r.eof_at {
        // when did the writing half end, and how?
        let normal = d.w.end_started_at.filter(|_| d.w.accepted == d.wire_len);
        let ended = [normal, d.w.err.as_ref().map(|e| e.at_us), d.w_aborted_at, d.w_unused_dropped_at]
            .into_iter()
            .flatten()
            .min();
        let Some(ended) = ended else {
            fail!(
                "c20:eof",
                "{id}: read returned 0 at {eof_at}us after {} bytes but the writer (accepted {} of {}) has not shut down",
                d.r.bytes, d.w.accepted, d.wire_len
            );
        };
        ensure_that!(
            eof_at >= ended,
            "c20:eof",
            "{id}: read returned 0 at {eof_at}us, before the writer ended at {ended}us"
        );
        if normal.is_some() && d.w.err.is_none() {
            ensure_that!(
                d.r.bytes == d.wire_len,
                "c20:eof",
                "{id}: read returned 0 after {} bytes, the writer wrote {} before shutdown",
                d.r.bytes,
                d.wire_len
            );
        } else {
            ensure_that!(
                d.w.accepted <= d.r.bytes && d.r.bytes <= d.w.attempt_end.max(d.w.accepted),
                "c20:eof",
                "{id}: read returned 0 after {} bytes, the writer had written {}..={} when it ended",
                d.r.bytes,
                d.w.accepted,
                d.w.attempt_end
            );
        }
    }
    Ok(())
}

fn halves(sc: &StreamCase, rec: &StreamRec, out: &Outcome) -> [Dir; 2] {
    let sw = rec.server_w.lock().unwrap().clone();
    let sr = rec.server_r.lock().unwrap().clone();
    // sequential server whose request reader ended without EOF drops the writer unused
    // (the dialogue server does the same when the first part of the request did not arrive)
    let sequential = sc.dialog.is_some() || !sc.server_concurrent;
    let unused = if sequential && sw.started_at.is_none() && sr.eof_at.is_none() {
        sr.finished_at
    } else {
        None
    };
    [
        Dir {
            name: "request",
            wire_len: sc.req.len as u64 + 1,
            w: rec.client_w.lock().unwrap().clone(),
            r: sr,
            w_aborted_at: None,
            w_unused_dropped_at: None,
        },
        Dir {
            name: "response",
            wire_len: sc.resp.len as u64,
            w: sw,
            r: rec.client_r.lock().unwrap().clone(),
            // a stream the aborted server had not identified yet (or accepted afterwards) was
            // dropped by it without a trace in the records
            w_aborted_at: rec.server_aborted_at.or(if out.world.server_aborted && rec.accepted_at.is_none() {
                out.world.loss_applied_at
            } else {
                None
            }),
            w_unused_dropped_at: unused,
        },
    ]
}

fn flow_credit_lost(d: &Dir) -> bool {
    let timed_out = |e: &Option<crate::script::ErrInfo>| e.as_ref().map_or(false, |e| e.kind == "TimedOut");
    timed_out(&d.w.err)
        && timed_out(&d.r.err)
        && d.w.accepted == INITIAL_FLOW_WINDOW as u64
        && d.r.bytes == d.w.accepted
        && d.w.accepted < d.wire_len
}

/// Some(key, description) when a half of the stream failed at least 25 s after the last lost
/// datagram; the window looked at is [error - 20 s, error - 0.5 s].
fn stuck_class(ci: usize, dirs: &[Dir; 2], out: &Outcome) -> Option<(&'static str, String)> {
    // the half that failed first names the stuck direction
    let mut first: Option<(u64, usize, &'static str, String)> = None;
    for (i, d) in dirs.iter().enumerate() {
        for (e, who) in [(&d.w.err, "write"), (&d.r.err, "read")] {
            if let Some(e) = e {
                if first.as_ref().map_or(true, |f| e.at_us < f.0) {
                    first = Some((e.at_us, i, who, format!("{} {}", e.kind, e.msg)));
                }
            }
        }
    }
    let (t_err, i, who, err) = first?;
    if t_err < out.net.last_loss_us + 25_000_000 {
        return None;
    }
    let (from, to) = (t_err - 20_000_000, t_err - 500_000);
    let flow = out.flows.get(ci)?;
    let up = flow.iter().filter(|(t, up)| *up && *t >= from && *t < to).count();
    let down = flow.iter().filter(|(t, up)| !*up && *t >= from && *t < to).count();
    let d = &dirs[i];
    // request: the client writes; response: the server writes
    let (writer_side, reader_side) = if i == 0 { (up, down) } else { (down, up) };
    let key = match (writer_side > 0, reader_side > 0) {
        (false, false) => "c20:stuck:silence",
        (true, false) => "c20:stuck:probes-unanswered",
        (false, true) => "c20:stuck:writer-silent",
        (true, true) => "c20:stuck:no-progress",
    };
    // The half that failed first may only have been waiting for the peer (the client of a
    // dialogue reads the response while its unfinished request is the transfer that is stuck).
    // Then the other direction tells more: bytes its writer was rid of never reached its
    // reader, the writer's endpoint kept sending and the reader's endpoint stayed silent. This
    // never renames a `probes-unanswered` verdict of the first direction.
    let o = &dirs[1 - i];
    if key != "c20:stuck:probes-unanswered" && o.r.bytes < o.w.accepted && reader_side > 0 && writer_side == 0 {
        return Some((
            "c20:stuck:peer-probes-unanswered",
            format!(
                "{} {who} failed at {t_err}us ({err}) although the last datagram was lost at {}us, but that half was only waiting for the peer: the {} is the transfer that is stuck (writer accepted {} of {}, reader got {}); during the {}s before the failure the endpoint of its writer sent {reader_side} datagrams on this client's flow and the endpoint of its reader none",
                d.name, out.net.last_loss_us, o.name, o.w.accepted, o.wire_len, o.r.bytes, (to - from) / 1_000_000
            ),
        ));
    }
    Some((
        key,
        format!(
            "{} {who} failed at {t_err}us ({err}) although the last datagram was lost at {}us; writer accepted {} of {}, reader got {}; during the {}s before the failure the writer's endpoint sent {writer_side} datagrams on this client's flow and the reader's endpoint {reader_side}",
            d.name, out.net.last_loss_us, d.w.accepted, d.wire_len, d.r.bytes, (to - from) / 1_000_000
        ),
    ))
}

fn polite(sc: &StreamCase) -> bool {
    [&sc.req, &sc.resp].iter().all(|t| t.end == WriteEnd::Shutdown && t.read_drop_at.is_none())
}

pub fn judge(case: &Case, out: &Outcome, obs: &mut Obs) -> CaseResult {
    let w = &out.world;
    let mut errors = 0u64;

    // ---- integrity, in every family
    for (ci, cc) in case.clients.iter().enumerate() {
        for (si, sc) in cc.streams.iter().enumerate() {
            let rec = &w.streams[ci][si];
            ensure_that!(!rec.accepted_twice, "c20:dup-accept", "client {ci} stream {si} was accepted twice by the server");
            let dirs = halves(sc, rec, out);
            for d in &dirs {
                integrity(ci, si, d)?;
                errors += d.w.err.is_some() as u64 + d.r.err.is_some() as u64;
            }
            // response only after the complete request
            // (a server whose request reader ended otherwise drops the response half unused,
            // which the client sees as an empty response - covered by the end-of-stream rule)
            // (in a dialogue the response comes before the end of the request by design; the
            // client only starts to read it after its write of the first part returned)
            if sc.dialog.is_none() && !sc.server_concurrent && dirs[0].r.eof_at.is_some() {
                let req_w = &dirs[0].w;
                let resp_r = &dirs[1].r;
                if let (Some(first), true) = (resp_r.first_ok_at, resp_r.bytes > 0 || resp_r.eof_at.is_some()) {
                    let written = req_w.end_started_at.filter(|_| req_w.accepted == dirs[0].wire_len);
                    let ended = [written, req_w.err.as_ref().map(|e| e.at_us)].into_iter().flatten().min();
                    match ended {
                        Some(t) => ensure_that!(
                            first >= t,
                            "c20:early-response",
                            "client {ci} stream {si}: the response was seen at {first}us, the request was only finished at {t}us"
                        ),
                        None => fail!(
                            "c20:early-response",
                            "client {ci} stream {si}: the response was seen at {first}us but the request ({} of {} bytes written) is not finished",
                            req_w.accepted, dirs[0].wire_len
                        ),
                    }
                }
            }
            errors += rec.connect_err.is_some() as u64;
        }
    }
    // accepted streams that never produced a header byte: a late copy of a stream's first
    // datagram makes the server accept a phantom stream, which has to fail with an error
    // (replay protection); it must not deliver a byte or a clean end of stream
    let some_writer_sent_nothing = w.streams.iter().flatten().any(|s| {
        s.connected_at.is_some() && s.client_w.lock().unwrap().accepted == 0
    });
    for a in &w.anonymous {
        ensure_that!(!a.contains("header 0x"), "c20:data", "server: {a}");
        ensure_that!(
            !a.contains("eof before the header") || some_writer_sent_nothing,
            "c20:phantom-eof",
            "server: a stream that no client wrote ended cleanly without data: {a}"
        );
    }

    if let Some(msg) = &out.stall {
        let first: String = msg.lines().filter(|l| !l.trim().is_empty()).take(12).collect::<Vec<_>>().join(" | ");
        fail!("c20:stall", "the simulation stalled while the stream workers were draining (end of scripts at {}us): {first}", out.end_us);
    }
    if out.drain_capped {
        let identified = w.streams.iter().flatten().filter(|s| s.accepted_at.is_some()).count() as u64;
        if w.accepted > identified + w.anonymous.len() as u64 || !w.anonymous.is_empty() {
            // streams that no client opened keep the workers (and the network) busy
            let key = "c20:hang:phantom-stream";
            if !obs.step_over_known(key) {
                fail!(
                    key,
                    "{}us after every script had ended the stream workers were still alive; the server had accepted {} streams, {} of them opened by a client ({} datagrams in total, phantom streams: {:?})",
                    out.drain_end_us - out.end_us, w.accepted, identified, out.net.sent[0] + out.net.sent[1], w.anonymous
                );
            }
        } else {
            // parked for good (the drain watchdog's timer is the only thing that keeps bach from
            // reporting the stalled runtime itself) or still exchanging datagrams?
            let half = out.end_us + (out.drain_end_us - out.end_us) / 2;
            let late = out.flows.iter().flatten().filter(|(t, _)| *t > half).count();
            let key = if late == 0 { "c20:stall" } else { "c20:worker-hang" };
            fail!(
                key,
                "background stream workers were still alive {}us after every application script had ended ({} datagrams in total, {late} of them in the second half of that time)",
                out.drain_end_us - out.end_us,
                out.net.sent[0] + out.net.sent[1]
            );
        }
    }

    obs.class_if(errors > 0, "io_errors");
    obs.class_if(out.capped, "capped");
    obs.class_if(!w.anonymous.is_empty(), "anonymous_accept");

    // ---- family specific
    match case.loss {
        None => {
            let finite = case.finite_faults();
            let late_faults = out.net.last_loss_us > FAULT_WINDOW_US;
            obs.class_if(finite && late_faults, "late_faults");
            if finite && !late_faults {
                completion(case, out, obs)?;
            }
        }
        Some(loss) => deadlines(case, out, loss.kind, obs)?,
    }
    Ok(())
}

fn pending(case: &Case, out: &Outcome) -> Vec<String> {
    let mut v = vec![];
    for (ci, cc) in case.clients.iter().enumerate() {
        for (si, _) in cc.streams.iter().enumerate() {
            let rec = &out.world.streams[ci][si];
            if rec.client_done_at.is_none() {
                let cw = rec.client_w.lock().unwrap();
                let cr = rec.client_r.lock().unwrap();
                v.push(format!(
                    "client {ci} stream {si}: client script pending (connected {:?}, wrote {} pending since {:?}, read {} pending since {:?})",
                    rec.connected_at, cw.accepted, cw.pending_since, cr.bytes, cr.pending_since
                ));
            }
            if rec.accepted_at.is_some() && rec.server_done_at.is_none() && rec.server_aborted_at.is_none() {
                let sw = rec.server_w.lock().unwrap();
                let sr = rec.server_r.lock().unwrap();
                v.push(format!(
                    "client {ci} stream {si}: server script pending (read {} pending since {:?}, wrote {} pending since {:?})",
                    sr.bytes, sr.pending_since, sw.accepted, sw.pending_since
                ));
            }
        }
    }
    if out.world.accepted != out.world.server_tasks_finished && v.is_empty() {
        v.push(format!(
            "{} accepted streams, {} server tasks finished (a stream is waiting for its first byte)",
            out.world.accepted, out.world.server_tasks_finished
        ));
    }
    v
}

/// finite fault prefix, no peer loss
fn completion(case: &Case, out: &Outcome, obs: &mut Obs) -> CaseResult {
    if out.capped {
        let p = pending(case, out);
        if p.len() == 1 && p[0].contains("waiting for its first byte") {
            // every script ended; only a stream that no client opened (accepted from a late copy
            // of a datagram) is left, and its read neither returns data nor an error
            let key = "c20:hang:phantom-stream";
            if !obs.step_over_known(key) {
                fail!(
                    key,
                    "all scripts had ended, but {} (still pending at {}us, more than the idle timeout later; last lost datagram at {}us; {} datagrams were sent in total)",
                    p[0], out.end_us, out.net.last_loss_us, out.net.sent[0] + out.net.sent[1]
                );
            }
        } else {
            fail!(
                "c20:hang",
                "cap of {}us of virtual time reached (last lost datagram at {}us): {}",
                out.end_us,
                out.net.last_loss_us,
                p.join("; ")
            );
        }
    }
    for (ci, cc) in case.clients.iter().enumerate() {
        for (si, sc) in cc.streams.iter().enumerate() {
            if !polite(sc) {
                continue;
            }
            let rec = &out.world.streams[ci][si];
            let id = format!("client {ci} stream {si}");
            if let Some(e) = &rec.connect_err {
                fail!("c20:error", "{id}: connect failed at {}us: {} {}", e.at_us, e.kind, e.msg);
            }
            let dirs = halves(sc, rec, out);
            // Signature of a lost flow-credit update: the writer used up exactly the initial
            // window, the reader consumed all of it, and both waited for each other until
            // their idle timers fired (the only datagram that carried the new MAX_DATA was lost).
            if let Some(d) = dirs.iter().find(|d| flow_credit_lost(d)) {
                let key = "c20:flow-credit-lost";
                if obs.step_over_known(key) {
                    continue;
                }
                fail!(
                    key,
                    "{id} {}: the writer stopped after {} of {} bytes (= the initial flow window) at {:?}us and failed with the idle timeout at {}us; the reader had read all {} bytes and failed with the idle timeout too; last lost datagram at {}us, {} control datagrams lost in total",
                    d.name, d.w.accepted, d.wire_len, d.w.slow_ops.last().map(|o| o.0),
                    d.w.err.as_ref().map_or(0, |e| e.at_us), d.r.bytes, out.net.last_loss_us, out.net.dropped_control
                );
            }
            // An error that comes after a long silence (idle timeout) although the faults ended
            // long before: classify by what the two endpoints of this client's flow still sent
            // to each other while the stream was stuck.
            if let Some((key, msg)) = stuck_class(ci, &dirs, out) {
                if obs.step_over_known(key) {
                    continue;
                }
                fail!(key, "{id}: {msg}");
            }
            for d in dirs {
                if let Some(e) = &d.w.err {
                    fail!(
                        "c20:error",
                        "{id} {}: write/shutdown failed at {}us after {} of {} bytes: {} {} (last lost datagram at {}us)",
                        d.name, e.at_us, d.w.accepted, d.wire_len, e.kind, e.msg, out.net.last_loss_us
                    );
                }
                if let Some(e) = &d.r.err {
                    fail!(
                        "c20:error",
                        "{id} {}: read failed at {}us after {} of {} bytes: {} {} (last lost datagram at {}us)",
                        d.name, e.at_us, d.r.bytes, d.wire_len, e.kind, e.msg, out.net.last_loss_us
                    );
                }
                ensure_that!(
                    d.w.shutdown_ok == Some(true) && d.w.accepted == d.wire_len,
                    "c20:incomplete",
                    "{id} {}: the writer ended after {} of {} bytes, shutdown {:?}",
                    d.name, d.w.accepted, d.wire_len, d.w.shutdown_ok
                );
                ensure_that!(
                    d.r.eof_at.is_some() && d.r.bytes == d.wire_len,
                    "c20:incomplete",
                    "{id} {}: the reader ended after {} of {} bytes, eof {:?}",
                    d.name, d.r.bytes, d.wire_len, d.r.eof_at
                );
            }
        }
    }
    Ok(())
}

/// peer-loss family: prompt errors instead of hangs
fn deadlines(case: &Case, out: &Outcome, kind: LossKind, obs: &mut Obs) -> CaseResult {
    let Some(t_loss) = out.world.loss_applied_at else {
        // every script ended before the loss event: an ordinary run
        obs.class("loss_after_end");
        return if case.finite_faults() && out.net.last_loss_us <= FAULT_WINDOW_US {
            completion(case, out, obs)
        } else {
            Ok(())
        };
    };
    let k = match kind {
        // the side that still hears the other one only gives up once the deaf side has
        LossKind::BlackholeUp | LossKind::BlackholeDown => 2,
        _ => 1,
    };
    let mut max_late: i64 = i64::MIN;
    for (ci, cc) in case.clients.iter().enumerate() {
        for (si, sc) in cc.streams.iter().enumerate() {
            let rec = &out.world.streams[ci][si];
            let id = format!("client {ci} stream {si}");
            let t_eff = t_loss.max(rec.connected_at.unwrap_or(0));
            let limit = t_eff + k * IDLE_US + DEADLINE_SLACK_US;
            let mut check = |what: &str, slow: &[(u64, u64)], pending_since: Option<u64>| -> CaseResult {
                for (start, end) in slow {
                    let late = *end as i64 - (limit.max(*start + DEADLINE_SLACK_US)) as i64;
                    max_late = max_late.max(late);
                    ensure_that!(
                        late <= 0,
                        "c20:late-error",
                        "{id} {what}: an operation started at {start}us ended at {end}us; the peer was lost ({kind:?}) at {t_loss}us, stream connected at {:?}, limit {limit}us",
                        rec.connected_at
                    );
                }
                if let Some(start) = pending_since {
                    let lim = limit.max(start + k * IDLE_US + DEADLINE_SLACK_US);
                    ensure_that!(
                        out.end_us <= lim,
                        "c20:hang",
                        "{id} {what}: an operation started at {start}us is still pending at {}us; the peer was lost ({kind:?}) at {t_loss}us, limit {lim}us",
                        out.end_us
                    );
                }
                Ok(())
            };
            let cw = rec.client_w.lock().unwrap().clone();
            let cr = rec.client_r.lock().unwrap().clone();
            check("client write", &cw.slow_ops, cw.pending_since)?;
            check("client read", &cr.slow_ops, cr.pending_since)?;
            if rec.server_aborted_at.is_none() {
                let sw = rec.server_w.lock().unwrap().clone();
                let sr = rec.server_r.lock().unwrap().clone();
                check("server write", &sw.slow_ops, sw.pending_since)?;
                check("server read", &sr.slow_ops, sr.pending_since)?;
            }
            if kind == LossKind::ForgetSecret {
                // a stream opened after the server lost the secret cannot carry data
                // (the test setup installs the shared secret on both sides when a client opens
                // its first stream, so only a client with an older stream holds a forgotten one)
                let had_secret = out.world.streams[ci].iter().any(|s| s.connected_at.map_or(false, |c| c < t_loss));
                if had_secret && rec.connected_at.map_or(false, |c| c > t_loss) {
                    ensure_that!(
                        cr.bytes == 0 && cr.eof_at.is_none() && rec.accepted_at.is_none(),
                        "c20:forgotten-secret",
                        "{id}: opened at {:?}us, after the server forgot the path secret at {t_loss}us, but the client read {} bytes (eof {:?}), server accepted at {:?}",
                        rec.connected_at, cr.bytes, cr.eof_at, rec.accepted_at
                    );
                    obs.class("opened_after_forget");
                }
            }
            let _ = sc;
        }
    }
    if out.capped {
        let p = pending(case, out);
        fail!(
            "c20:hang",
            "cap of {}us reached, peer lost ({kind:?}) at {t_loss}us: {}",
            out.end_us,
            p.join("; ")
        );
    }
    if max_late > i64::MIN {
        obs.class("waited_for_idle_timeout");
        if max_late > -(DEADLINE_SLACK_US as i64) + 500_000 {
            obs.class("lateness_over_500ms");
        }
    }
    Ok(())
}

pub fn nontrivial(case: &Case, out: &Outcome) -> bool {
    let n = &out.net;
    let faults = (n.dropped_stream + n.dropped_recovery) >= 1
        && n.dropped_control >= 1
        && (n.duplicated >= 1 || n.overtaken >= 1)
        && case.max_len() > INITIAL_FLOW_WINDOW;
    faults || out.world.loss_applied_at.is_some()
}
