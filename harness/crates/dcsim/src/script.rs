//! Application drivers: one writing half and one reading half of a stream, executed from the
//! generated `Transfer`. Generic over the tokio I/O traits so that the bach (UDP) and the
//! loopback (TCP) runner share them. Everything observed goes into shared records step by
//! step, because a half may never finish (cap) or be dropped in the middle (peer loss).

use crate::case::{Dialog, StreamCase, Transfer, WriteEnd, MAX_PAUSES};
use std::sync::{Arc, Mutex};
use tokio::io::{AsyncRead, AsyncReadExt, AsyncWrite, AsyncWriteExt};

/// operations that take longer than this are remembered individually
const SLOW_OP_US: u64 = 500_000;

#[derive(Clone, Debug)]
pub struct ErrInfo {
    pub kind: String,
    pub msg: String,
    pub at_us: u64,
}

impl ErrInfo {
    pub fn new(e: &std::io::Error, at_us: u64) -> Self {
        ErrInfo { kind: format!("{:?}", e.kind()), msg: e.to_string(), at_us }
    }
}

#[derive(Clone, Debug, Default)]
pub struct WriteRec {
    pub started_at: Option<u64>,
    /// wire bytes for which `write` returned
    pub accepted: u64,
    /// `accepted` + size of the write that is (or was last) in flight
    pub attempt_end: u64,
    pub writes: u64,
    pub all_written_at: Option<u64>,
    /// time at which shutdown() / drop of the half began
    pub end_started_at: Option<u64>,
    pub shutdown_ok: Option<bool>,
    pub err: Option<ErrInfo>,
    /// `write` of a non-empty buffer returned Ok(0)
    pub zero_write: bool,
    pub finished_at: Option<u64>,
    pub pending_since: Option<u64>,
    pub slow_ops: Vec<(u64, u64)>,
}

#[derive(Clone, Debug, Default)]
pub struct ReadRec {
    pub started_at: Option<u64>,
    /// wire bytes read
    pub bytes: u64,
    pub reads: u64,
    pub eof_at: Option<u64>,
    pub err: Option<ErrInfo>,
    /// (wire offset, got, want) of the first wrong byte
    pub mismatch: Option<(u64, u8, u8)>,
    /// completion time of the first read that returned Ok (data or EOF)
    pub first_ok_at: Option<u64>,
    pub dropped_early: bool,
    pub finished_at: Option<u64>,
    pub pending_since: Option<u64>,
    pub slow_ops: Vec<(u64, u64)>,
}

/// wire bytes of one direction: an optional header byte followed by the keyed PRF stream
#[derive(Clone, Copy, Debug)]
pub struct Payload {
    pub key: u64,
    pub hdr: Option<u8>,
    /// payload length (without header)
    pub len: u32,
}

impl Payload {
    pub fn wire_len(&self) -> u64 {
        self.len as u64 + self.hdr.is_some() as u64
    }

    #[inline]
    pub fn byte(&self, off: u64) -> u8 {
        match self.hdr {
            Some(h) if off == 0 => h,
            Some(_) => vcore::gen::prf_byte(self.key, off - 1),
            None => vcore::gen::prf_byte(self.key, off),
        }
    }

    pub fn fill(&self, off: u64, out: &mut [u8]) {
        for (i, b) in out.iter_mut().enumerate() {
            *b = self.byte(off + i as u64);
        }
    }
}

pub struct Env {
    pub now_us: fn() -> u64,
    pub notify: Arc<tokio::sync::Notify>,
}

async fn pause(us: u32) {
    if us > 0 {
        s2n_quic_dc::testing::sleep(std::time::Duration::from_micros(us as u64)).await;
    }
}

/// position of a writing half inside its script
#[derive(Clone, Copy, Debug, Default)]
pub struct WriterPos {
    pub off: u64,
    writes: usize,
    pauses: u64,
}

fn finish_write(rec: &Arc<Mutex<WriteRec>>, env: &Env) {
    let mut r = rec.lock().unwrap();
    r.finished_at = Some((env.now_us)());
    r.pending_since = None;
    drop(r);
    env.notify.notify_one();
}

/// Writes the wire bytes `pos.off..until` in the generated chunking. `false`: the half failed
/// (the record is closed, the caller drops the half).
pub async fn write_part<W>(
    w: &mut W,
    t: &Transfer,
    p: Payload,
    rec: &Arc<Mutex<WriteRec>>,
    env: &Env,
    pos: &mut WriterPos,
    until: u64,
) -> bool
where
    W: AsyncWrite + Unpin,
{
    let now = env.now_us;
    {
        let mut g = rec.lock().unwrap();
        if g.started_at.is_none() {
            g.started_at = Some(now());
        }
    }
    let until = until.min(p.wire_len());
    let mut buf: Vec<u8> = vec![];
    while pos.off < until {
        let i = pos.writes;
        if t.write_pause_every > 0
            && i > 0
            && i % t.write_pause_every as usize == 0
            && pos.pauses < MAX_PAUSES
        {
            pos.pauses += 1;
            pause(t.write_pause_us).await;
        }
        let chunk = t.chunks[i % t.chunks.len()].max(1) as u64;
        let n = chunk.min(until - pos.off) as usize;
        buf.resize(n, 0);
        p.fill(pos.off, &mut buf);
        let start = now();
        {
            let mut r = rec.lock().unwrap();
            r.attempt_end = pos.off + n as u64;
            r.pending_since = Some(start);
        }
        let res = w.write(&buf).await;
        let end = now();
        let mut r = rec.lock().unwrap();
        r.pending_since = None;
        r.writes += 1;
        if end - start >= SLOW_OP_US {
            r.slow_ops.push((start, end));
        }
        match res {
            Ok(0) => {
                r.zero_write = true;
                drop(r);
                finish_write(rec, env);
                return false;
            }
            Ok(k) => {
                pos.off += k as u64;
                r.accepted = pos.off;
            }
            Err(e) => {
                r.err = Some(ErrInfo::new(&e, end));
                drop(r);
                finish_write(rec, env);
                return false;
            }
        }
        pos.writes += 1;
    }
    true
}

/// After the last byte: the generated pause, then shutdown or drop.
/// Returns the half when it has to stay alive (after an explicit shutdown).
pub async fn end_writer<W>(mut w: W, t: &Transfer, rec: &Arc<Mutex<WriteRec>>, env: &Env) -> Option<W>
where
    W: AsyncWrite + Unpin,
{
    let now = env.now_us;
    rec.lock().unwrap().all_written_at = Some(now());
    pause(t.end_pause_us).await;
    match t.end {
        WriteEnd::Shutdown => {
            let start = now();
            {
                let mut r = rec.lock().unwrap();
                r.end_started_at = Some(start);
                r.pending_since = Some(start);
            }
            let res = w.shutdown().await;
            let end = now();
            let mut r = rec.lock().unwrap();
            r.pending_since = None;
            if end - start >= SLOW_OP_US {
                r.slow_ops.push((start, end));
            }
            match res {
                Ok(()) => r.shutdown_ok = Some(true),
                Err(e) => {
                    r.shutdown_ok = Some(false);
                    r.err = Some(ErrInfo::new(&e, end));
                }
            }
            drop(r);
            finish_write(rec, env);
            Some(w)
        }
        WriteEnd::Drop => {
            rec.lock().unwrap().end_started_at = Some(now());
            drop(w);
            finish_write(rec, env);
            None
        }
    }
}

/// Writes the whole payload in the generated chunking, then shuts down or drops.
/// Returns the half when it has to stay alive (after an explicit shutdown).
pub async fn run_writer<W>(
    mut w: W,
    t: &Transfer,
    p: Payload,
    rec: Arc<Mutex<WriteRec>>,
    env: &Env,
) -> Option<W>
where
    W: AsyncWrite + Unpin,
{
    let mut pos = WriterPos::default();
    if !write_part(&mut w, t, p, &rec, env, &mut pos, p.wire_len()).await {
        return None;
    }
    end_writer(w, t, &rec, env).await
}

/// position of a reading half inside its script
#[derive(Clone, Copy, Debug, Default)]
pub struct ReaderPos {
    pub off: u64,
    reads: usize,
    pauses: u64,
}

impl ReaderPos {
    pub fn at(off: u64) -> Self {
        ReaderPos { off, ..Default::default() }
    }
}

/// Reads with the generated buffer sizes until the wire offset `until` (exactly, never
/// beyond), or - `None` - until the end of the stream. `false`: the half ended (EOF, error,
/// wrong byte, generated early drop); the caller passes it to `end_reader`.
pub async fn read_part<R>(
    r: &mut R,
    t: &Transfer,
    p: Payload,
    rec: &Arc<Mutex<ReadRec>>,
    env: &Env,
    pos: &mut ReaderPos,
    until: Option<u64>,
) -> bool
where
    R: AsyncRead + Unpin,
{
    let now = env.now_us;
    {
        let mut g = rec.lock().unwrap();
        if g.started_at.is_none() {
            g.started_at = Some(now());
        }
    }
    let hdr = p.hdr.is_some() as u64;
    let mut buf = vec![0u8; t.read_bufs.iter().copied().max().unwrap_or(1).max(1) as usize];
    loop {
        if let Some(k) = t.read_drop_at {
            if pos.off >= k as u64 + hdr {
                rec.lock().unwrap().dropped_early = true;
                return false;
            }
        }
        if let Some(u) = until {
            if pos.off >= u {
                return true;
            }
        }
        let i = pos.reads;
        if t.read_pause_every > 0
            && i > 0
            && i % t.read_pause_every as usize == 0
            && pos.pauses < MAX_PAUSES
        {
            pos.pauses += 1;
            pause(t.read_pause_us).await;
        }
        let mut cap = t.read_bufs[i % t.read_bufs.len()].max(1) as usize;
        if let Some(u) = until {
            cap = cap.min((u - pos.off) as usize);
        }
        let start = now();
        rec.lock().unwrap().pending_since = Some(start);
        let res = r.read(&mut buf[..cap]).await;
        let end = now();
        let mut g = rec.lock().unwrap();
        g.pending_since = None;
        g.reads += 1;
        if end - start >= SLOW_OP_US {
            g.slow_ops.push((start, end));
        }
        match res {
            Ok(0) => {
                g.first_ok_at.get_or_insert(end);
                g.eof_at = Some(end);
                return false;
            }
            Ok(n) => {
                g.first_ok_at.get_or_insert(end);
                for (j, b) in buf[..n].iter().enumerate() {
                    let want = p.byte(pos.off + j as u64);
                    if *b != want {
                        g.mismatch = Some((pos.off + j as u64, *b, want));
                        break;
                    }
                }
                pos.off += n as u64;
                g.bytes = pos.off;
                if g.mismatch.is_some() {
                    return false;
                }
            }
            Err(e) => {
                g.err = Some(ErrInfo::new(&e, end));
                return false;
            }
        }
        pos.reads += 1;
    }
}

/// drops the reading half and closes its record
pub fn end_reader<R>(r: R, rec: &Arc<Mutex<ReadRec>>, env: &Env) {
    drop(r);
    let mut g = rec.lock().unwrap();
    g.finished_at = Some((env.now_us)());
    g.pending_since = None;
    drop(g);
    env.notify.notify_one();
}

/// Reads with the generated buffer sizes until EOF, an error, a wrong byte or the generated
/// early drop. `off` is the wire offset the half starts at (1 after the header was consumed).
pub async fn run_reader<R>(mut r: R, t: &Transfer, p: Payload, off: u64, rec: Arc<Mutex<ReadRec>>, env: &Env)
where
    R: AsyncRead + Unpin,
{
    let mut pos = ReaderPos::at(off);
    let reached = read_part(&mut r, t, p, &rec, env, &mut pos, None).await;
    debug_assert!(!reached);
    end_reader(r, &rec, env);
}

// ---------------------------------------------------------------------------------------
// dialogue on an open stream (see `case::Dialog`)

/// wire offset at which the first part of the request ends
pub fn dialog_first_end(sc: &StreamCase, d: &Dialog) -> u64 {
    1 + d.first.min(sc.req.len) as u64
}

/// client: first part of the request (not finished) - the whole response - rest of the
/// request, finish - end of the response
#[allow(clippy::too_many_arguments)]
pub async fn client_dialog<R, W>(
    r: R,
    w: W,
    sc: &StreamCase,
    d: &Dialog,
    req: Payload,
    resp: Payload,
    cw: Arc<Mutex<WriteRec>>,
    cr: Arc<Mutex<ReadRec>>,
    env: &Env,
) where
    R: AsyncRead + Unpin,
    W: AsyncWrite + Unpin,
{
    let first_end = dialog_first_end(sc, d);
    let mut wpos = WriterPos::default();
    let mut rpos = ReaderPos::at(0);
    let mut w = Some(w);
    let mut r = Some(r);
    if !write_part(w.as_mut().unwrap(), &sc.req, req, &cw, env, &mut wpos, first_end).await {
        w = None;
    }
    if !read_part(r.as_mut().unwrap(), &sc.resp, resp, &cr, env, &mut rpos, Some(resp.wire_len())).await {
        end_reader(r.take().unwrap(), &cr, env);
    }
    let mut kept = None;
    if let Some(mut w) = w {
        if write_part(&mut w, &sc.req, req, &cw, env, &mut wpos, req.wire_len()).await {
            kept = end_writer(w, &sc.req, &cw, env).await;
        }
    }
    if let Some(mut r) = r {
        let reached = read_part(&mut r, &sc.resp, resp, &cr, env, &mut rpos, None).await;
        debug_assert!(!reached);
        end_reader(r, &cr, env);
    }
    drop(kept);
}

/// server (the header byte is consumed): exactly the first part of the request - the whole
/// response, end of the writing half - the rest of the request
#[allow(clippy::too_many_arguments)]
pub async fn server_dialog<R, W>(
    mut r: R,
    w: W,
    sc: &StreamCase,
    d: &Dialog,
    req: Payload,
    resp: Payload,
    sr: Arc<Mutex<ReadRec>>,
    sw: Arc<Mutex<WriteRec>>,
    env: &Env,
) where
    R: AsyncRead + Unpin,
    W: AsyncWrite + Unpin,
{
    let first_end = dialog_first_end(sc, d);
    let mut rpos = ReaderPos::at(1);
    let reached = read_part(&mut r, &sc.req, req, &sr, env, &mut rpos, Some(first_end)).await;
    let mut r = Some(r);
    let respond = if reached {
        true
    } else {
        // like the sequential server: a request that ended early and cleanly is answered
        end_reader(r.take().unwrap(), &sr, env);
        sr.lock().unwrap().eof_at.is_some()
    };
    let kept = if respond {
        run_writer(w, &sc.resp, resp, sw, env).await
    } else {
        drop(w);
        None
    };
    if let Some(mut r) = r {
        let reached = read_part(&mut r, &sc.req, req, &sr, env, &mut rpos, None).await;
        debug_assert!(!reached);
        end_reader(r, &sr, env);
    }
    drop(kept);
}
