//! Application drivers: one writing half and one reading half of a stream, executed from the
//! generated `Transfer`. Generic over the tokio I/O traits so that the bach (UDP) and the
//! loopback (TCP) runner share them. Everything observed goes into shared records step by
//! step, because a half may never finish (cap) or be dropped in the middle (peer loss).

use crate::case::{Transfer, WriteEnd, MAX_PAUSES};
use std::sync::{Arc, Mutex};
use tokio::io::{AsyncRead, AsyncReadExt, AsyncWrite, AsyncWriteExt};

/// operations that take longer than this are remembered individually
const SLOW_OP_US: u64 = 500_000;

#[derive(Clone, Debug)]
pub struct ErrInfo {
    pub kind: String,
    pub msg: String,
    pub at_us: u64,
}

impl ErrInfo {
    pub fn new(e: &std::io::Error, at_us: u64) -> Self {
        ErrInfo { kind: format!("{:?}", e.kind()), msg: e.to_string(), at_us }
    }
}

#[derive(Clone, Debug, Default)]
pub struct WriteRec {
    pub started_at: Option<u64>,
    /// wire bytes for which `write` returned
    pub accepted: u64,
    /// `accepted` + size of the write that is (or was last) in flight
    pub attempt_end: u64,
    pub writes: u64,
    pub all_written_at: Option<u64>,
    /// time at which shutdown() / drop of the half began
    pub end_started_at: Option<u64>,
    pub shutdown_ok: Option<bool>,
    pub err: Option<ErrInfo>,
    /// `write` of a non-empty buffer returned Ok(0)
    pub zero_write: bool,
    pub finished_at: Option<u64>,
    pub pending_since: Option<u64>,
    pub slow_ops: Vec<(u64, u64)>,
}

#[derive(Clone, Debug, Default)]
pub struct ReadRec {
    pub started_at: Option<u64>,
    /// wire bytes read
    pub bytes: u64,
    pub reads: u64,
    pub eof_at: Option<u64>,
    pub err: Option<ErrInfo>,
    /// (wire offset, got, want) of the first wrong byte
    pub mismatch: Option<(u64, u8, u8)>,
    /// completion time of the first read that returned Ok (data or EOF)
    pub first_ok_at: Option<u64>,
    pub dropped_early: bool,
    pub finished_at: Option<u64>,
    pub pending_since: Option<u64>,
    pub slow_ops: Vec<(u64, u64)>,
}

/// wire bytes of one direction: an optional header byte followed by the keyed PRF stream
#[derive(Clone, Copy, Debug)]
pub struct Payload {
    pub key: u64,
    pub hdr: Option<u8>,
    /// payload length (without header)
    pub len: u32,
}

impl Payload {
    pub fn wire_len(&self) -> u64 {
        self.len as u64 + self.hdr.is_some() as u64
    }

    #[inline]
    pub fn byte(&self, off: u64) -> u8 {
        match self.hdr {
            Some(h) if off == 0 => h,
            Some(_) => vcore::gen::prf_byte(self.key, off - 1),
            None => vcore::gen::prf_byte(self.key, off),
        }
    }

    pub fn fill(&self, off: u64, out: &mut [u8]) {
        for (i, b) in out.iter_mut().enumerate() {
            *b = self.byte(off + i as u64);
        }
    }
}

pub struct Env {
    pub now_us: fn() -> u64,
    pub notify: Arc<tokio::sync::Notify>,
}

async fn pause(us: u32) {
    if us > 0 {
        s2n_quic_dc::testing::sleep(std::time::Duration::from_micros(us as u64)).await;
    }
}

/// Writes the whole payload in the generated chunking, then shuts down or drops.
/// Returns the half when it has to stay alive (after an explicit shutdown).
pub async fn run_writer<W>(
    mut w: W,
    t: &Transfer,
    p: Payload,
    rec: Arc<Mutex<WriteRec>>,
    env: &Env,
) -> Option<W>
where
    W: AsyncWrite + Unpin,
{
    let now = env.now_us;
    rec.lock().unwrap().started_at = Some(now());
    let total = p.wire_len();
    let mut off = 0u64;
    let mut i = 0usize;
    let mut pauses = 0u64;
    let mut buf: Vec<u8> = vec![];
    let finish = |rec: &Arc<Mutex<WriteRec>>| {
        let mut r = rec.lock().unwrap();
        r.finished_at = Some(now());
        r.pending_since = None;
        drop(r);
        env.notify.notify_one();
    };
    while off < total {
        if t.write_pause_every > 0
            && i > 0
            && i % t.write_pause_every as usize == 0
            && pauses < MAX_PAUSES
        {
            pauses += 1;
            pause(t.write_pause_us).await;
        }
        let chunk = t.chunks[i % t.chunks.len()].max(1) as u64;
        let n = chunk.min(total - off) as usize;
        buf.resize(n, 0);
        p.fill(off, &mut buf);
        let start = now();
        {
            let mut r = rec.lock().unwrap();
            r.attempt_end = off + n as u64;
            r.pending_since = Some(start);
        }
        let res = w.write(&buf).await;
        let end = now();
        let mut r = rec.lock().unwrap();
        r.pending_since = None;
        r.writes += 1;
        if end - start >= SLOW_OP_US {
            r.slow_ops.push((start, end));
        }
        match res {
            Ok(0) => {
                r.zero_write = true;
                drop(r);
                finish(&rec);
                return None;
            }
            Ok(k) => {
                off += k as u64;
                r.accepted = off;
            }
            Err(e) => {
                r.err = Some(ErrInfo::new(&e, end));
                drop(r);
                finish(&rec);
                return None;
            }
        }
        i += 1;
    }
    rec.lock().unwrap().all_written_at = Some(now());
    pause(t.end_pause_us).await;
    match t.end {
        WriteEnd::Shutdown => {
            let start = now();
            {
                let mut r = rec.lock().unwrap();
                r.end_started_at = Some(start);
                r.pending_since = Some(start);
            }
            let res = w.shutdown().await;
            let end = now();
            let mut r = rec.lock().unwrap();
            r.pending_since = None;
            if end - start >= SLOW_OP_US {
                r.slow_ops.push((start, end));
            }
            match res {
                Ok(()) => r.shutdown_ok = Some(true),
                Err(e) => {
                    r.shutdown_ok = Some(false);
                    r.err = Some(ErrInfo::new(&e, end));
                }
            }
            drop(r);
            finish(&rec);
            Some(w)
        }
        WriteEnd::Drop => {
            rec.lock().unwrap().end_started_at = Some(now());
            drop(w);
            finish(&rec);
            None
        }
    }
}

/// Reads with the generated buffer sizes until EOF, an error, a wrong byte or the generated
/// early drop. `off` is the wire offset the half starts at (1 after the header was consumed).
pub async fn run_reader<R>(
    mut r: R,
    t: &Transfer,
    p: Payload,
    mut off: u64,
    rec: Arc<Mutex<ReadRec>>,
    env: &Env,
) where
    R: AsyncRead + Unpin,
{
    let now = env.now_us;
    {
        let mut g = rec.lock().unwrap();
        if g.started_at.is_none() {
            g.started_at = Some(now());
        }
    }
    let hdr = p.hdr.is_some() as u64;
    let mut buf = vec![0u8; t.read_bufs.iter().copied().max().unwrap_or(1).max(1) as usize];
    let mut i = 0usize;
    let mut pauses = 0u64;
    loop {
        if let Some(k) = t.read_drop_at {
            if off >= k as u64 + hdr {
                rec.lock().unwrap().dropped_early = true;
                break;
            }
        }
        if t.read_pause_every > 0
            && i > 0
            && i % t.read_pause_every as usize == 0
            && pauses < MAX_PAUSES
        {
            pauses += 1;
            pause(t.read_pause_us).await;
        }
        let cap = t.read_bufs[i % t.read_bufs.len()].max(1) as usize;
        let start = now();
        rec.lock().unwrap().pending_since = Some(start);
        let res = r.read(&mut buf[..cap]).await;
        let end = now();
        let mut g = rec.lock().unwrap();
        g.pending_since = None;
        g.reads += 1;
        if end - start >= SLOW_OP_US {
            g.slow_ops.push((start, end));
        }
        match res {
            Ok(0) => {
                g.first_ok_at.get_or_insert(end);
                g.eof_at = Some(end);
                break;
            }
            Ok(n) => {
                g.first_ok_at.get_or_insert(end);
                for (j, b) in buf[..n].iter().enumerate() {
                    let want = p.byte(off + j as u64);
                    if *b != want {
                        g.mismatch = Some((off + j as u64, *b, want));
                        break;
                    }
                }
                off += n as u64;
                g.bytes = off;
                if g.mismatch.is_some() {
                    break;
                }
            }
            Err(e) => {
                g.err = Some(ErrInfo::new(&e, end));
                break;
            }
        }
        i += 1;
    }
    drop(r);
    let mut g = rec.lock().unwrap();
    g.finished_at = Some(now());
    g.pending_since = None;
    drop(g);
    env.notify.notify_one();
}
