//! Runs one UDP case inside a fresh, seeded `bach` simulation (virtual clock, single thread):
//! `stream::testing::{Client, Server}` over the faulty network of `net.rs`.

use crate::{
    case::{Case, LossKind, IDLE_US},
    net::{self, FaultAllocator, NetStats, SharedNet},
    script::{client_dialog, run_reader, run_writer, server_dialog, Env, ErrInfo, Payload, ReadRec, WriteRec},
};
use bach::ext::*;
use s2n_quic_dc::stream::testing::{Client, Server};
use std::{
    sync::{Arc, Mutex},
    time::Duration,
};
use tokio::io::AsyncReadExt;

pub const HDR_MAGIC: u8 = 0xA0;

pub fn hdr_byte(client: usize, stream: usize) -> u8 {
    HDR_MAGIC | ((client as u8) << 2) | stream as u8
}

#[derive(Clone, Debug, Default)]
pub struct StreamRec {
    pub connect_err: Option<ErrInfo>,
    pub connected_at: Option<u64>,
    pub accepted_at: Option<u64>,
    pub client_w: Arc<Mutex<WriteRec>>,
    pub client_r: Arc<Mutex<ReadRec>>,
    pub server_r: Arc<Mutex<ReadRec>>,
    pub server_w: Arc<Mutex<WriteRec>>,
    pub client_done_at: Option<u64>,
    pub server_done_at: Option<u64>,
    /// the server task of this stream was dropped by the peer-loss event at this time
    pub server_aborted_at: Option<u64>,
    /// the same header arrived on a second accepted stream
    pub accepted_twice: bool,
}

#[derive(Debug, Default)]
pub struct World {
    pub streams: Vec<Vec<StreamRec>>,
    /// accepted streams whose first byte never arrived / was not a known header
    pub anonymous: Vec<String>,
    pub accepted: u64,
    pub server_tasks_finished: u64,
    pub server_aborted: bool,
    pub loss_applied_at: Option<u64>,
}

pub struct Outcome {
    pub world: World,
    pub net: NetStats,
    pub log: Option<Vec<net::LogEntry>>,
    /// per client: (time, client -> server?) of every datagram
    pub flows: Vec<Vec<(u64, bool)>>,
    pub end_us: u64,
    /// the virtual-time cap ended the main phase
    pub capped: bool,
    /// bach reported a stalled runtime while draining the background workers
    pub stall: Option<String>,
    /// background workers were still alive after the drain cap
    pub drain_capped: bool,
    pub drain_end_us: u64,
}

fn now_us() -> u64 {
    bach::time::Instant::now().elapsed_since_start().as_micros() as u64
}

type Shared = Arc<Mutex<World>>;

struct DrainCap;

/// how long the stream workers may live on after the last script ended: TIME_WAIT-like
/// lingering is 0.5 s, a worker that lost its peer gives up after the idle timeout, and the
/// worker of the peer one idle timeout after that
pub const DRAIN_CAP_US: u64 = 4 * IDLE_US;

async fn client_stream(case: Arc<Case>, ci: usize, si: usize, client: Client, world: Shared, env: Arc<Env>) {
    let sc = &case.clients[ci].streams[si];
    if sc.start_us > 0 {
        bach::time::sleep(Duration::from_micros(sc.start_us as u64)).await;
    }
    let (cw, cr) = {
        let w = world.lock().unwrap();
        let s = &w.streams[ci][si];
        (s.client_w.clone(), s.client_r.clone())
    };
    let done = |world: &Shared| {
        world.lock().unwrap().streams[ci][si].client_done_at = Some(now_us());
        env.notify.notify_one();
    };
    let stream = match client.connect_sim("server:443").await {
        Ok(s) => s,
        Err(e) => {
            world.lock().unwrap().streams[ci][si].connect_err = Some(ErrInfo::new(&e, now_us()));
            done(&world);
            return;
        }
    };
    world.lock().unwrap().streams[ci][si].connected_at = Some(now_us());
    let req = Payload { key: case.key(ci, si, false), hdr: Some(hdr_byte(ci, si)), len: sc.req.len };
    let resp = Payload { key: case.key(ci, si, true), hdr: None, len: sc.resp.len };
    let (r, w) = stream.into_split();
    if let Some(d) = &sc.dialog {
        client_dialog(r, w, sc, d, req, resp, cw, cr, &env).await;
    } else if sc.client_concurrent {
        let (_w, ()) = tokio::join!(
            run_writer(w, &sc.req, req, cw, &env),
            run_reader(r, &sc.resp, resp, 0, cr, &env)
        );
    } else {
        let _w = run_writer(w, &sc.req, req, cw, &env).await;
        run_reader(r, &sc.resp, resp, 0, cr, &env).await;
    }
    done(&world);
}

async fn server_stream(
    case: Arc<Case>,
    stream: s2n_quic_dc::stream::testing::Stream,
    world: Shared,
    env: Arc<Env>,
) {
    let accepted_at = now_us();
    let (mut r, w) = stream.into_split();
    // the first wire byte of a request names the script of this stream
    let mut hdr = [0u8; 1];
    let first = r.read(&mut hdr).await;
    let id = match first {
        Ok(1) if hdr[0] & 0xF0 == HDR_MAGIC => {
            let ci = ((hdr[0] >> 2) & 3) as usize;
            let si = (hdr[0] & 3) as usize;
            if ci < case.clients.len() && si < case.clients[ci].streams.len() {
                Ok((ci, si))
            } else {
                Err(format!("unknown header {:#04x}", hdr[0]))
            }
        }
        Ok(1) => Err(format!("bad header {:#04x}", hdr[0])),
        Ok(n) => Err(format!("eof before the header ({n} bytes)")),
        Err(e) => Err(format!("error before the header: {:?} {e}", e.kind())),
    };
    let (ci, si) = match id {
        Ok(id) => id,
        Err(msg) => {
            let mut w = world.lock().unwrap();
            w.anonymous.push(format!("t={}us accepted at {}us: {msg}", now_us(), accepted_at));
            w.server_tasks_finished += 1;
            drop(w);
            env.notify.notify_one();
            return;
        }
    };
    let (sr, sw) = {
        let mut wl = world.lock().unwrap();
        let s = &mut wl.streams[ci][si];
        if s.accepted_at.is_some() {
            s.accepted_twice = true;
        }
        s.accepted_at = Some(accepted_at);
        {
            let mut g = s.server_r.lock().unwrap();
            g.started_at = Some(accepted_at);
            g.bytes = 1;
            g.reads = 1;
            g.first_ok_at = Some(now_us());
        }
        (s.server_r.clone(), s.server_w.clone())
    };
    let sc = &case.clients[ci].streams[si];
    let req = Payload { key: case.key(ci, si, false), hdr: Some(hdr[0]), len: sc.req.len };
    let resp = Payload { key: case.key(ci, si, true), hdr: None, len: sc.resp.len };
    if let Some(d) = &sc.dialog {
        server_dialog(r, w, sc, d, req, resp, sr, sw, &env).await;
    } else if sc.server_concurrent {
        let (_w, ()) = tokio::join!(
            run_writer(w, &sc.resp, resp, sw, &env),
            run_reader(r, &sc.req, req, 1, sr, &env)
        );
    } else {
        run_reader(r, &sc.req, req, 1, sr.clone(), &env).await;
        // the response is only written after the complete request was seen
        let complete = sr.lock().unwrap().eof_at.is_some();
        if complete {
            let _w = run_writer(w, &sc.resp, resp, sw, &env).await;
        } else {
            drop(w);
        }
    }
    let mut wl = world.lock().unwrap();
    wl.streams[ci][si].server_done_at = Some(now_us());
    wl.server_tasks_finished += 1;
    drop(wl);
    env.notify.notify_one();
}

/// every client script and every server script that identified its stream has ended
fn real_done(w: &World) -> bool {
    w.streams.iter().flatten().all(|s| {
        s.client_done_at.is_some()
            && (s.accepted_at.is_none() || s.server_done_at.is_some() || s.server_aborted_at.is_some())
    })
}

fn all_done(w: &World) -> bool {
    let clients = w.streams.iter().flatten().all(|s| s.client_done_at.is_some());
    clients && w.accepted == w.server_tasks_finished
}

/// virtual-time cap of the main phase
pub fn cap_us(case: &Case) -> u64 {
    let pauses = case.pause_budget_us();
    match case.loss {
        Some(l) => l.at_us as u64 + 3 * IDLE_US + 20_000_000 + 2 * pauses,
        // faults end within FAULT_WINDOW_US (else the case is not judged for completion), the
        // longest probe period after that is about twice the window, a transfer takes seconds
        None if case.finite_faults() => 60_000_000 + 2 * pauses,
        None => 45_000_000 + 2 * pauses,
    }
}

fn run_inner(case: &Case, log: bool) -> (Outcome, bool) {
    let netstate: SharedNet = net::new_state(&case.net, log);
    let alloc = FaultAllocator { state: netstate.clone(), server_group: "server".into() };
    let mut rt = bach::environment::default::Runtime::new()
        .with_seed(case.seed)
        .with_net_queues(Some(Box::new(alloc)));

    let case = Arc::new(case.clone());
    let world: Shared = Arc::new(Mutex::new(World {
        streams: case
            .clients
            .iter()
            .map(|c| c.streams.iter().map(|_| StreamRec::default()).collect())
            .collect(),
        ..Default::default()
    }));
    let env = Arc::new(Env { now_us, notify: Arc::new(tokio::sync::Notify::new()) });
    let cap = cap_us(&case);

    let main = {
        let case = case.clone();
        let world = world.clone();
        let env = env.clone();
        let netstate = netstate.clone();
        async move {
            let server_handles: Arc<Mutex<Vec<(bach::task::JoinHandle<()>, Option<(usize, usize)>)>>> =
                Default::default();
            let server_slot: Arc<Mutex<Option<Server>>> = Default::default();

            // server
            {
                let case = case.clone();
                let world = world.clone();
                let env = env.clone();
                let handles = server_handles.clone();
                let slot = server_slot.clone();
                async move {
                    let server = Server::udp().port(443).mtu(case.server_mtu).build();
                    *slot.lock().unwrap() = Some(server.clone());
                    while let Ok((stream, _addr)) = server.accept().await {
                        let mut w = world.lock().unwrap();
                        if w.server_aborted {
                            // a vanished application: the stream is dropped at once
                            drop(w);
                            drop(stream);
                            continue;
                        }
                        w.accepted += 1;
                        drop(w);
                        let h = server_stream(case.clone(), stream, world.clone(), env.clone()).spawn();
                        handles.lock().unwrap().push((h, None));
                    }
                }
                .group("server")
                .spawn();
            }

            // clients
            for (ci, cc) in case.clients.iter().enumerate() {
                let case = case.clone();
                let world = world.clone();
                let env = env.clone();
                let start = cc.start_us as u64 + 10;
                let mtu = cc.mtu;
                async move {
                    bach::time::sleep(Duration::from_micros(start)).await;
                    let client = Client::builder().mtu(mtu).build();
                    for si in 0..case.clients[ci].streams.len() {
                        client_stream(case.clone(), ci, si, client.clone(), world.clone(), env.clone()).spawn();
                    }
                }
                .group(format!("client{ci}"))
                .spawn();
            }

            // peer loss
            if let Some(loss) = case.loss {
                let world = world.clone();
                let env = env.clone();
                let handles = server_handles.clone();
                let slot = server_slot.clone();
                let netstate = netstate.clone();
                async move {
                    bach::time::sleep(Duration::from_micros(loss.at_us as u64)).await;
                    let t = now_us();
                    match loss.kind {
                        LossKind::Blackhole => netstate.lock().unwrap().kill = [true, true],
                        LossKind::BlackholeUp => netstate.lock().unwrap().kill = [true, false],
                        LossKind::BlackholeDown => netstate.lock().unwrap().kill = [false, true],
                        LossKind::AbortServer => {
                            let mut w = world.lock().unwrap();
                            w.server_aborted = true;
                            for s in w.streams.iter_mut().flatten() {
                                if s.accepted_at.is_some() && s.server_done_at.is_none() {
                                    s.server_aborted_at = Some(t);
                                }
                            }
                            // tasks that did not identify their stream yet are dropped as well
                            w.server_tasks_finished = w.accepted;
                            drop(w);
                            for (h, _) in handles.lock().unwrap().iter() {
                                h.abort();
                            }
                        }
                        LossKind::ForgetSecret => {
                            if let Some(server) = slot.lock().unwrap().as_ref() {
                                server.map().drop_state();
                            }
                        }
                    }
                    world.lock().unwrap().loss_applied_at = Some(t);
                    env.notify.notify_one();
                }
                .spawn();
            }

            // supervisor: wait until every script has ended (and stays ended), or the cap
            let mut deadline = Duration::from_micros(cap);
            let mut only_phantoms_since: Option<Duration> = None;
            loop {
                let elapsed = bach::time::Instant::now().elapsed_since_start();
                if elapsed >= deadline {
                    return true;
                }
                // when nothing but accepted streams without a first byte is left, one idle
                // timeout (plus slack) is all they may take
                if only_phantoms_since.is_none() && real_done(&world.lock().unwrap()) {
                    only_phantoms_since = Some(elapsed);
                    deadline = deadline.min(elapsed + Duration::from_micros(IDLE_US + 5_000_000));
                }
                if all_done(&world.lock().unwrap()) {
                    // datagrams of a stream the client already left may still produce an accept
                    bach::time::sleep(Duration::from_millis(60)).await;
                    if all_done(&world.lock().unwrap()) {
                        return false;
                    }
                    continue;
                }
                let _ = bach::time::timeout(deadline - elapsed, env.notify.notified()).await;
            }
        }
    };

    // A panic that unwinds through bach's frames leaves its thread-local scopes set (they are
    // not restored on unwind) and the runtime half torn down: such a runtime is never touched
    // again (forgotten), and the thread that ran it is never reused (see `run`).
    let capped = match std::panic::catch_unwind(std::panic::AssertUnwindSafe(|| rt.block_on(main))) {
        Ok(c) => c,
        Err(payload) => {
            std::mem::forget(rt);
            std::panic::resume_unwind(payload);
        }
    };
    let end_us = rt.elapsed().as_micros() as u64;

    // drain: the stream workers (primary tasks of the simulation) must end by themselves
    let mut stall = None;
    let mut drain_capped = false;
    let mut poisoned = false;
    let mut drain_end_us = end_us;
    if !capped {
        let r = std::panic::catch_unwind(std::panic::AssertUnwindSafe(|| {
            rt.run(|| {
                async move {
                    bach::time::sleep(Duration::from_micros(DRAIN_CAP_US)).await;
                    std::panic::panic_any(DrainCap);
                }
                .spawn();
            });
        }));
        match r {
            Ok(()) => drain_end_us = rt.elapsed().as_micros() as u64,
            Err(payload) => {
                if payload.downcast_ref::<DrainCap>().is_some() {
                    drain_capped = true;
                    poisoned = true;
                    drain_end_us = end_us + DRAIN_CAP_US;
                } else {
                    let msg = payload
                        .downcast_ref::<String>()
                        .cloned()
                        .or_else(|| payload.downcast_ref::<&str>().map(|s| s.to_string()))
                        .unwrap_or_default();
                    // raised by the executor between task polls: the scopes are intact
                    if msg.contains("Runtime stalled") || msg.contains("Task contract violation") {
                        stall = Some(msg);
                        poisoned = true;
                    } else {
                        std::mem::forget(rt);
                        std::panic::resume_unwind(payload);
                    }
                }
            }
        }
    }
    if poisoned {
        std::mem::forget(rt);
    } else {
        drop(rt);
    }

    let world = std::mem::take(&mut *world.lock().unwrap());
    let mut ns = netstate.lock().unwrap();
    let out = Outcome {
        world,
        net: ns.stats.clone(),
        log: ns.log.take(),
        flows: std::mem::take(&mut ns.flows),
        end_us,
        capped,
        stall,
        drain_capped,
        drain_end_us,
    };
    (out, poisoned)
}

// ---------------------------------------------------------------------------------------
// isolation: one fresh OS thread per simulation

/// a panic inside the simulation thread (code under test or harness)
#[derive(Clone, Debug)]
pub struct PanicReport {
    pub file: String,
    pub line: u32,
    pub msg: String,
}

impl PanicReport {
    /// same test as the engine's `panic_in_repo`
    pub fn in_repo(&self) -> bool {
        self.file.starts_with("/repo/") || self.file.contains("/s2n-quic") || self.file.contains("/s2n-codec")
    }

    /// the engine's key format for a panic of the code under test
    pub fn key(&self) -> String {
        let rel = match self.file.find("/repo/") {
            Some(i) => &self.file[i + "/repo/".len()..],
            None => &self.file,
        };
        let short: String = self.msg.chars().take(80).collect();
        format!("panic:{}:{}", rel, short.split('\n').next().unwrap_or(""))
    }
}

const SIM_THREAD: &str = "dcsim-simulation";

static PANICS: Mutex<Vec<(std::thread::ThreadId, PanicReport)>> = Mutex::new(Vec::new());

fn install_hook() {
    static ONCE: std::sync::Once = std::sync::Once::new();
    ONCE.call_once(|| {
        let prev = std::panic::take_hook();
        std::panic::set_hook(Box::new(move |info| {
            let t = std::thread::current();
            if t.name() == Some(SIM_THREAD) {
                let (file, line) =
                    info.location().map(|l| (l.file().to_string(), l.line())).unwrap_or_default();
                let msg = if let Some(s) = info.payload().downcast_ref::<&str>() {
                    s.to_string()
                } else if let Some(s) = info.payload().downcast_ref::<String>() {
                    s.clone()
                } else {
                    "<non-string panic payload>".to_string()
                };
                if let Ok(mut p) = PANICS.lock() {
                    // the first panic of a thread is the cause
                    if !p.iter().any(|(id, _)| *id == t.id()) {
                        p.push((t.id(), PanicReport { file, line, msg }));
                    }
                }
                if std::env::var_os("DCSIM_BACKTRACE").is_some() {
                    eprintln!("PANIC: {info}\n{}", std::backtrace::Backtrace::force_capture());
                }
            } else {
                prev(info);
            }
        }));
    });
}

type Job = (Case, bool, std::sync::mpsc::Sender<Result<Outcome, PanicReport>>);

/// The simulation thread of this process. bach keeps its state in thread-locals, and a panic
/// that unwinds through it leaves them set; so the thread is used for one simulation after the
/// other only as long as nothing panicked in it. After a panic it is parked for ever (its
/// thread-local destructors would tear down half-dead simulation state) and replaced.
static WORKER: Mutex<Option<std::sync::mpsc::Sender<Job>>> = Mutex::new(None);

fn spawn_worker() -> std::sync::mpsc::Sender<Job> {
    let (jobs, rx) = std::sync::mpsc::channel::<Job>();
    std::thread::Builder::new()
        .name(SIM_THREAD.into())
        .stack_size(16 << 20)
        .spawn(move || {
            while let Ok((case, log, tx)) = rx.recv() {
                let r = std::panic::catch_unwind(std::panic::AssertUnwindSafe(|| run_inner(&case, log)));
                let id = std::thread::current().id();
                let report = PANICS
                    .lock()
                    .ok()
                    .and_then(|mut p| p.iter().position(|(t, _)| *t == id).map(|i| p.swap_remove(i).1));
                let poisoned = match r {
                    Ok((out, poisoned)) => {
                        let _ = tx.send(Ok(out));
                        poisoned
                    }
                    Err(_) => {
                        let _ = tx.send(Err(report.unwrap_or(PanicReport {
                            file: String::new(),
                            line: 0,
                            msg: "unknown panic".into(),
                        })));
                        true
                    }
                };
                if poisoned {
                    drop(rx);
                    loop {
                        std::thread::park();
                    }
                }
            }
        })
        .expect("spawn simulation thread");
    jobs
}

/// Runs the case in a fresh simulation runtime on the simulation thread.
/// `Err` = something panicked inside.
pub fn run(case: &Case, log: bool) -> Result<Outcome, PanicReport> {
    install_hook();
    let mut worker = WORKER.lock().unwrap();
    for _ in 0..2 {
        let jobs = worker.get_or_insert_with(spawn_worker);
        let (tx, rx) = std::sync::mpsc::channel();
        if jobs.send((case.clone(), log, tx)).is_ok() {
            if let Ok(r) = rx.recv() {
                return r;
            }
        }
        // the previous simulation poisoned the thread: start a new one
        *worker = None;
    }
    panic!("the simulation thread ended without a result")
}
