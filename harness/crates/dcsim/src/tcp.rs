//! Runs one TCP case: `stream::testing::{Client, Server}` over real loopback sockets under a
//! fresh current-thread tokio runtime (s2n-quic-dc has no TCP inside the bach simulation:
//! `stream/testing.rs` asserts "bach only supports UDP currently"). Kernel TCP: no fault
//! injection, wall-clock scheduling. Times in the records are microseconds of a process-wide
//! monotonic clock and are only compared with each other.

use crate::{
    case::Case,
    net::NetStats,
    script::{client_dialog, run_reader, run_writer, server_dialog, Env, ErrInfo, Payload},
    sim::{hdr_byte, Outcome, StreamRec, World, HDR_MAGIC},
};
use s2n_quic_dc::stream::testing::{Client, Server};
use std::{
    sync::{Arc, Mutex, OnceLock},
    time::{Duration, Instant},
};
use tokio::io::AsyncReadExt;

/// Backstop against a genuinely hung case (a case needs milliseconds): a hung TCP stream has
/// no virtual clock that could expose it.
pub const WALL_CAP: Duration = Duration::from_secs(300);

static START: OnceLock<Instant> = OnceLock::new();

fn now_us() -> u64 {
    START.get_or_init(Instant::now).elapsed().as_micros() as u64
}

type Shared = Arc<Mutex<World>>;

async fn client_stream(
    case: Arc<Case>,
    ci: usize,
    si: usize,
    client: Client,
    server: s2n_quic_dc::stream::testing::server::Handle,
    world: Shared,
    env: Arc<Env>,
) {
    let sc = &case.clients[ci].streams[si];
    if sc.start_us > 0 {
        tokio::time::sleep(Duration::from_micros(sc.start_us as u64)).await;
    }
    let (cw, cr) = {
        let w = world.lock().unwrap();
        let s = &w.streams[ci][si];
        (s.client_w.clone(), s.client_r.clone())
    };
    let stream = match client.connect_to(&server).await {
        Ok(s) => s,
        Err(e) => {
            let mut w = world.lock().unwrap();
            w.streams[ci][si].connect_err = Some(ErrInfo::new(&e, now_us()));
            w.streams[ci][si].client_done_at = Some(now_us());
            return;
        }
    };
    world.lock().unwrap().streams[ci][si].connected_at = Some(now_us());
    let req = Payload { key: case.key(ci, si, false), hdr: Some(hdr_byte(ci, si)), len: sc.req.len };
    let resp = Payload { key: case.key(ci, si, true), hdr: None, len: sc.resp.len };
    let (r, w) = stream.into_split();
    if let Some(d) = &sc.dialog {
        client_dialog(r, w, sc, d, req, resp, cw, cr, &env).await;
    } else if sc.client_concurrent {
        let (_w, ()) = tokio::join!(
            run_writer(w, &sc.req, req, cw, &env),
            run_reader(r, &sc.resp, resp, 0, cr, &env)
        );
    } else {
        let _w = run_writer(w, &sc.req, req, cw, &env).await;
        run_reader(r, &sc.resp, resp, 0, cr, &env).await;
    }
    world.lock().unwrap().streams[ci][si].client_done_at = Some(now_us());
}

async fn server_stream(
    case: Arc<Case>,
    stream: s2n_quic_dc::stream::testing::Stream,
    world: Shared,
    env: Arc<Env>,
) {
    let accepted_at = now_us();
    let (mut r, w) = stream.into_split();
    let mut hdr = [0u8; 1];
    let first = r.read(&mut hdr).await;
    let id = match first {
        Ok(1) if hdr[0] & 0xF0 == HDR_MAGIC => {
            let ci = ((hdr[0] >> 2) & 3) as usize;
            let si = (hdr[0] & 3) as usize;
            if ci < case.clients.len() && si < case.clients[ci].streams.len() {
                Ok((ci, si))
            } else {
                Err(format!("unknown header {:#04x}", hdr[0]))
            }
        }
        Ok(1) => Err(format!("bad header {:#04x}", hdr[0])),
        Ok(n) => Err(format!("eof before the header ({n} bytes)")),
        Err(e) => Err(format!("error before the header: {:?} {e}", e.kind())),
    };
    let (ci, si) = match id {
        Ok(id) => id,
        Err(msg) => {
            let mut w = world.lock().unwrap();
            w.anonymous.push(format!("accepted at {accepted_at}us: {msg}"));
            w.server_tasks_finished += 1;
            return;
        }
    };
    let (sr, sw) = {
        let mut wl = world.lock().unwrap();
        let s = &mut wl.streams[ci][si];
        if s.accepted_at.is_some() {
            s.accepted_twice = true;
        }
        s.accepted_at = Some(accepted_at);
        {
            let mut g = s.server_r.lock().unwrap();
            g.started_at = Some(accepted_at);
            g.bytes = 1;
            g.reads = 1;
            g.first_ok_at = Some(now_us());
        }
        (s.server_r.clone(), s.server_w.clone())
    };
    let sc = &case.clients[ci].streams[si];
    let req = Payload { key: case.key(ci, si, false), hdr: Some(hdr[0]), len: sc.req.len };
    let resp = Payload { key: case.key(ci, si, true), hdr: None, len: sc.resp.len };
    if let Some(d) = &sc.dialog {
        server_dialog(r, w, sc, d, req, resp, sr, sw, &env).await;
    } else if sc.server_concurrent {
        let (_w, ()) = tokio::join!(
            run_writer(w, &sc.resp, resp, sw, &env),
            run_reader(r, &sc.req, req, 1, sr, &env)
        );
    } else {
        run_reader(r, &sc.req, req, 1, sr.clone(), &env).await;
        let complete = sr.lock().unwrap().eof_at.is_some();
        if complete {
            let _w = run_writer(w, &sc.resp, resp, sw, &env).await;
        } else {
            drop(w);
        }
    }
    let mut wl = world.lock().unwrap();
    wl.streams[ci][si].server_done_at = Some(now_us());
    wl.server_tasks_finished += 1;
}

pub fn run(case: &Case) -> Outcome {
    let case = Arc::new(case.clone());
    let world: Shared = Arc::new(Mutex::new(World {
        streams: case
            .clients
            .iter()
            .map(|c| c.streams.iter().map(|_| StreamRec::default()).collect())
            .collect(),
        ..Default::default()
    }));
    let env = Arc::new(Env { now_us, notify: Arc::new(tokio::sync::Notify::new()) });
    let rt = tokio::runtime::Builder::new_current_thread().enable_all().build().expect("tokio runtime");
    let start = now_us();

    let (capped, keep) = rt.block_on({
        let case = case.clone();
        let world = world.clone();
        let env = env.clone();
        async move {
            let server = Server::tcp().mtu(case.server_mtu).build();
            let handle = server.handle();
            let accept = {
                let case = case.clone();
                let world = world.clone();
                let env = env.clone();
                let server = server.clone();
                tokio::spawn(async move {
                    let mut tasks = vec![];
                    while let Ok((stream, _addr)) = server.accept().await {
                        world.lock().unwrap().accepted += 1;
                        tasks.push(tokio::spawn(server_stream(case.clone(), stream, world.clone(), env.clone())));
                    }
                })
            };
            let mut clients = vec![];
            let mut tasks = vec![];
            for (ci, cc) in case.clients.iter().enumerate() {
                let client = Client::builder().mtu(cc.mtu).build();
                for si in 0..cc.streams.len() {
                    let start = cc.start_us;
                    let fut = client_stream(case.clone(), ci, si, client.clone(), handle.clone(), world.clone(), env.clone());
                    tasks.push(tokio::spawn(async move {
                        if start > 0 {
                            tokio::time::sleep(Duration::from_micros(start as u64)).await;
                        }
                        fut.await
                    }));
                }
                clients.push(client);
            }
            let all = async {
                for t in tasks {
                    let _ = t.await;
                }
                // every accepted stream has a server task that must end as well
                loop {
                    {
                        let w = world.lock().unwrap();
                        if w.accepted == w.server_tasks_finished {
                            break;
                        }
                    }
                    tokio::time::sleep(Duration::from_millis(1)).await;
                }
            };
            let capped = tokio::time::timeout(WALL_CAP, all).await.is_err();
            accept.abort();
            (capped, (server, clients))
        }
    });
    let end_us = now_us() - start;
    // the endpoints own runtimes of their own: drop them outside of the async context
    drop(keep);
    drop(rt);

    let world = std::mem::take(&mut *world.lock().unwrap());
    Outcome {
        world,
        net: NetStats::default(),
        log: None,
        flows: vec![],
        end_us,
        capped,
        stall: None,
        drain_capped: false,
        drain_end_us: end_us,
    }
}
