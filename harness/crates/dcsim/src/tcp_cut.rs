//! TCP transport, truncated: `stream::testing::{Client, Server}` over real loopback sockets
//! with a small in-process forwarder between them. The forwarder parses the cleartext record
//! headers of ONE direction of the stream (the "cut direction"), forwards a generated number
//! of complete records of it plus a generated part of the next one, and then ends the TCP
//! connection (closes both sockets, or only sends FIN towards the reader). The other
//! direction is forwarded blindly.
//!
//! What the reader of the cut direction has to do (C20: "exactly the bytes, complete at end
//! of stream ... or fail promptly with an error"):
//!   * every byte it gets is the byte the writer wrote at that offset (`c20:data`), and it
//!     never gets a byte of a record that was not forwarded completely (records are sealed
//!     as a whole) (`c20:tcp:bytes-beyond-forwarded`)
//!   * `read` returns 0 (clean end) only if the record with the last byte and the final
//!     offset was forwarded completely, and then after exactly all bytes (`c20:eof`)
//!   * once the forwarder has ended the connection, the reader ends - with the rest of the
//!     forwarded bytes and a clean end or an error - within `READER_BOUND` of wall-clock time:
//!     the only thing it legitimately waits for is the kernel delivering the end of the TCP
//!     stream on loopback (microseconds). A reader that is still pending after that time
//!     does not report the truncation: `c20:tcp:truncation-not-reported`. (The watchdog only
//!     turns a hang into a verdict; no timing decides between two terminating behaviours.)
//!   * nothing cut ("clean"): both directions complete without any error (`c20:error`,
//!     `c20:incomplete`)
//! Every other script of the case (the writer, the other direction) has to end within
//! `OTHER_BOUND` (idle timeout + slack) after the cut, or `c20:hang`.
//!
//! The case runs on a thread of its own (current-thread tokio runtime): a reader that spins
//! inside `poll_read` would otherwise take the supervisor down with it. Such a thread is
//! abandoned after the verdict.

use crate::{
    case::{Transfer, WriteEnd},
    script::{end_writer, run_reader, write_part, Env, ErrInfo, Payload, ReadRec, WriteRec, WriterPos},
};
use s2n_quic_dc::stream::testing::{Client, Server};
use serde::{Deserialize, Serialize};
use std::{
    sync::{Arc, Mutex, OnceLock},
    time::{Duration, Instant},
};
use tokio::{
    io::{AsyncReadExt, AsyncWriteExt},
    net::{TcpListener, TcpStream},
};

/// a reader must have ended this long after the forwarder ended the connection
pub const READER_BOUND: Duration = Duration::from_secs(10);
/// every other script: idle timeout of the stream (30 s) + slack
pub const OTHER_BOUND: Duration = Duration::from_secs(40);
/// how long the server may take to hand out a stream whose client has already ended (only
/// decides whether there is a server script to judge at all)
pub const ACCEPT_GRACE: Duration = Duration::from_millis(300);
/// nothing was cut and still not finished (a case needs milliseconds)
pub const TOTAL_CAP: Duration = Duration::from_secs(120);

#[derive(Clone, Copy, Debug, Hash, PartialEq, Eq, Serialize, Deserialize)]
pub enum FinMode {
    /// the last write carries the end of the stream (`write_all_from_fin`): every record of it
    /// announces the final offset
    InWrite,
    /// plain writes, then `shutdown()`
    Shutdown,
}

/// how much of the record at which the connection is cut still goes through
#[derive(Clone, Copy, Debug, Hash, PartialEq, Eq, Serialize, Deserialize)]
pub enum Part {
    /// nothing: the cut is on the record boundary
    Nothing,
    /// the first n bytes (clamped to 1..=len-1)
    Bytes(u16),
    /// exactly the cleartext header
    Header,
    /// n/1000 of the record (clamped to 1..=len-1)
    Permille(u16),
    /// all but the last byte
    AllButOne,
}

#[derive(Clone, Copy, Debug, Hash, PartialEq, Eq, Serialize, Deserialize)]
pub enum Cut {
    /// forward everything; the connection ends when the endpoints end it
    Clean,
    /// the record that is cut: the `record`-th (0-based) record of the last write
    /// (`of_last_write`; records that start at or after the offset where the last write
    /// starts, including the record that only carries the end of the stream) or of the whole
    /// direction. A position beyond the last record behaves like `Clean`.
    At { of_last_write: bool, record: u16, part: Part },
}

#[derive(Clone, Copy, Debug, Hash, PartialEq, Eq, Serialize, Deserialize)]
pub enum CloseMode {
    /// both sockets of the forwarder are closed (peer process gone)
    Both,
    /// FIN towards the reader only; the writer's bytes are still taken (and discarded), the
    /// other direction is still forwarded
    FinToReader,
}

#[derive(Clone, Debug, Hash, PartialEq, Eq, Serialize, Deserialize)]
pub struct CutCase {
    pub seed: u64,
    pub client_mtu: u16,
    pub server_mtu: u16,
    /// false: the request (client writes, server reads) is cut; true: the response - the
    /// client first writes and finishes a request of `other_len` bytes, the server reads it
    /// to its end and then writes the response
    pub resp: bool,
    pub other_len: u32,
    /// bytes written with plain writes (sizes `lead_chunks`, cyclic) before the last write
    pub lead: u32,
    pub lead_chunks: Vec<u32>,
    /// size of the last write
    pub last: u32,
    pub fin: FinMode,
    /// read buffer sizes of the reader, cyclic
    pub read_bufs: Vec<u32>,
    pub cut: Cut,
    pub close: CloseMode,
}

impl CutCase {
    pub fn total(&self) -> u64 {
        self.lead as u64 + self.last as u64
    }
}

#[derive(Clone, Copy, Debug)]
pub struct Record {
    pub stream: bool,
    pub offset: u64,
    pub payload_len: u64,
    pub final_offset: Option<u64>,
    pub total_len: usize,
    pub header_len: usize,
}

#[derive(Clone, Debug, Default)]
pub struct ProxyRec {
    /// every record of the cut direction that arrived completely at the forwarder
    pub records: Vec<Record>,
    /// the first `forwarded` of them went through completely
    pub forwarded: usize,
    /// (bytes of it forwarded, index) of the record at which the connection was cut
    pub partial: Option<(usize, usize)>,
    pub cut_at_us: Option<u64>,
    /// bytes that arrived after the cut and were discarded
    pub discarded: u64,
    pub error: Option<String>,
}

impl ProxyRec {
    /// payload bytes of the completely forwarded records (TCP: in order, no gaps)
    pub fn forwarded_payload(&self) -> u64 {
        self.records[..self.forwarded]
            .iter()
            .filter(|r| r.stream)
            .map(|r| r.offset + r.payload_len)
            .max()
            .unwrap_or(0)
    }

    /// a completely forwarded record announced the final offset
    pub fn forwarded_final(&self) -> Option<u64> {
        self.records[..self.forwarded].iter().filter_map(|r| r.final_offset).next()
    }
}

#[derive(Clone, Debug, Default)]
pub struct CutOutcome {
    /// writer and reader of the cut direction
    pub w: WriteRec,
    pub r: ReadRec,
    /// writer and reader of the other direction
    pub ow: WriteRec,
    pub or: ReadRec,
    pub proxy: ProxyRec,
    pub connect_err: Option<ErrInfo>,
    pub accepted: bool,
    /// Some(description): the supervisor gave up waiting
    pub hang: Option<(&'static str, String)>,
}

static START: OnceLock<Instant> = OnceLock::new();

fn now_us() -> u64 {
    START.get_or_init(Instant::now).elapsed().as_micros() as u64
}

fn parse_record(buf: &[u8]) -> Option<Record> {
    use s2n_quic_core::packet::interceptor::DecoderBufferMut;
    use s2n_quic_dc::packet::Packet;
    if buf.is_empty() {
        return None;
    }
    let mut copy = buf.to_vec();
    let (p, rest) = DecoderBufferMut::new(&mut copy).decode_parameterized::<Packet>(16).ok()?;
    let total_len = buf.len() - rest.len();
    Some(match p {
        Packet::Stream(p) => Record {
            stream: true,
            offset: p.stream_offset().as_u64(),
            payload_len: p.payload().len() as u64,
            final_offset: p.final_offset().map(|v| v.as_u64()),
            total_len,
            header_len: p.header().len(),
        },
        // control / secret-control records carry no stream bytes
        _ => Record { stream: false, offset: 0, payload_len: 0, final_offset: None, total_len, header_len: total_len },
    })
}

struct Shared {
    w: Arc<Mutex<WriteRec>>,
    r: Arc<Mutex<ReadRec>>,
    ow: Arc<Mutex<WriteRec>>,
    or: Arc<Mutex<ReadRec>>,
    proxy: Arc<Mutex<ProxyRec>>,
    misc: Mutex<(Option<ErrInfo>, bool)>,
    /// scripts that ended: client, server
    done: Mutex<[bool; 2]>,
}

fn reader_transfer(case: &CutCase, len: u32) -> Transfer {
    Transfer {
        len,
        chunks: vec![u32::MAX],
        write_pause_every: 0,
        write_pause_us: 0,
        end_pause_us: 0,
        end: WriteEnd::Shutdown,
        read_bufs: case.read_bufs.clone(),
        read_pause_every: 0,
        read_pause_us: 0,
        read_drop_at: None,
    }
}

fn payload(case: &CutCase, cut_dir: bool) -> Payload {
    Payload {
        key: vcore::hash_of(&(case.seed, cut_dir)),
        hdr: None,
        len: if cut_dir { case.total() as u32 } else { case.other_len },
    }
}

/// the writer of the cut direction: lead writes, then the last write, finishing as generated
/// Returns the half when it has to stay alive (the stream was finished explicitly).
async fn cut_writer<Sub>(
    mut w: s2n_quic_dc::stream::send::application::Writer<Sub>,
    case: &CutCase,
    rec: &Arc<Mutex<WriteRec>>,
    env: &Env,
) -> Option<s2n_quic_dc::stream::send::application::Writer<Sub>>
where
    Sub: s2n_quic_dc::event::Subscriber,
{
    let p = payload(case, true);
    let mut t = reader_transfer(case, p.len);
    t.chunks = case.lead_chunks.clone();
    let mut pos = WriterPos::default();
    if !write_part(&mut w, &t, p, rec, env, &mut pos, case.lead as u64).await {
        return None;
    }
    match case.fin {
        FinMode::Shutdown => {
            t.chunks = vec![u32::MAX];
            if !write_part(&mut w, &t, p, rec, env, &mut pos, p.wire_len()).await {
                return None;
            }
            end_writer(w, &t, rec, env).await
        }
        FinMode::InWrite => {
            let mut buf = vec![0u8; case.last as usize];
            p.fill(pos.off, &mut buf);
            let start = now_us();
            {
                let mut g = rec.lock().unwrap();
                g.started_at.get_or_insert(start);
                g.attempt_end = p.wire_len();
                g.end_started_at = Some(start);
                g.pending_since = Some(start);
            }
            let mut slice: &[u8] = &buf;
            let res = w.write_all_from_fin(&mut slice).await;
            let end = now_us();
            let mut g = rec.lock().unwrap();
            g.pending_since = None;
            g.writes += 1;
            match res {
                // (the returned length is not used: the bytes taken from the buffer count)
                Ok(_) => {
                    g.accepted = pos.off + (buf.len() - slice.len()) as u64;
                    g.all_written_at = Some(end);
                    g.shutdown_ok = Some(true);
                }
                Err(e) => {
                    g.accepted = pos.off + (buf.len() - slice.len()) as u64;
                    g.shutdown_ok = Some(false);
                    g.err = Some(ErrInfo::new(&e, end));
                }
            }
            let ok = g.err.is_none();
            g.finished_at = Some(end);
            drop(g);
            env.notify.notify_one();
            // the half stays open like after an explicit shutdown
            ok.then_some(w)
        }
    }
}

async fn client_script(case: Arc<CutCase>, client: Client, handle: s2n_quic_dc::stream::testing::server::Handle, proxy_addr: std::net::SocketAddr, sh: Arc<Shared>, env: Arc<Env>) {
    let res = async {
        let tcp = TcpStream::connect(proxy_addr).await?;
        tcp.set_nodelay(true)?;
        client.connect_tcp_with(&handle, tcp).await
    }
    .await;
    let stream = match res {
        Ok(s) => s,
        Err(e) => {
            sh.misc.lock().unwrap().0 = Some(ErrInfo::new(&e, now_us()));
            sh.done.lock().unwrap()[0] = true;
            return;
        }
    };
    let (r, w) = stream.into_split();
    if case.resp {
        // request (other direction), finished; then the response
        let p = payload(&case, false);
        let t = reader_transfer(&case, p.len);
        let _w = crate::script::run_writer(w, &t, p, sh.ow.clone(), &env).await;
        let p = payload(&case, true);
        run_reader(r, &reader_transfer(&case, p.len), p, 0, sh.r.clone(), &env).await;
    } else {
        // the request, then whatever the server answers
        let kept = cut_writer(w, &case, &sh.w, &env).await;
        let p = payload(&case, false);
        run_reader(r, &reader_transfer(&case, p.len), p, 0, sh.or.clone(), &env).await;
        drop(kept);
    }
    sh.done.lock().unwrap()[0] = true;
}

async fn server_script(case: Arc<CutCase>, stream: s2n_quic_dc::stream::testing::Stream, sh: Arc<Shared>, env: Arc<Env>) {
    let (r, w) = stream.into_split();
    if case.resp {
        let p = payload(&case, false);
        run_reader(r, &reader_transfer(&case, p.len), p, 0, sh.or.clone(), &env).await;
        let complete = sh.or.lock().unwrap().eof_at.is_some();
        if complete {
            let _kept = cut_writer(w, &case, &sh.w, &env).await;
        } else {
            drop(w);
        }
    } else {
        let p = payload(&case, true);
        run_reader(r, &reader_transfer(&case, p.len), p, 0, sh.r.clone(), &env).await;
        let complete = sh.r.lock().unwrap().eof_at.is_some();
        if complete {
            let p = payload(&case, false);
            let _w = crate::script::run_writer(w, &reader_transfer(&case, p.len), p, sh.ow.clone(), &env).await;
        } else {
            drop(w);
        }
    }
    sh.done.lock().unwrap()[1] = true;
}

/// blind copy until the end of the input, then FIN on the output
async fn pump(mut rd: tokio::net::tcp::OwnedReadHalf, mut wr: tokio::net::tcp::OwnedWriteHalf) {
    let mut buf = vec![0u8; 64 << 10];
    loop {
        match rd.read(&mut buf).await {
            Ok(0) | Err(_) => break,
            Ok(n) => {
                if wr.write_all(&buf[..n]).await.is_err() {
                    break;
                }
            }
        }
    }
    let _ = wr.shutdown().await;
    // keep the halves (the sockets) until the other pump is done as well
    std::future::pending::<()>().await;
}

async fn forwarder(
    case: Arc<CutCase>,
    listener: TcpListener,
    server_addr: std::net::SocketAddr,
    rec: Arc<Mutex<ProxyRec>>,
    // local port of the connection to the server (names the stream the server accepts for it)
    server_port: Arc<Mutex<Option<u16>>>,
) {
    let fail = |rec: &Arc<Mutex<ProxyRec>>, what: &str, e: std::io::Error| {
        rec.lock().unwrap().error = Some(format!("{what}: {e}"));
    };
    let (c_sock, _) = match listener.accept().await {
        Ok(s) => s,
        Err(e) => return fail(&rec, "accept", e),
    };
    let s_sock = match TcpStream::connect(server_addr).await {
        Ok(s) => s,
        Err(e) => return fail(&rec, "connect to the server", e),
    };
    *server_port.lock().unwrap() = s_sock.local_addr().ok().map(|a| a.port());
    let _ = c_sock.set_nodelay(true);
    let _ = s_sock.set_nodelay(true);
    let (c_rd, c_wr) = c_sock.into_split();
    let (s_rd, s_wr) = s_sock.into_split();
    let (mut cut_rd, mut cut_wr, oth_rd, oth_wr) = if case.resp { (s_rd, c_wr, c_rd, s_wr) } else { (c_rd, s_wr, s_rd, c_wr) };
    let other = tokio::spawn(pump(oth_rd, oth_wr));

    let last_write_start = case.lead as u64;
    let mut acc: Vec<u8> = vec![];
    let mut buf = vec![0u8; 64 << 10];
    let mut idx_all = 0u16;
    let mut idx_last = 0u16;
    let mut input_ended = false;
    'outer: loop {
        // records that are complete in `acc`
        while let Some(r) = parse_record(&acc) {
            let in_last_write = r.stream && r.offset >= last_write_start && (r.offset + r.payload_len > last_write_start || r.final_offset.is_some());
            let hit = match case.cut {
                Cut::Clean => None,
                Cut::At { of_last_write: true, record, part } if in_last_write && record == idx_last => Some(part),
                Cut::At { of_last_write: false, record, part } if record == idx_all => Some(part),
                _ => None,
            };
            idx_all = idx_all.saturating_add(1);
            if in_last_write {
                idx_last = idx_last.saturating_add(1);
            }
            let index = {
                let mut g = rec.lock().unwrap();
                g.records.push(r);
                g.records.len() - 1
            };
            if let Some(part) = hit {
                let len = r.total_len;
                let clamp = |n: usize| n.clamp(1, len - 1);
                let n = match part {
                    Part::Nothing => 0,
                    Part::Bytes(n) => clamp(n as usize),
                    Part::Header => clamp(r.header_len),
                    Part::Permille(p) => clamp(len * p.min(1000) as usize / 1000),
                    Part::AllButOne => len - 1,
                };
                if n > 0 {
                    let _ = cut_wr.write_all(&acc[..n]).await;
                    let _ = cut_wr.flush().await;
                }
                {
                    let mut g = rec.lock().unwrap();
                    g.partial = Some((n, index));
                }
                break 'outer;
            }
            if let Err(e) = cut_wr.write_all(&acc[..r.total_len]).await {
                // the reader's side is gone already: nothing left to cut
                rec.lock().unwrap().error = Some(format!("forwarding record {index}: {e}"));
                input_ended = true;
                break 'outer;
            }
            acc.drain(..r.total_len);
            rec.lock().unwrap().forwarded = index + 1;
        }
        assert!(acc.len() < (1 << 20), "the forwarder cannot find a record boundary in {} buffered bytes", acc.len());
        match cut_rd.read(&mut buf).await {
            Ok(0) | Err(_) => {
                input_ended = true;
                break;
            }
            Ok(n) => acc.extend_from_slice(&buf[..n]),
        }
    }
    if input_ended {
        // clean end of this direction (the cut position was never reached): pass the rest and
        // the FIN on, keep the sockets until the other direction is done
        if !acc.is_empty() {
            let _ = cut_wr.write_all(&acc).await;
        }
        let _ = cut_wr.shutdown().await;
        let _ = other.await;
        return;
    }
    // the cut
    match case.close {
        CloseMode::Both => {
            other.abort();
            let _ = other.await;
            let _ = cut_wr.shutdown().await;
            drop(cut_wr);
            drop(cut_rd);
            rec.lock().unwrap().cut_at_us = Some(now_us());
        }
        CloseMode::FinToReader => {
            let _ = cut_wr.shutdown().await;
            rec.lock().unwrap().cut_at_us = Some(now_us());
            loop {
                match cut_rd.read(&mut buf).await {
                    Ok(0) | Err(_) => break,
                    Ok(n) => rec.lock().unwrap().discarded += n as u64,
                }
            }
            let _ = other.await;
        }
    }
}

/// The endpoints of this process, per MTU pair. Building a `Server` + `Client` costs some
/// hundred milliseconds (own worker threads), a case a few: they are shared by all cases. The
/// server's TCP acceptor is a task of the runtime it is built in, so that runtime lives for
/// ever on threads of its own; the application halves of a case are polled by the case's runtime.
fn endpoints(client_mtu: u16, server_mtu: u16) -> (Server, Client) {
    static HOST: OnceLock<tokio::runtime::Runtime> = OnceLock::new();
    static BUILT: Mutex<Vec<((u16, u16), Server, Client)>> = Mutex::new(Vec::new());
    let mut built = BUILT.lock().unwrap();
    if let Some((_, s, c)) = built.iter().find(|(k, _, _)| *k == (client_mtu, server_mtu)) {
        return (s.clone(), c.clone());
    }
    let host = HOST.get_or_init(|| {
        tokio::runtime::Builder::new_multi_thread()
            .worker_threads(1)
            .thread_name("dcsim-tcp-cut-host")
            .enable_all()
            .build()
            .expect("tokio runtime")
    });
    let (s, c) = host.block_on(async { (Server::tcp().mtu(server_mtu).build(), Client::builder().mtu(client_mtu).build()) });
    built.push(((client_mtu, server_mtu), s.clone(), c.clone()));
    (s, c)
}

fn snapshot(sh: &Shared, hang: Option<(&'static str, String)>) -> CutOutcome {
    let misc = sh.misc.lock().unwrap().clone();
    CutOutcome {
        w: sh.w.lock().unwrap().clone(),
        r: sh.r.lock().unwrap().clone(),
        ow: sh.ow.lock().unwrap().clone(),
        or: sh.or.lock().unwrap().clone(),
        proxy: sh.proxy.lock().unwrap().clone(),
        connect_err: misc.0,
        accepted: misc.1,
        hang,
    }
}

pub fn run(case: &CutCase) -> CutOutcome {
    let case = Arc::new(case.clone());
    let sh = Arc::new(Shared {
        w: Default::default(),
        r: Default::default(),
        ow: Default::default(),
        or: Default::default(),
        proxy: Default::default(),
        misc: Mutex::new((None, false)),
        done: Mutex::new([false, false]),
    });
    let (tx, rx) = std::sync::mpsc::channel::<()>();
    let t0 = Instant::now();
    {
        let case = case.clone();
        let sh = sh.clone();
        std::thread::Builder::new()
            .name("dcsim-tcp-cut".into())
            .spawn(move || {
                let env = Arc::new(Env { now_us, notify: Arc::new(tokio::sync::Notify::new()) });
                let (server, client) = endpoints(case.client_mtu, case.server_mtu);
                let rt = tokio::runtime::Builder::new_current_thread().enable_all().build().expect("tokio runtime");
                rt.block_on(async {
                    let listener = TcpListener::bind("127.0.0.1:0").await.expect("bind the forwarder");
                    let proxy_addr = listener.local_addr().expect("forwarder address");
                    let server_port: Arc<Mutex<Option<u16>>> = Default::default();
                    let fwd = tokio::spawn(forwarder(case.clone(), listener, server.local_addr(), sh.proxy.clone(), server_port.clone()));
                    let accept = {
                        let (case, sh, env, server) = (case.clone(), sh.clone(), env.clone(), server.clone());
                        tokio::spawn(async move {
                            loop {
                                match server.accept().await {
                                    // the endpoints are shared by the cases of this process: a
                                    // connection an earlier case left behind is not ours
                                    Ok((_, addr)) if Some(addr.port()) != *server_port.lock().unwrap() => continue,
                                    Ok((stream, _)) => {
                                        sh.misc.lock().unwrap().1 = true;
                                        server_script(case, stream, sh, env).await;
                                    }
                                    Err(_) => sh.done.lock().unwrap()[1] = true,
                                }
                                break;
                            }
                        })
                    };
                    let c = tokio::spawn(client_script(case.clone(), client.clone(), server.handle(), proxy_addr, sh.clone(), env.clone()));
                    let _ = c.await;
                    // the server script has to end as well; a connection that was cut before the
                    // server saw a complete record leaves no server script behind (grace: the
                    // acceptor may still be busy with the bytes that went through)
                    let client_done = Instant::now();
                    loop {
                        let accepted = sh.misc.lock().unwrap().1;
                        if sh.done.lock().unwrap()[1] || (!accepted && client_done.elapsed() >= ACCEPT_GRACE) {
                            break;
                        }
                        tokio::time::sleep(Duration::from_micros(200)).await;
                    }
                    accept.abort();
                    fwd.abort();
                    let _ = accept.await;
                    let _ = fwd.await;
                });
                drop(rt);
                let _ = tx.send(());
            })
            .expect("spawn the tcp-cut thread");
    }
    // supervisor: converts a hang into a verdict
    loop {
        match rx.recv_timeout(Duration::from_millis(20)) {
            Ok(()) => return snapshot(&sh, None),
            Err(std::sync::mpsc::RecvTimeoutError::Disconnected) => {
                panic!("the tcp-cut thread panicked (see its message above)")
            }
            Err(std::sync::mpsc::RecvTimeoutError::Timeout) => {}
        }
        let cut_at = sh.proxy.lock().unwrap().cut_at_us;
        let now = now_us();
        if let Some(cut) = cut_at {
            let since = Duration::from_micros(now.saturating_sub(cut));
            let r = sh.r.lock().unwrap().clone();
            if since >= READER_BOUND && r.started_at.is_some() && r.finished_at.is_none() {
                let msg = format!(
                    "the reader is still pending {:?} after the forwarder ended the TCP connection (read started {:?}us, cut at {cut}us, now {now}us; reader has {} bytes)",
                    since, r.pending_since, r.bytes
                );
                return snapshot(&sh, Some(("c20:tcp:truncation-not-reported", msg)));
            }
            if since >= OTHER_BOUND {
                let msg = format!(
                    "scripts still pending {:?} after the forwarder ended the TCP connection: client done {}, server done {}",
                    since,
                    sh.done.lock().unwrap()[0],
                    sh.done.lock().unwrap()[1]
                );
                return snapshot(&sh, Some(("c20:hang", msg)));
            }
        } else if t0.elapsed() >= TOTAL_CAP {
            let msg = format!(
                "nothing was cut and the case is still running after {:?}: client done {}, server done {}",
                t0.elapsed(),
                sh.done.lock().unwrap()[0],
                sh.done.lock().unwrap()[1]
            );
            return snapshot(&sh, Some(("c20:hang", msg)));
        }
    }
}

// ---------------------------------------------------------------------------------------
// verdict

use vcore::{ensure_that, fail, CaseResult, EnumCheck, Obs, PropCheck, SubCheck, Tier};

/// index of the first record of the last write among the records the forwarder saw
fn first_record_of_last_write(case: &CutCase, px: &ProxyRec) -> Option<usize> {
    let start = case.lead as u64;
    px.records
        .iter()
        .position(|r| r.stream && r.offset >= start && (r.offset + r.payload_len > start || r.final_offset.is_some()))
}

pub fn judge(case: &CutCase, out: &CutOutcome, obs: &mut Obs) -> CaseResult {
    let px = &out.proxy;
    if let Some(e) = &px.error {
        assert!(e.starts_with("forwarding record"), "the forwarder could not be set up: {e}");
    }
    let total = case.total();
    let (r, w) = (&out.r, &out.w);
    let dir = if case.resp { "response" } else { "request" };
    let cut = px.partial;
    let fwd = px.forwarded_payload();
    let complete = px.forwarded_final() == Some(total) && fwd == total;

    // ---- classes
    obs.class(if case.resp { "dir:response" } else { "dir:request" });
    obs.class(match case.fin {
        FinMode::InWrite => "fin:in_last_write",
        FinMode::Shutdown => "fin:shutdown",
    });
    obs.class(match (cut.is_some(), case.close) {
        (false, _) => "cut:none(clean)",
        (true, CloseMode::Both) => "close:both_sockets",
        (true, CloseMode::FinToReader) => "close:fin_to_reader",
    });
    obs.class_if(matches!(case.cut, Cut::At { .. }) && cut.is_none(), "cut:position_beyond_last_record");
    obs.class_if(case.last > 16_384, "last_write:multi_record");
    if let Some((n, index)) = cut {
        let first_last = first_record_of_last_write(case, px);
        let in_last = first_last.map_or(false, |f| index >= f);
        obs.class(if in_last { "cut:in_last_write" } else { "cut:before_last_write" });
        let rec = &px.records[index];
        obs.class(if n == 0 {
            "part:record_boundary"
        } else if n < rec.header_len {
            "part:inside_header"
        } else if n == rec.header_len {
            "part:header_only"
        } else if n + 1 == rec.total_len {
            "part:all_but_one_byte"
        } else {
            "part:inside_payload"
        });
        // the reader knows the final size (a forwarded record announced it) but not all bytes
        obs.class_if(px.forwarded_final().is_some() && !complete, "cut:size_known_data_missing");
        obs.class_if(complete, "cut:after_everything");
    }
    obs.class_if(r.started_at.is_none(), "reader:never_started");
    obs.class_if(r.err.is_some(), "reader:error");
    obs.class_if(r.eof_at.is_some(), "reader:clean_end");
    obs.class_if(w.err.is_some(), "writer:error");
    obs.units = px.records.len() as u64;
    obs.sample = Some(serde_json::json!({
        "dir": dir, "fin": format!("{:?}", case.fin), "lead": case.lead, "last": case.last,
        "cut": format!("{:?}", case.cut), "close": format!("{:?}", case.close),
        "records": px.records.len(), "forwarded": px.forwarded, "partial": px.partial,
        "forwarded_payload": fwd, "reader_bytes": r.bytes,
        "reader_err": r.err.as_ref().map(|e| format!("{} {}", e.kind, e.msg)),
        "reader_eof": r.eof_at.is_some(),
    }));
    // a reader was in the middle of the stream when the connection ended
    obs.nontrivial(cut.is_some() && r.started_at.is_some());

    // ---- integrity
    if let Some((off, got, want)) = r.mismatch {
        fail!("c20:data", "{dir}: byte at offset {off} is {got:#04x}, the writer wrote {want:#04x} (reader had {} bytes)", r.bytes);
    }
    ensure_that!(
        r.bytes <= total && r.bytes <= w.attempt_end.max(w.accepted),
        "c20:overrun",
        "{dir}: reader got {} bytes, writer wrote at most {} of {total}",
        r.bytes,
        w.attempt_end
    );
    if cut.is_some() {
        ensure_that!(
            r.bytes <= fwd,
            "c20:tcp:bytes-beyond-forwarded",
            "{dir}: the reader got {} bytes, but only records with the first {fwd} bytes went through completely (cut {:?})",
            r.bytes,
            px.partial
        );
    }
    ensure_that!(!w.zero_write, "c20:zero-write", "{dir}: write of a non-empty buffer returned Ok(0)");
    if let Some(eof_at) = r.eof_at {
        let Some(ended) = w.end_started_at else {
            fail!("c20:eof", "{dir}: read returned 0 at {eof_at}us after {} bytes but the writer (accepted {} of {total}) has not finished the stream", r.bytes, w.accepted);
        };
        ensure_that!(eof_at >= ended, "c20:eof", "{dir}: read returned 0 at {eof_at}us, before the writer finished the stream at {ended}us");
        ensure_that!(
            cut.is_none() || complete,
            "c20:eof",
            "{dir}: read returned 0 (clean end) after {} of {total} bytes although the connection was cut: {} records went through completely ({fwd} payload bytes, final offset announced: {:?}), then {:?} (bytes, record index)",
            r.bytes, px.forwarded, px.forwarded_final(), px.partial
        );
        ensure_that!(r.bytes == total, "c20:eof", "{dir}: read returned 0 after {} bytes, the writer wrote {total}", r.bytes);
    }

    // ---- promptness
    if let Some((key, msg)) = &out.hang {
        fail!(*key, "{dir} ({:?}, lead {} + last write {}, {:?}, {:?}): {msg}; forwarder: {} records seen, {} forwarded completely ({fwd} payload bytes, final offset announced: {:?}), partial {:?}",
            case.fin, case.lead, case.last, case.cut, case.close, px.records.len(), px.forwarded, px.forwarded_final(), px.partial);
    }
    if r.started_at.is_some() {
        ensure_that!(r.finished_at.is_some(), "c20:hang", "{dir}: the case ended but the reader did not (harness)");
    }

    // ---- nothing was cut: everything completes
    if cut.is_none() && px.error.is_none() {
        if let Some(e) = &out.connect_err {
            fail!("c20:error", "connect through the forwarder failed: {} {}", e.kind, e.msg);
        }
        let other = if case.resp { "request" } else { "response" };
        for (name, w, r, len) in [(dir, w, r, total), (other, &out.ow, &out.or, case.other_len as u64)] {
            if let Some(e) = &w.err {
                fail!("c20:error", "{name}: write failed after {} of {len} bytes on an intact connection: {} {}", w.accepted, e.kind, e.msg);
            }
            if let Some(e) = &r.err {
                fail!("c20:error", "{name}: read failed after {} of {len} bytes on an intact connection: {} {}", r.bytes, e.kind, e.msg);
            }
            ensure_that!(
                w.shutdown_ok == Some(true) && w.accepted == len,
                "c20:incomplete",
                "{name}: the writer ended after {} of {len} bytes, finished {:?}",
                w.accepted,
                w.shutdown_ok
            );
            ensure_that!(r.eof_at.is_some() && r.bytes == len, "c20:incomplete", "{name}: the reader ended after {} of {len} bytes, eof {:?}", r.bytes, r.eof_at);
        }
    }
    Ok(())
}

// ---------------------------------------------------------------------------------------
// generators

use proptest::prelude::*;

const RECORD: u32 = 16_384;

fn part() -> BoxedStrategy<Part> {
    prop_oneof![
        2 => Just(Part::Nothing),
        1 => Just(Part::Bytes(1)),
        1 => (2u16..=90).prop_map(Part::Bytes),
        1 => Just(Part::Header),
        2 => (1u16..=999).prop_map(Part::Permille),
        1 => Just(Part::AllButOne),
    ]
    .boxed()
}

fn io_sizes() -> BoxedStrategy<Vec<u32>> {
    let one = prop_oneof![
        3 => Just(u32::MAX),
        2 => proptest::sample::select(vec![1u32, 100, 1000, 4096, 16_384, 65_536]),
        2 => 1u32..=70_000,
    ];
    prop::collection::vec(one, 1..=3).boxed()
}

pub fn strategy() -> BoxedStrategy<CutCase> {
    // (the MTU does not shape TCP records; few pairs, because endpoints are built per pair)
    let mtus = proptest::sample::select(vec![(1500u16, 1500u16), (1250, 9000), (9000, 1472)]);
    let lead = prop_oneof![3 => Just(0u32), 2 => 0u32..=3_000, 2 => 0u32..=40_000];
    let last = prop_oneof![
        1 => 0u32..=2,
        3 => (proptest::sample::select(vec![16_000u32, RECORD, 2 * RECORD, 40_000, 50_000, 100_000]), 0u32..=600).prop_map(|(p, d)| (p + d).saturating_sub(300)),
        2 => 0u32..=70_000,
        1 => 0u32..=300_000,
    ];
    (
        (any::<u64>(), mtus, any::<bool>(), 0u32..=3_000),
        (lead, io_sizes(), last, prop_oneof![3 => Just(FinMode::InWrite), 1 => Just(FinMode::Shutdown)], io_sizes()),
        (prop::bool::weighted(0.1), prop::bool::weighted(0.8), any::<u8>(), part(), any::<bool>()),
    )
        .prop_map(|((seed, (client_mtu, server_mtu), resp, other_len), (lead, lead_chunks, last, fin, read_bufs), (clean, of_last_write, frac, part, both))| {
            let total = lead + last;
            // at most ~200 writes / reads per direction
            let floor = (total / 200).max(1);
            let records = if of_last_write { last / 16_000 + 2 } else { total / 16_000 + 3 };
            let cut = if clean {
                Cut::Clean
            } else {
                Cut::At { of_last_write, record: (frac as u32 * records / 256) as u16, part }
            };
            CutCase {
                seed,
                client_mtu,
                server_mtu,
                resp,
                other_len,
                lead,
                lead_chunks: lead_chunks.into_iter().map(|c| c.max(floor)).collect(),
                last,
                fin,
                read_bufs: read_bufs.into_iter().map(|b| b.clamp(floor, 65_536)).collect(),
                cut,
                close: if both { CloseMode::Both } else { CloseMode::FinToReader },
            }
        })
        .boxed()
}

// the fixed grid: (lead, last write, records of the last write)
const GRID_SIZES: [(u32, u32, u16); 4] = [(0, 40_000, 3), (5_000, 20_000, 2), (3_000, 100, 1), (0, 100_000, 7)];
const GRID_PARTS: [Part; 5] = [Part::Nothing, Part::Bytes(1), Part::Header, Part::Permille(500), Part::AllButOne];

fn grid_sizes(tier: Tier) -> usize {
    tier.pick(3, GRID_SIZES.len())
}

/// cut positions of one size: clean + every record of the last write (and the position after
/// them: the record that carries only the end of the stream, if there is one) x parts
fn grid_positions(size: usize) -> u64 {
    1 + (GRID_SIZES[size].2 as u64 + 1) * GRID_PARTS.len() as u64
}

fn grid_total(tier: Tier) -> u64 {
    (0..grid_sizes(tier)).map(|s| 8 * grid_positions(s)).sum()
}

fn grid_case(tier: Tier, mut idx: u64) -> CutCase {
    for s in 0..grid_sizes(tier) {
        let span = 8 * grid_positions(s);
        if idx < span {
            let (resp, fin, both) = (idx & 1 != 0, idx & 2 != 0, idx & 4 != 0);
            let pos = idx / 8;
            let cut = if pos == 0 {
                Cut::Clean
            } else {
                let p = pos - 1;
                Cut::At {
                    of_last_write: true,
                    record: (p / GRID_PARTS.len() as u64) as u16,
                    part: GRID_PARTS[(p % GRID_PARTS.len() as u64) as usize],
                }
            };
            let (lead, last, _) = GRID_SIZES[s];
            return CutCase {
                seed: 7 + s as u64,
                client_mtu: 1500,
                server_mtu: 1500,
                resp,
                other_len: 300,
                lead,
                lead_chunks: vec![2_000],
                last,
                fin: if fin { FinMode::InWrite } else { FinMode::Shutdown },
                read_bufs: vec![65_536],
                cut,
                close: if both { CloseMode::Both } else { CloseMode::FinToReader },
            };
        }
        idx -= span;
    }
    unreachable!("index beyond the enumeration")
}

fn oracle(case: &CutCase, obs: &mut Obs) -> CaseResult {
    let out = run(case);
    if std::env::var_os("DCSIM_TRACE").is_some() {
        eprintln!("--- {case:?}\n  w {:?}\n  r {:?}\n  ow {:?}\n  or {:?}\n  forwarder {:?}\n  connect_err {:?} accepted {} hang {:?}",
            out.w, out.r, out.ow, out.or, out.proxy, out.connect_err, out.accepted, out.hang);
    }
    judge(case, &out, obs)
}

pub fn subs() -> Vec<Box<dyn SubCheck>> {
    vec![
        Box::new(EnumCheck::<CutCase> { name: "tcp_cut_enum", total: grid_total, case: grid_case, oracle }),
        Box::new(PropCheck {
            name: "tcp_cut_generated",
            cases: |t| t.pick(320, 3_000),
            strategy: |_| strategy(),
            oracle,
            // a reproduced hang costs READER_BOUND of wall-clock time per execution
            max_shrink_iters: 6,
        }),
    ]
}
