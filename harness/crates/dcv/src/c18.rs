//! C18: every s2n-quic-dc packet form round-trips, decoders are total, and only packets whose
//! authentication tag verifies are acted upon (codec level here, map level in `c18_map`).

use crate::{c18_map, world::*};
use proptest::prelude::*;
use s2n_codec::{DecoderBufferMut, DecoderParameterizedValueMut as _, EncoderBuffer, EncoderValue as _};
use s2n_quic_core::{
    buffer::{
        reader::{storage::Chunk, Reader, Storage},
        writer,
    },
    varint::VarInt,
};
use s2n_quic_dc::{
    credentials::{Credentials, Id},
    crypto::{
        awslc,
        open::{Application as _, Control as _},
        UninitSlice,
    },
    packet::{self, control, datagram, secret_control, stream, WireVersion},
    path::secret::schedule::{self, Initiator},
};
use serde::{Deserialize, Serialize};
use vcore::{ensure_that, fail, gen::*, hash_of, CaseResult, Fail, Obs, PropCheck, Property, SubCheck, Tier};

// ---------------------------------------------------------------------------------------
// keys

#[derive(Clone, Debug, Hash, PartialEq, Eq, Serialize, Deserialize)]
pub struct KeySpec {
    pub secret: [u8; 32],
    pub aes256: bool,
    pub sealer_client: bool,
    pub key_id: u64,
    /// None: unidirectional keys; Some(x): bidirectional keys, x = the sealing side initiated
    pub bidi: Option<bool>,
}

pub struct Keys {
    pub id: Id,
    pub local: schedule::Secret,
    pub remote: schedule::Secret,
    pub app_seal: awslc::seal::Application,
    pub app_open: awslc::open::Application,
    pub ctl_seal: awslc::seal::control::Stream,
    pub ctl_open: awslc::open::control::Stream,
}

pub fn keys(k: &KeySpec) -> Keys {
    let (local, remote) = secret_pair(k.aes256, k.sealer_client, &k.secret);
    let kid = VarInt::new(k.key_id).expect("harness: key id");
    let (li, ri) = if k.bidi.unwrap_or(true) {
        (Initiator::Local, Initiator::Remote)
    } else {
        (Initiator::Remote, Initiator::Local)
    };
    let (app_seal, app_open) = match k.bidi {
        None => (local.application_sealer(kid), remote.application_opener(kid)),
        Some(_) => {
            let (s, _, _, _) = local.application_pair(kid, li);
            let (_, _, o, _) = remote.application_pair(kid, ri);
            (s, o)
        }
    };
    let (ctl_seal, _) = local.control_pair(kid, li);
    let (_, ctl_open) = remote.control_pair(kid, ri);
    Keys { id: *local.id(), local, remote, app_seal, app_open, ctl_seal, ctl_open }
}

fn key_strategy() -> impl Strategy<Value = KeySpec> {
    (
        any::<[u8; 32]>(),
        any::<bool>(),
        any::<bool>(),
        varint_value(),
        prop_oneof![Just(None), Just(Some(true)), Just(Some(false))],
    )
        .prop_map(|(secret, aes256, sealer_client, key_id, bidi)| KeySpec { secret, aes256, sealer_client, key_id, bidi })
}

pub fn vi(v: u64) -> VarInt {
    VarInt::new(v.min(MAX_VARINT)).expect("harness: varint")
}

// ---------------------------------------------------------------------------------------
// a payload reader with arbitrary offsets

pub struct PayloadReader<'a> {
    pub data: &'a [u8],
    pub cursor: usize,
    pub offset: u64,
    pub fin: Option<u64>,
    /// hand the bytes out as a trailing chunk (scatter path) instead of copying them
    pub scatter: bool,
}

impl Storage for PayloadReader<'_> {
    type Error = core::convert::Infallible;

    fn buffered_len(&self) -> usize {
        self.data.len() - self.cursor
    }

    fn read_chunk(&mut self, watermark: usize) -> Result<Chunk<'_>, Self::Error> {
        let remaining = &self.data[self.cursor..];
        let len = remaining.len().min(watermark);
        self.cursor += len;
        Ok((&remaining[..len]).into())
    }

    fn partial_copy_into<Dest>(&mut self, dest: &mut Dest) -> Result<Chunk<'_>, Self::Error>
    where
        Dest: writer::Storage + ?Sized,
    {
        if self.scatter {
            self.read_chunk(dest.remaining_capacity())
        } else {
            let remaining = &self.data[self.cursor..];
            let len = remaining.len().min(dest.remaining_capacity());
            dest.put_slice(&remaining[..len]);
            self.cursor += len;
            Ok(Chunk::empty())
        }
    }
}

impl Reader for PayloadReader<'_> {
    fn current_offset(&self) -> VarInt {
        vi(self.offset.saturating_add(self.cursor as u64))
    }

    fn final_offset(&self) -> Option<VarInt> {
        self.fin.map(vi)
    }
}

// ---------------------------------------------------------------------------------------
// what an opener says about a byte string

#[derive(Clone, Copy, Debug, PartialEq, Eq)]
pub enum Verdict {
    DecodeErr,
    Rejected,
    Accepted { consumed: usize, digest: u64 },
}

pub struct Built {
    pub bytes: Vec<u8>,
    /// length of the packet proper; `bytes[len..]` is unrelated trailing data
    pub len: usize,
    pub header_len: usize,
    pub tag_start: usize,
}

impl Built {
    fn region(&self, pos: usize) -> &'static str {
        if pos >= self.len {
            "trailing"
        } else if pos >= self.tag_start {
            "tag"
        } else if pos >= self.header_len {
            "payload"
        } else {
            "header"
        }
    }
}

// ---------------------------------------------------------------------------------------
// stream packets

#[derive(Clone, Copy, Debug, Hash, PartialEq, Eq, Serialize, Deserialize)]
pub enum BufKind {
    Ample,
    /// a datagram-sized buffer: the encoder takes as much payload as fits (only with an empty
    /// application header, as the production sender uses it)
    Mtu(u16),
}

#[derive(Clone, Debug, Hash, PartialEq, Eq, Serialize, Deserialize)]
pub struct StreamSpec {
    pub key: KeySpec,
    pub source_queue_id: Option<u64>,
    pub queue_id: u64,
    pub reliable: bool,
    pub bidirectional: bool,
    pub pn: u64,
    pub next_ctl: u64,
    pub offset: u64,
    pub final_offset: Option<u64>,
    pub header_len: u8,
    pub control_len: u16,
    pub payload_len: u32,
    pub seed: u64,
    pub probe: bool,
    /// (relative retransmission packet number, retransmitted in the recovery space)
    pub retransmit: Option<(u32, bool)>,
    pub buf: BufKind,
    pub scatter: bool,
    pub in_place: bool,
    pub via_generic: bool,
    pub trailing: u8,
}

pub struct StreamExpect {
    pub creds: Credentials,
    pub stream_id: stream::Id,
    pub pn: u64,
    pub rel: u32,
    pub space_recovery: bool,
    pub app_header: Vec<u8>,
    pub control: Vec<u8>,
    pub payload: Vec<u8>,
    pub sent: usize,
    pub cap: usize,
}

impl StreamSpec {
    fn retransmitted(&self) -> Option<(u32, bool)> {
        match self.retransmit {
            Some((rel, rec)) if self.reliable && !self.probe && rel > 0 && self.pn.checked_add(rel as u64).is_some_and(|v| v <= MAX_VARINT) => Some((rel, rec)),
            _ => None,
        }
    }
}

pub fn build_stream(s: &StreamSpec, k: &Keys) -> Result<(Built, StreamExpect), Fail> {
    let hl = s.header_len.min(64) as usize;
    let cl = s.control_len.min(256) as usize;
    let pl = if s.probe { 0 } else { s.payload_len as usize };
    let app_header = prf_vec(s.seed ^ 0xA1, 0, hl);
    let control = prf_vec(s.seed ^ 0xC2, 0, cl);
    let payload = prf_vec(s.seed, s.offset, pl);
    let creds = Credentials { id: k.id, key_id: vi(s.key.key_id) };
    let mut stream_id = stream::Id::unreliable_unidirectional(vi(s.queue_id.min((1 << 60) - 1))).expect("harness: queue id");
    stream_id.is_reliable = s.reliable;
    stream_id.is_bidirectional = s.bidirectional;

    let cap = match s.buf {
        BufKind::Mtu(m) if hl == 0 && !s.probe => (m as usize).clamp(1200, 16384),
        _ => 192 + hl + cl + pl + 16,
    };
    let trailing = s.trailing as usize;
    let mut bytes = vec![0u8; cap + trailing];
    let mut hdr: &[u8] = &app_header;
    let cd: &[u8] = &control;
    let mut reader = PayloadReader { data: &payload, cursor: 0, offset: s.offset, fin: s.final_offset, scatter: s.scatter };
    let len = if s.probe {
        stream::encoder::probe(
            EncoderBuffer::new(&mut bytes[..cap]),
            s.source_queue_id.map(vi),
            stream_id,
            vi(s.pn),
            vi(s.next_ctl),
            vi(hl as u64),
            &mut hdr,
            vi(cl as u64),
            &cd,
            &mut reader,
            &k.ctl_seal,
            &creds,
        )
    } else {
        stream::encoder::encode(
            EncoderBuffer::new(&mut bytes[..cap]),
            s.source_queue_id.map(vi),
            stream_id,
            vi(s.pn),
            vi(s.next_ctl),
            vi(hl as u64),
            &mut hdr,
            vi(cl as u64),
            &cd,
            &mut reader,
            &k.app_seal,
            &creds,
        )
    };
    let sent = reader.cursor;
    ensure_that!(len <= cap, "stream:encode-length", "encode returned {len} for a buffer of {cap}");
    let mut rel = 0;
    let mut space_recovery = s.probe;
    if let Some((r, rec)) = s.retransmitted() {
        let space = if rec { stream::PacketSpace::Recovery } else { stream::PacketSpace::Stream };
        let res = stream::decoder::Packet::retransmit(DecoderBufferMut::new(&mut bytes[..len]), space, vi(s.pn + r as u64), &k.ctl_seal);
        ensure_that!(res.is_ok(), "stream:retransmit-failed", "retransmit of a freshly encoded reliable packet failed: {res:?}");
        rel = r;
        space_recovery = rec;
    }
    // unrelated bytes behind the packet
    for (i, b) in bytes[len..].iter_mut().enumerate() {
        *b = prf_byte(s.seed ^ 0x7A11, i as u64);
    }
    bytes.truncate(len + trailing);
    ensure_that!(sent <= pl && len >= sent + 16, "stream:encode-length", "encode returned {len} after consuming {sent} payload bytes");
    let built = Built { bytes, len, header_len: len - 16 - sent, tag_start: len - 16 };
    let exp = StreamExpect { creds, stream_id, pn: s.pn, rel, space_recovery, app_header, control, payload, sent, cap };
    Ok((built, exp))
}

/// decode + decrypt a stream packet; `Accepted` carries a digest of every decoded field and the plaintext
pub fn open_stream(buf: &mut [u8], k: &Keys, in_place: bool, via_generic: bool) -> Verdict {
    let total = buf.len();
    let (mut p, rest) = if via_generic {
        match packet::Packet::decode_parameterized_mut(16, DecoderBufferMut::new(buf)) {
            Ok((packet::Packet::Stream(p), rest)) => (p, rest.len()),
            _ => return Verdict::DecodeErr,
        }
    } else {
        match stream::decoder::Packet::decode(DecoderBufferMut::new(buf), (), 16) {
            Ok((p, rest)) => (p, rest.len()),
            Err(_) => return Verdict::DecodeErr,
        }
    };
    let plain: Vec<u8> = if in_place {
        if p.decrypt_in_place(&k.app_open, &k.ctl_open).is_err() {
            return Verdict::Rejected;
        }
        p.payload().to_vec()
    } else {
        let mut out = vec![0u8; p.payload().len()];
        if p.decrypt(&k.app_open, &k.ctl_open, UninitSlice::new(&mut out)).is_err() {
            return Verdict::Rejected;
        }
        out
    };
    let t = p.tag();
    let digest = hash_of(&(
        (u8::from(t), p.credentials().id.to_vec(), *p.credentials().key_id, p.source_queue_id().map(|v| *v)),
        (*p.stream_id().queue_id(), p.stream_id().is_reliable, p.stream_id().is_bidirectional),
        (*p.packet_number(), p.is_retransmission(), *p.next_expected_control_packet(), *p.stream_offset(), p.final_offset().map(|v| *v)),
        (p.application_header().to_vec(), p.control_data().to_vec(), plain),
    ));
    Verdict::Accepted { consumed: total - rest, digest }
}

pub fn run_roundtrip_stream(s: &StreamSpec, obs: &mut Obs) -> CaseResult {
    c18_map::warm();
    let k = keys(&s.key);
    let (mut b, e) = build_stream(s, &k)?;
    let trailing = b.bytes.len() - b.len;
    {
        let buf = &mut b.bytes[..];
        let (mut p, rest) = if s.via_generic {
            match packet::Packet::decode_parameterized_mut(16, DecoderBufferMut::new(buf)) {
                Ok((packet::Packet::Stream(p), rest)) => (p, rest.len()),
                other => fail!("stream:decode-failed", "Packet::decode of an encoded stream packet gave {:?}", other.map(|(p, _)| p.kind())),
            }
        } else {
            match stream::decoder::Packet::decode(DecoderBufferMut::new(buf), (), 16) {
                Ok((p, rest)) => (p, rest.len()),
                Err(err) => fail!("stream:decode-failed", "decode of an encoded stream packet failed: {err:?}"),
            }
        };
        ensure_that!(rest == trailing, "stream:consumed-length", "encode wrote {} bytes, decode left {rest} of {trailing} trailing bytes", b.len);
        ensure_that!(p.total_len() == b.len, "stream:consumed-length", "total_len {} but encode returned {}", p.total_len(), b.len);
        let t = p.tag();
        macro_rules! same {
            ($what:literal, $got:expr, $exp:expr) => {
                ensure_that!($got == $exp, concat!("stream:field:", $what), "{}: decoded {:?}, encoded {:?}", $what, $got, $exp)
            };
        }
        same!("credentials", *p.credentials(), e.creds);
        same!("wire_version", p.wire_version(), WireVersion::ZERO);
        same!("source_queue_id", p.source_queue_id().map(|v| *v), s.source_queue_id.map(|v| *vi(v)));
        same!("tag.has_source_queue_id", t.has_source_queue_id(), s.source_queue_id.is_some());
        same!("stream_id", *p.stream_id(), e.stream_id);
        same!("packet_number", *p.packet_number(), e.pn + e.rel as u64);
        same!("is_retransmission", p.is_retransmission(), e.rel > 0);
        same!("next_expected_control_packet", *p.next_expected_control_packet(), *vi(s.next_ctl));
        same!("stream_offset", *p.stream_offset(), *vi(s.offset));
        same!("final_offset", p.final_offset().map(|v| *v), s.final_offset.map(|v| *vi(v)));
        same!("tag.has_final_offset", t.has_final_offset(), s.final_offset.is_some());
        same!("application_header", p.application_header(), &e.app_header[..]);
        same!("tag.has_application_header", t.has_application_header(), !e.app_header.is_empty());
        same!("control_data", p.control_data(), &e.control[..]);
        same!("tag.has_control_data", t.has_control_data(), !e.control.is_empty());
        same!("tag.packet_space", t.packet_space().is_recovery(), e.space_recovery);
        same!("payload_len", p.payload().len(), e.sent);
        let fin = s.final_offset.map(|f| *vi(f)) == Some(*vi(s.offset) + e.sent as u64);
        same!("is_fin", p.is_fin(), fin);
        let plain: Vec<u8> = if s.in_place {
            let r = p.decrypt_in_place(&k.app_open, &k.ctl_open);
            ensure_that!(r.is_ok(), "stream:decrypt-failed", "decrypt_in_place of a genuine packet failed: {r:?}");
            p.payload().to_vec()
        } else {
            let mut out = vec![0u8; p.payload().len()];
            let r = p.decrypt(&k.app_open, &k.ctl_open, UninitSlice::new(&mut out));
            ensure_that!(r.is_ok(), "stream:decrypt-failed", "decrypt of a genuine packet failed: {r:?}");
            out
        };
        ensure_that!(plain[..] == e.payload[..e.sent], "stream:payload", "decrypted payload differs from the {} bytes encoded (first difference at {:?})", e.sent, plain.iter().zip(&e.payload).position(|(a, b)| a != b));
        same!("packet_number(after decrypt)", *p.packet_number(), e.pn + e.rel as u64);
    }
    let overhead = b.len - e.sent;
    if overhead + e.payload.len() + 8 <= e.cap {
        ensure_that!(e.sent == e.payload.len(), "stream:payload-truncated", "only {} of {} payload bytes were encoded into a buffer of {} (overhead {overhead})", e.sent, e.payload.len(), e.cap);
    }
    obs.nontrivial(e.sent > 0 || s.probe);
    obs.class_if(e.sent < e.payload.len(), "payload-truncated-to-buffer");
    obs.class_if(e.sent == 0, "payload-0");
    obs.class_if(e.sent == 1, "payload-1");
    obs.class_if(e.sent >= 16384, "payload>=16K");
    obs.class_if(s.probe, "probe");
    obs.class_if(e.rel > 0, "retransmitted");
    obs.class_if(s.source_queue_id.is_some(), "source-queue-id");
    obs.class_if(s.final_offset.is_some(), "final-offset");
    obs.class_if(s.key.aes256, "aes256");
    obs.class_if(s.key.bidi.is_some(), "bidi-keys");
    obs.class_if(!e.app_header.is_empty(), "app-header");
    obs.class_if(!e.control.is_empty(), "control-data");
    obs.units = 1;
    obs.sample = Some(serde_json::json!({ "pn": s.pn, "offset": s.offset, "payload": e.sent, "len": b.len }));
    Ok(())
}

fn payload_len_strategy(max: u32) -> impl Strategy<Value = u32> {
    prop_oneof![
        3 => prop_oneof![Just(0u32), Just(1), Just(2), Just(63), Just(64)],
        3 => 0u32..300,
        3 => (1100u32..1500).prop_map(move |v| v.min(max)),
        2 => (0u32..=9100).prop_map(move |v| v.min(max)),
        1 => (16300u32..=16500).prop_map(move |v| v.min(max)),
        1 => 0u32..=max,
    ]
}

pub fn stream_strategy(max_payload: u32) -> impl Strategy<Value = StreamSpec> {
    (
        (key_strategy(), prop::option::of(varint_value()), biased_u64((1 << 60) - 1, &[0, 63, 64, 16383, 16384, (1 << 60) - 1]), any::<bool>(), any::<bool>()),
        (varint_value(), varint_value(), varint_value(), prop::option::of(varint_value())),
        (prop_oneof![2 => Just(0u8), 1 => Just(1u8), 1 => Just(64u8), 2 => 0u8..=64], prop_oneof![2 => Just(0u16), 1 => Just(1u16), 1 => Just(256u16), 2 => 0u16..=256], payload_len_strategy(max_payload), any::<u64>()),
        (
            prop::bool::weighted(0.08),
            prop::option::weighted(0.3, (prop_oneof![Just(1u32), 1u32..300, any::<u32>()], any::<bool>())),
            prop_oneof![3 => Just(BufKind::Ample), 1 => prop_oneof![Just(1200u16), Just(1472), Just(1500), Just(9000), Just(16384)].prop_map(BufKind::Mtu)],
            any::<bool>(),
            any::<bool>(),
            any::<bool>(),
            prop_oneof![Just(0u8), Just(1), 0u8..40],
        ),
    )
        .prop_map(|((key, source_queue_id, queue_id, reliable, bidirectional), (pn, next_ctl, offset, final_offset), (header_len, control_len, payload_len, seed), (probe, retransmit, buf, scatter, in_place, via_generic, trailing))| StreamSpec {
            key,
            source_queue_id,
            queue_id,
            reliable,
            bidirectional,
            pn,
            next_ctl,
            offset,
            final_offset,
            header_len,
            control_len,
            payload_len,
            seed,
            probe,
            retransmit,
            buf,
            scatter,
            in_place,
            via_generic,
            trailing,
        })
}

include!("c18_codec.rs");
