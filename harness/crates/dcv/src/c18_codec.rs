// (included into c18.rs) datagram / control / secret-control packets

// ---------------------------------------------------------------------------------------
// datagram packets

#[derive(Clone, Debug, Hash, PartialEq, Eq, Serialize, Deserialize)]
pub struct DatagramSpec {
    pub key: KeySpec,
    pub source_control_port: u16,
    pub pn: Option<u64>,
    /// only used when `pn` is present (the encoder requires a packet number for ack-eliciting datagrams)
    pub next_ctl: Option<u64>,
    pub header_len: u8,
    pub control_len: u16,
    pub payload_len: u32,
    pub seed: u64,
    pub in_place: bool,
    pub via_generic: bool,
    pub trailing: u8,
}

pub struct DatagramExpect {
    pub creds: Credentials,
    pub next_ctl: Option<u64>,
    pub app_header: Vec<u8>,
    pub control: Vec<u8>,
    pub payload: Vec<u8>,
}

pub fn build_datagram(s: &DatagramSpec, k: &Keys) -> Result<(Built, DatagramExpect), Fail> {
    let next_ctl = if s.pn.is_some() { s.next_ctl } else { None };
    let hl = s.header_len.min(64) as usize;
    let cl = if next_ctl.is_some() { s.control_len.min(256) as usize } else { 0 };
    let pl = s.payload_len as usize;
    let app_header = prf_vec(s.seed ^ 0xA1, 0, hl);
    let control = prf_vec(s.seed ^ 0xC2, 0, cl);
    let payload = prf_vec(s.seed, 0, pl);
    let creds = Credentials { id: k.id, key_id: vi(s.key.key_id) };
    let cap = 128 + hl + cl + pl + 16;
    let trailing = s.trailing as usize;
    let mut bytes = vec![0u8; cap + trailing];
    let mut hdr: &[u8] = &app_header;
    let cd: &[u8] = &control;
    let mut pay: &[u8] = &payload;
    let len = datagram::encoder::encode(
        EncoderBuffer::new(&mut bytes[..cap]),
        s.source_control_port,
        s.pn.map(vi),
        next_ctl.map(vi),
        vi(hl as u64),
        &mut hdr,
        &cd,
        vi(pl as u64),
        &mut pay,
        &k.app_seal,
        &creds,
    );
    ensure_that!(len <= cap && len >= pl + 16, "datagram:encode-length", "encode returned {len} (payload {pl}, buffer {cap})");
    for (i, b) in bytes[len..].iter_mut().enumerate() {
        *b = prf_byte(s.seed ^ 0x7A11, i as u64);
    }
    bytes.truncate(len + trailing);
    let built = Built { bytes, len, header_len: len - 16 - pl, tag_start: len - 16 };
    Ok((built, DatagramExpect { creds, next_ctl, app_header, control, payload }))
}

fn decode_datagram(buf: &mut [u8], via_generic: bool) -> Option<(datagram::decoder::Packet<'_>, usize)> {
    if via_generic {
        match packet::Packet::decode_parameterized_mut(16, DecoderBufferMut::new(buf)) {
            Ok((packet::Packet::Datagram(p), rest)) => Some((p, rest.len())),
            _ => None,
        }
    } else {
        match datagram::decoder::Packet::decode(DecoderBufferMut::new(buf), (), 16) {
            Ok((p, rest)) => Some((p, rest.len())),
            Err(_) => None,
        }
    }
}

fn decrypt_datagram(p: &mut datagram::decoder::Packet<'_>, k: &Keys, in_place: bool) -> Result<Vec<u8>, s2n_quic_dc::crypto::open::Error> {
    let kp = p.tag().key_phase();
    let nonce = p.crypto_nonce();
    if in_place {
        let header = p.header().to_vec();
        let tag = p.auth_tag().to_vec();
        k.app_open.decrypt_in_place(kp, nonce, &header, p.payload_mut(), &tag)?;
        Ok(p.payload().to_vec())
    } else {
        let mut out = vec![0u8; p.payload().len()];
        k.app_open.decrypt(kp, nonce, p.header(), p.payload(), p.auth_tag(), UninitSlice::new(&mut out))?;
        Ok(out)
    }
}

pub fn open_datagram(buf: &mut [u8], k: &Keys, in_place: bool, via_generic: bool) -> Verdict {
    let total = buf.len();
    let Some((mut p, rest)) = decode_datagram(buf, via_generic) else {
        return Verdict::DecodeErr;
    };
    let Ok(plain) = decrypt_datagram(&mut p, k, in_place) else {
        return Verdict::Rejected;
    };
    let digest = hash_of(&(
        (u8::from(p.tag()), p.credentials().id.to_vec(), *p.credentials().key_id, p.source_control_port()),
        (*p.packet_number(), p.next_expected_control_packet().map(|v| *v)),
        (p.application_header().to_vec(), p.control_data().to_vec(), plain),
    ));
    Verdict::Accepted { consumed: total - rest, digest }
}

pub fn run_roundtrip_datagram(s: &DatagramSpec, obs: &mut Obs) -> CaseResult {
    c18_map::warm();
    let k = keys(&s.key);
    let (mut b, e) = build_datagram(s, &k)?;
    let trailing = b.bytes.len() - b.len;
    let Some((mut p, rest)) = decode_datagram(&mut b.bytes, s.via_generic) else {
        fail!("datagram:decode-failed", "decode of an encoded datagram packet failed");
    };
    ensure_that!(rest == trailing, "datagram:consumed-length", "encode wrote {} bytes, decode left {rest} of {trailing} trailing bytes", b.len);
    ensure_that!(p.wire_len() == b.len, "datagram:consumed-length", "wire_len {} but encode returned {}", p.wire_len(), b.len);
    macro_rules! same {
        ($what:literal, $got:expr, $exp:expr) => {
            ensure_that!($got == $exp, concat!("datagram:field:", $what), "{}: decoded {:?}, encoded {:?}", $what, $got, $exp)
        };
    }
    let t = p.tag();
    same!("credentials", *p.credentials(), e.creds);
    same!("wire_version", p.wire_version(), WireVersion::ZERO);
    same!("source_control_port", p.source_control_port(), s.source_control_port);
    same!("packet_number", *p.packet_number(), s.pn.map(|v| *vi(v)).unwrap_or(0));
    same!("tag.is_connected", t.is_connected(), s.pn.is_some());
    same!("next_expected_control_packet", p.next_expected_control_packet().map(|v| *v), e.next_ctl.map(|v| *vi(v)));
    same!("tag.ack_eliciting", t.ack_eliciting(), e.next_ctl.is_some());
    same!("application_header", p.application_header(), &e.app_header[..]);
    same!("tag.has_application_header", t.has_application_header(), !e.app_header.is_empty());
    same!("control_data", p.control_data(), &e.control[..]);
    same!("payload_len", p.payload().len(), e.payload.len());
    let plain = decrypt_datagram(&mut p, &k, s.in_place);
    ensure_that!(plain.is_ok(), "datagram:decrypt-failed", "decrypt of a genuine datagram failed: {:?}", plain.as_ref().err());
    ensure_that!(plain.as_ref().unwrap()[..] == e.payload[..], "datagram:payload", "decrypted payload differs from what was encoded");
    obs.nontrivial(!e.payload.is_empty());
    obs.class_if(s.pn.is_some(), "connected");
    obs.class_if(e.next_ctl.is_some(), "ack-eliciting");
    obs.class_if(!e.app_header.is_empty(), "app-header");
    obs.class_if(e.payload.is_empty(), "payload-0");
    obs.class_if(e.payload.len() >= 16384, "payload>=16K");
    obs.class_if(s.key.aes256, "aes256");
    obs.sample = Some(serde_json::json!({ "pn": s.pn, "payload": e.payload.len(), "len": b.len }));
    Ok(())
}

pub fn datagram_strategy(max_payload: u32) -> impl Strategy<Value = DatagramSpec> {
    (
        (key_strategy(), any::<u16>(), prop::option::weighted(0.7, varint_value()), prop::option::of(varint_value())),
        (prop_oneof![2 => Just(0u8), 1 => Just(64u8), 2 => 0u8..=64], prop_oneof![2 => Just(0u16), 1 => Just(256u16), 2 => 0u16..=256], payload_len_strategy(max_payload), any::<u64>()),
        (any::<bool>(), any::<bool>(), prop_oneof![Just(0u8), Just(1), 0u8..40]),
    )
        .prop_map(|((key, source_control_port, pn, next_ctl), (header_len, control_len, payload_len, seed), (in_place, via_generic, trailing))| DatagramSpec {
            key,
            source_control_port,
            pn,
            next_ctl,
            header_len,
            control_len,
            payload_len,
            seed,
            in_place,
            via_generic,
            trailing,
        })
}

// ---------------------------------------------------------------------------------------
// control packets

#[derive(Clone, Debug, Hash, PartialEq, Eq, Serialize, Deserialize)]
pub struct ControlSpec {
    pub key: KeySpec,
    pub source_queue_id: Option<u64>,
    /// (queue id, reliable, bidirectional)
    pub stream_id: Option<(u64, bool, bool)>,
    pub pn: u64,
    pub header_len: u8,
    pub control_len: u16,
    pub seed: u64,
    pub via_generic: bool,
    pub trailing: u8,
}

pub struct ControlExpect {
    pub creds: Credentials,
    pub stream_id: Option<stream::Id>,
    pub app_header: Vec<u8>,
    pub control: Vec<u8>,
}

pub fn build_control(s: &ControlSpec, k: &Keys) -> Result<(Built, ControlExpect), Fail> {
    let hl = s.header_len.min(64) as usize;
    let cl = s.control_len.min(256) as usize;
    let app_header = prf_vec(s.seed ^ 0xA1, 0, hl);
    let control = prf_vec(s.seed ^ 0xC2, 0, cl);
    let creds = Credentials { id: k.id, key_id: vi(s.key.key_id) };
    let stream_id = s.stream_id.map(|(q, r, b)| {
        let mut id = stream::Id::unreliable_unidirectional(vi(q.min((1 << 60) - 1))).expect("harness: queue id");
        id.is_reliable = r;
        id.is_bidirectional = b;
        id
    });
    let cap = 128 + hl + cl + 16;
    let trailing = s.trailing as usize;
    let mut bytes = vec![0u8; cap + trailing];
    let mut hdr: &[u8] = &app_header;
    let cd: &[u8] = &control;
    let len = control::encoder::encode(
        EncoderBuffer::new(&mut bytes[..cap]),
        s.source_queue_id.map(vi),
        stream_id,
        vi(s.pn),
        vi(hl as u64),
        &mut hdr,
        vi(cl as u64),
        &cd,
        &k.ctl_seal,
        &creds,
    );
    ensure_that!(len <= cap && len >= 16, "control:encode-length", "encode returned {len} (buffer {cap})");
    for (i, b) in bytes[len..].iter_mut().enumerate() {
        *b = prf_byte(s.seed ^ 0x7A11, i as u64);
    }
    bytes.truncate(len + trailing);
    let built = Built { bytes, len, header_len: len - 16, tag_start: len - 16 };
    Ok((built, ControlExpect { creds, stream_id, app_header, control }))
}

fn decode_control(buf: &mut [u8], via_generic: bool) -> Option<(control::decoder::Packet<'_>, usize)> {
    if via_generic {
        match packet::Packet::decode_parameterized_mut(16, DecoderBufferMut::new(buf)) {
            Ok((packet::Packet::Control(p), rest)) => Some((p, rest.len())),
            _ => None,
        }
    } else {
        match control::decoder::Packet::decode(DecoderBufferMut::new(buf), (), 16) {
            Ok((p, rest)) => Some((p, rest.len())),
            Err(_) => None,
        }
    }
}

pub fn open_control(buf: &mut [u8], k: &Keys, via_generic: bool) -> Verdict {
    let total = buf.len();
    let Some((p, rest)) = decode_control(buf, via_generic) else {
        return Verdict::DecodeErr;
    };
    if k.ctl_open.verify(p.header(), p.auth_tag()).is_err() {
        return Verdict::Rejected;
    }
    let digest = hash_of(&(
        (u8::from(p.tag()), p.credentials().id.to_vec(), *p.credentials().key_id, p.source_queue_id().map(|v| *v)),
        p.stream_id().map(|s| (*s.queue_id(), s.is_reliable, s.is_bidirectional)),
        (*p.packet_number(), p.application_header().to_vec(), p.control_data().to_vec()),
    ));
    Verdict::Accepted { consumed: total - rest, digest }
}

pub fn run_roundtrip_control(s: &ControlSpec, obs: &mut Obs) -> CaseResult {
    c18_map::warm();
    let k = keys(&s.key);
    let (mut b, e) = build_control(s, &k)?;
    let trailing = b.bytes.len() - b.len;
    let Some((p, rest)) = decode_control(&mut b.bytes, s.via_generic) else {
        fail!("control:decode-failed", "decode of an encoded control packet failed");
    };
    ensure_that!(rest == trailing, "control:consumed-length", "encode wrote {} bytes, decode left {rest} of {trailing} trailing bytes", b.len);
    ensure_that!(p.total_len() == b.len, "control:consumed-length", "total_len {} but encode returned {}", p.total_len(), b.len);
    macro_rules! same {
        ($what:literal, $got:expr, $exp:expr) => {
            ensure_that!($got == $exp, concat!("control:field:", $what), "{}: decoded {:?}, encoded {:?}", $what, $got, $exp)
        };
    }
    let t = p.tag();
    same!("credentials", *p.credentials(), e.creds);
    same!("wire_version", p.wire_version(), WireVersion::ZERO);
    same!("source_queue_id", p.source_queue_id().map(|v| *v), s.source_queue_id.map(|v| *vi(v)));
    same!("tag.has_source_queue_id", t.has_source_queue_id(), s.source_queue_id.is_some());
    same!("stream_id", p.stream_id().copied(), e.stream_id);
    same!("tag.is_stream", t.is_stream(), e.stream_id.is_some());
    same!("packet_number", *p.packet_number(), *vi(s.pn));
    same!("application_header", p.application_header(), &e.app_header[..]);
    same!("tag.has_application_header", t.has_application_header(), !e.app_header.is_empty());
    same!("control_data", p.control_data(), &e.control[..]);
    let r = k.ctl_open.verify(p.header(), p.auth_tag());
    ensure_that!(r.is_ok(), "control:verify-failed", "verify of a genuine control packet failed: {r:?}");
    obs.nontrivial(true);
    obs.class_if(e.stream_id.is_some(), "stream-id");
    obs.class_if(s.source_queue_id.is_some(), "source-queue-id");
    obs.class_if(!e.app_header.is_empty(), "app-header");
    obs.class_if(e.control.is_empty(), "control-data-0");
    obs.class_if(s.key.aes256, "aes256");
    Ok(())
}

pub fn control_strategy() -> impl Strategy<Value = ControlSpec> {
    (
        (key_strategy(), prop::option::of(varint_value()), prop::option::of((biased_u64((1 << 60) - 1, &[0, 63, 64, (1 << 60) - 1]), any::<bool>(), any::<bool>())), varint_value()),
        (prop_oneof![2 => Just(0u8), 1 => Just(64u8), 2 => 0u8..=64], prop_oneof![1 => Just(0u16), 1 => Just(256u16), 3 => 0u16..=256], any::<u64>(), any::<bool>(), prop_oneof![Just(0u8), 0u8..40]),
    )
        .prop_map(|((key, source_queue_id, stream_id, pn), (header_len, control_len, seed, via_generic, trailing))| ControlSpec { key, source_queue_id, stream_id, pn, header_len, control_len, seed, via_generic, trailing })
}

// ---------------------------------------------------------------------------------------
// secret-control packets

#[derive(Clone, Copy, Debug, Hash, PartialEq, Eq, Serialize, Deserialize)]
pub enum ScKind {
    StaleKey,
    ReplayDetected,
    UnknownPathSecret,
}

#[derive(Clone, Debug, Hash, PartialEq, Eq, Serialize, Deserialize)]
pub struct SecretControlSpec {
    pub secret: [u8; 32],
    pub aes256: bool,
    pub sealer_client: bool,
    pub kind: ScKind,
    pub credential_id: [u8; 16],
    pub queue_id: Option<u64>,
    /// min_key_id / rejected_key_id
    pub value: u64,
    /// stateless-reset token (UnknownPathSecret)
    pub token: [u8; 16],
    /// 0: secret_control::Packet::decode, 1: packet::Packet::decode, 2: the kind's own Packet::decode
    pub via: u8,
    pub trailing: u8,
}

/// encodes a secret-control packet; returns (bytes, packet length)
pub fn encode_secret_control(kind: ScKind, id: Id, queue_id: Option<u64>, value: u64, token: &[u8; 16], sealer: &awslc::seal::control::Secret) -> (Vec<u8>, usize) {
    let mut buf = vec![0u8; secret_control::MAX_PACKET_SIZE];
    let queue_id = queue_id.map(vi);
    let len = match kind {
        ScKind::StaleKey => secret_control::StaleKey { credential_id: id, wire_version: WireVersion::ZERO, queue_id, min_key_id: vi(value) }.encode(EncoderBuffer::new(&mut buf), sealer),
        ScKind::ReplayDetected => secret_control::ReplayDetected { credential_id: id, wire_version: WireVersion::ZERO, queue_id, rejected_key_id: vi(value) }.encode(EncoderBuffer::new(&mut buf), sealer),
        ScKind::UnknownPathSecret => secret_control::UnknownPathSecret { credential_id: id, wire_version: WireVersion::ZERO, queue_id }.encode(EncoderBuffer::new(&mut buf), token),
    };
    (buf, len)
}

/// decode + authenticate; digest covers the decoded value
///
/// `ups`: (credential id, stateless-reset token) of the one path secret the receiver holds. The
/// token of an UnknownPathSecret is bound to the credential id by the receiver's lookup (the
/// map fetches the expected token by the id the packet names), which is modelled here by
/// treating any other id as a lookup miss.
pub fn open_secret_control(buf: &mut [u8], via: u8, opener: &awslc::open::control::Secret, ups: &([u8; 16], [u8; 16])) -> Verdict {
    let (ups_id, token) = ups;
    let total = buf.len();
    let (p, rest) = match via % 3 {
        0 => match secret_control::Packet::decode(DecoderBufferMut::new(buf)) {
            Ok((p, rest)) => (p, rest.len()),
            Err(_) => return Verdict::DecodeErr,
        },
        1 => match packet::Packet::decode_parameterized_mut(16, DecoderBufferMut::new(buf)) {
            Ok((packet::Packet::StaleKey(p), rest)) => (p.into(), rest.len()),
            Ok((packet::Packet::ReplayDetected(p), rest)) => (p.into(), rest.len()),
            Ok((packet::Packet::UnknownPathSecret(p), rest)) => (p.into(), rest.len()),
            _ => return Verdict::DecodeErr,
        },
        _ => {
            let Some(tag) = buf.first().copied() else { return Verdict::DecodeErr };
            match tag & !0b100 {
                0b0110_0000 => match secret_control::unknown_path_secret::Packet::decode(DecoderBufferMut::new(buf)) {
                    Ok((p, rest)) => (p.into(), rest.len()),
                    Err(_) => return Verdict::DecodeErr,
                },
                0b0110_0001 => match secret_control::stale_key::Packet::decode(DecoderBufferMut::new(buf)) {
                    Ok((p, rest)) => (p.into(), rest.len()),
                    Err(_) => return Verdict::DecodeErr,
                },
                0b0110_0010 => match secret_control::replay_detected::Packet::decode(DecoderBufferMut::new(buf)) {
                    Ok((p, rest)) => (p.into(), rest.len()),
                    Err(_) => return Verdict::DecodeErr,
                },
                _ => return Verdict::DecodeErr,
            }
        }
    };
    let digest = match p {
        secret_control::Packet::StaleKey(p) => match p.authenticate(opener) {
            Some(v) => hash_of(&(1u8, v.credential_id.to_vec(), v.wire_version.0, v.queue_id.map(|q| *q), *v.min_key_id)),
            None => return Verdict::Rejected,
        },
        secret_control::Packet::ReplayDetected(p) => match p.authenticate(opener) {
            Some(v) => hash_of(&(2u8, v.credential_id.to_vec(), v.wire_version.0, v.queue_id.map(|q| *q), *v.rejected_key_id)),
            None => return Verdict::Rejected,
        },
        secret_control::Packet::UnknownPathSecret(p) => match p.authenticate(token).filter(|v| *v.credential_id == *ups_id) {
            Some(v) => hash_of(&(3u8, v.credential_id.to_vec(), v.wire_version.0, v.queue_id.map(|q| *q), 0u64)),
            None => return Verdict::Rejected,
        },
    };
    Verdict::Accepted { consumed: total - rest, digest }
}

pub fn sc_digest(s: &SecretControlSpec) -> u64 {
    let k: u8 = match s.kind {
        ScKind::StaleKey => 1,
        ScKind::ReplayDetected => 2,
        ScKind::UnknownPathSecret => 3,
    };
    let value = if s.kind == ScKind::UnknownPathSecret { 0 } else { *vi(s.value) };
    hash_of(&(k, s.credential_id.to_vec(), 0u32, s.queue_id.map(|q| *vi(q)), value))
}

pub fn build_secret_control(s: &SecretControlSpec) -> (Built, awslc::open::control::Secret) {
    let (local, remote) = secret_pair(s.aes256, s.sealer_client, &s.secret);
    let (mut bytes, len) = encode_secret_control(s.kind, Id::from(s.credential_id), s.queue_id, s.value, &s.token, &local.control_sealer());
    let trailing = s.trailing as usize;
    bytes.truncate(len);
    for i in 0..trailing {
        bytes.push(prf_byte(0x7A11 ^ s.value, i as u64));
    }
    (Built { bytes, len, header_len: len - 16, tag_start: len - 16 }, remote.control_opener())
}

pub fn run_roundtrip_secret_control(s: &SecretControlSpec, obs: &mut Obs) -> CaseResult {
    c18_map::warm();
    let (mut b, opener) = build_secret_control(s);
    ensure_that!(b.len <= secret_control::MAX_PACKET_SIZE, "secret_control:encode-length", "encode returned {}", b.len);
    let v = open_secret_control(&mut b.bytes, s.via, &opener, &(s.credential_id, s.token));
    match v {
        Verdict::Accepted { consumed, digest } => {
            ensure_that!(consumed == b.len, "secret_control:consumed-length", "{:?}: encode wrote {} bytes, decode consumed {consumed}", s.kind, b.len);
            ensure_that!(digest == sc_digest(s), "secret_control:field", "{:?}: the decoded and authenticated value differs from what was encoded ({s:?})", s.kind);
        }
        Verdict::DecodeErr => fail!("secret_control:decode-failed", "{:?}: decode of an encoded packet failed ({s:?})", s.kind),
        Verdict::Rejected => fail!("secret_control:authenticate-failed", "{:?}: a genuine packet was not authenticated ({s:?})", s.kind),
    }
    obs.nontrivial(true);
    obs.class(match s.kind {
        ScKind::StaleKey => "stale-key",
        ScKind::ReplayDetected => "replay-detected",
        ScKind::UnknownPathSecret => "unknown-path-secret",
    });
    obs.class_if(s.queue_id.is_some(), "queue-id");
    obs.class_if(s.aes256, "sha384");
    Ok(())
}

pub fn secret_control_strategy() -> impl Strategy<Value = SecretControlSpec> {
    (
        (any::<[u8; 32]>(), any::<bool>(), any::<bool>()),
        prop_oneof![Just(ScKind::StaleKey), Just(ScKind::ReplayDetected), Just(ScKind::UnknownPathSecret)],
        (any::<[u8; 16]>(), prop::option::of(varint_value()), varint_value(), any::<[u8; 16]>()),
        (0u8..3, prop_oneof![Just(0u8), 0u8..40]),
    )
        .prop_map(|((secret, aes256, sealer_client), kind, (credential_id, queue_id, value, token), (via, trailing))| SecretControlSpec { secret, aes256, sealer_client, kind, credential_id, queue_id, value, token, via, trailing })
}

include!("c18_mutate.rs");
