//! C18, map level: forged secret-control / control packets leave a `path::secret::Map`
//! untouched; the genuine packet has exactly its documented effect.

use crate::{
    c18::{self, encode_secret_control, ScKind},
    c19,
    world::*,
};
use proptest::prelude::*;
use s2n_codec::{DecoderBufferMut, DecoderParameterizedValueMut as _, EncoderValue as _};
use s2n_quic_core::{
    dc::{self, Endpoint as _},
    inet,
};
use s2n_quic_dc::{
    credentials::Id,
    packet::{self, secret_control},
};
use serde::{Deserialize, Serialize};
use std::{
    sync::Mutex,
    time::{Duration, Instant},
};
use vcore::{ensure_that, fail, gen::*, CaseResult, Fail, Obs, PropCheck, SubCheck, Tier};

const EVICTION_GUARD: Duration = Duration::from_secs(10);

// ---------------------------------------------------------------------------------------
// case description

#[derive(Clone, Debug, Hash, PartialEq, Eq, Serialize, Deserialize)]
pub enum How {
    /// signed with a secret / token the map does not hold
    WrongKey([u8; 32]),
    /// signed with the key / token of another live entry
    OtherEntryKey(u16),
    /// names a credential id that is not in the map, signed with the target's genuine key
    UnknownId([u8; 16]),
    /// the genuine packet with one byte changed
    Mutate { pos: u16, xor: u8 },
    /// carries the tag of a genuine packet of the same kind with a different value
    TagFromOtherValue(u64),
    /// carries the tag of the other HMAC-signed packet kind with the same fields
    CrossKind,
    /// signed with the map's own sending key (reflection)
    Reflected,
    ZeroTag,
    /// the genuine packet cut short by 1..=16 bytes
    Truncate(u8),
}

#[derive(Clone, Debug, Hash, PartialEq, Eq, Serialize, Deserialize)]
pub enum Step {
    Forged { kind: ScKind, target: u16, queue_id: Option<u64>, value: u64, how: How, via: u8 },
    /// a well-formed stream / datagram / control packet under the target's keys: the map ignores those
    OtherPacket { which: u8, target: u16, seed: u64 },
}

#[derive(Clone, Debug, Hash, PartialEq, Eq, Serialize, Deserialize)]
pub struct Genuine {
    pub kind: ScKind,
    pub target: u16,
    pub queue_id: Option<u64>,
    pub value: u64,
    pub via: u8,
}

#[derive(Clone, Debug, Hash, PartialEq, Eq, Serialize, Deserialize)]
pub struct EntryPlan {
    pub spec: EntrySpec,
    /// ids issued before the packets arrive
    pub pre_issue: u16,
    /// key ids the receiver has processed before (base, offsets)
    pub pre_recv: (u64, Vec<u16>),
}

#[derive(Clone, Debug, Hash, PartialEq, Eq, Serialize, Deserialize)]
pub struct MapCase {
    pub signer: [u8; 32],
    pub evict: bool,
    pub entries: Vec<EntryPlan>,
    pub steps: Vec<Step>,
    pub genuine: Vec<Genuine>,
}

// ---------------------------------------------------------------------------------------
// model of everything a packet could influence

pub struct EntryModel {
    pub alive: bool,
    pub next_id: u64,
    pub recv: c19::Model,
}

pub struct MapModel {
    pub entries: Vec<EntryModel>,
    pub remote_handshakes: usize,
}

fn snapshot_check(tm: &TestMap, m: &MapModel, watch: &[usize], what: &str) -> CaseResult {
    let alive = m.entries.iter().filter(|e| e.alive).count();
    ensure_that!(tm.map.secrets_len() == alive, "map:secrets-len-changed", "{what}: secrets_len() is {}, {alive} path secrets are expected to be live", tm.map.secrets_len());
    ensure_that!(tm.map.peers_len() == alive, "map:peers-len-changed", "{what}: peers_len() is {}, {alive} peers are expected to be live", tm.map.peers_len());
    for &i in watch {
        let te = &tm.entries[i];
        ensure_that!(tm.map.contains(&te.peer) == m.entries[i].alive, "map:contains-changed", "{what}: contains({}) is {}, entry {i} is expected to be {}", te.peer, tm.map.contains(&te.peer), if m.entries[i].alive { "live" } else { "evicted" });
        let mu = *te.entry.receiver().minimum_unseen_key_id();
        ensure_that!(mu == m.entries[i].recv.min_unseen(), "map:receiver-changed", "{what}: entry {i}: receiver minimum_unseen_key_id is {mu}, expected {}", m.entries[i].recv.min_unseen());
    }
    let hs = tm.remote_handshakes().len();
    ensure_that!(hs == m.remote_handshakes, "map:handshake-requested", "{what}: {hs} handshakes have been requested (reason Remote), expected {}", m.remote_handshakes);
    Ok(())
}

/// issues one id from entry `i` and compares it with the model ("the next key id the sender would issue")
fn probe_sender(tm: &TestMap, m: &mut MapModel, i: usize, what: &str) -> CaseResult {
    let got = *tm.entries[i].entry.sender().next_key_id();
    let exp = m.entries[i].next_id;
    m.entries[i].next_id = got.max(exp) + 1;
    ensure_that!(got == exp, "map:sender-key-id-changed", "{what}: entry {i}: the sender issued key id {got}, expected {exp}");
    Ok(())
}

fn probe_receiver(tm: &TestMap, m: &mut MapModel, i: usize, what: &str) -> CaseResult {
    let em = &mut m.entries[i];
    let mut ids: Vec<u64> = em.recv.seen.iter().copied().collect();
    if let Some(max) = em.recv.max {
        ids.extend([max.saturating_sub(896), max.saturating_sub(895), max.saturating_sub(1), (max + 1).min(MAX_VARINT - 1)]);
    } else {
        ids.push(0);
    }
    for (n, id) in ids.into_iter().enumerate() {
        let before = em.recv.max;
        let exp = em.recv.apply(id);
        let got = tm.entries[i].entry.receiver().post_authentication(&s2n_quic_dc::credentials::Credentials { id: tm.entries[i].id, key_id: id.try_into().expect("harness: key id") });
        c19::judge(n, id, exp, got, before).map_err(|f| Fail::new("map:receiver-changed", format!("{what}: entry {i}: replay window differs from the model: {}", f.msg)))?;
    }
    Ok(())
}

// ---------------------------------------------------------------------------------------
// feeding packets

#[derive(Debug, PartialEq, Eq, Clone, Copy)]
enum Fed {
    NotDecodable,
    /// fed; `Some(accepted)` when the entry point reports the outcome
    Done(Option<bool>),
}

fn feed(tm: &TestMap, bytes: &mut [u8], via: u8, from: &std::net::SocketAddr) -> Fed {
    match via % 4 {
        0 => match packet::Packet::decode_parameterized_mut(16, DecoderBufferMut::new(bytes)) {
            Ok((p, _)) => {
                tm.map.handle_unexpected_packet(&p, from);
                Fed::Done(None)
            }
            Err(_) => Fed::NotDecodable,
        },
        1 => match secret_control::Packet::decode(DecoderBufferMut::new(bytes)) {
            Ok((p, _)) => {
                tm.map.handle_control_packet(&p, from);
                Fed::Done(None)
            }
            Err(_) => Fed::NotDecodable,
        },
        2 => match secret_control::Packet::decode(DecoderBufferMut::new(bytes)) {
            Ok((secret_control::Packet::StaleKey(p), _)) => Fed::Done(Some(tm.map.handle_stale_key_packet(&p, from).is_some())),
            Ok((secret_control::Packet::ReplayDetected(p), _)) => Fed::Done(Some(tm.map.handle_replay_detected_packet(&p, from).is_some())),
            Ok((secret_control::Packet::UnknownPathSecret(p), _)) => Fed::Done(Some(tm.map.handle_unknown_path_secret_packet(&p, from).is_some())),
            Err(_) => Fed::NotDecodable,
        },
        _ => {
            let addr: inet::SocketAddress = (*from).into();
            let info = dc::DatagramInfo::new(&addr);
            if tm.map.clone().on_possible_secret_control_packet(&info, bytes) {
                Fed::Done(None)
            } else {
                Fed::NotDecodable
            }
        }
    }
}

fn kind_name(kind: ScKind) -> &'static str {
    match kind {
        ScKind::StaleKey => "stale_key",
        ScKind::ReplayDetected => "replay_detected",
        ScKind::UnknownPathSecret => "unknown_path_secret",
    }
}

fn kind_of_bytes(b: &[u8]) -> Option<ScKind> {
    match b.first()? & !0b100 {
        0b0110_0000 => Some(ScKind::UnknownPathSecret),
        0b0110_0001 => Some(ScKind::StaleKey),
        0b0110_0010 => Some(ScKind::ReplayDetected),
        _ => None,
    }
}

/// builds the forged bytes; `None` if this forgery degenerates into the genuine packet
fn forge(tm: &TestMap, t: usize, kind: ScKind, queue_id: Option<u64>, value: u64, how: &How) -> Option<Vec<u8>> {
    let te = &tm.entries[t];
    let genuine_sealer = te.remote.control_sealer();
    let genuine = |k: ScKind, v: u64| {
        let (mut b, l) = encode_secret_control(k, te.id, queue_id, v, &te.spec.token, &genuine_sealer);
        b.truncate(l);
        b
    };
    let tag_at = |b: &Vec<u8>| b.len() - TAG_LEN;
    Some(match how {
        How::WrongKey(secret) => {
            if *secret == te.spec.secret {
                return None;
            }
            let (_, remote) = secret_pair(te.spec.aes256, te.spec.client, secret);
            let mut token = [0u8; 16];
            token.copy_from_slice(&secret[..16]);
            if token == te.spec.token {
                return None;
            }
            let (mut b, l) = encode_secret_control(kind, te.id, queue_id, value, &token, &remote.control_sealer());
            b.truncate(l);
            b
        }
        How::OtherEntryKey(c) => {
            let o = pick_index(*c, tm.entries.len());
            if o == t || tm.entries[o].spec.token == te.spec.token {
                return None;
            }
            let (mut b, l) = encode_secret_control(kind, te.id, queue_id, value, &tm.entries[o].spec.token, &tm.entries[o].remote.control_sealer());
            b.truncate(l);
            b
        }
        How::UnknownId(id) => {
            if tm.entries.iter().any(|e| *e.id == *id) {
                return None;
            }
            let (mut b, l) = encode_secret_control(kind, Id::from(*id), queue_id, value, &te.spec.token, &genuine_sealer);
            b.truncate(l);
            b
        }
        How::Mutate { pos, xor } => {
            let mut b = genuine(kind, value);
            let mut p = pick_index(*pos, b.len());
            if kind == ScKind::UnknownPathSecret {
                // the queue-id value bits of UnknownPathSecret are judged by ups_queue_id_binding
                if let Some(q) = queue_id {
                    let n = s2n_quic_core::varint::VarInt::new(q.min(MAX_VARINT)).unwrap().encoding_size();
                    if (18..18 + n).contains(&p) {
                        p = tag_at(&b) + (p % TAG_LEN);
                    }
                }
            }
            b[p] ^= (*xor).max(1);
            b
        }
        How::TagFromOtherValue(v2) => {
            if kind == ScKind::UnknownPathSecret || s2n_quic_core::varint::VarInt::new(*v2).ok()? == s2n_quic_core::varint::VarInt::new(value).ok()? {
                return None;
            }
            let mut b = genuine(kind, value);
            let o = genuine(kind, *v2);
            let (tb, to) = (tag_at(&b), tag_at(&o));
            b[tb..].copy_from_slice(&o[to..]);
            b
        }
        How::CrossKind => {
            let other = match kind {
                ScKind::StaleKey => ScKind::ReplayDetected,
                ScKind::ReplayDetected => ScKind::StaleKey,
                // HMAC tag of a StaleKey in place of the stateless-reset token
                ScKind::UnknownPathSecret => ScKind::StaleKey,
            };
            let mut b = genuine(kind, value);
            let o = genuine(other, value);
            let (tb, to) = (tag_at(&b), tag_at(&o));
            b[tb..].copy_from_slice(&o[to..]);
            b
        }
        How::Reflected => {
            if kind == ScKind::UnknownPathSecret {
                // what the map itself would send for this id: its own signer's token
                let mut token = te.spec.token;
                token.reverse();
                if token == te.spec.token {
                    return None;
                }
                let (mut b, l) = encode_secret_control(kind, te.id, queue_id, value, &token, &genuine_sealer);
                b.truncate(l);
                b
            } else {
                let (mut b, l) = encode_secret_control(kind, te.id, queue_id, value, &te.spec.token, &te.entry.control_sealer());
                b.truncate(l);
                b
            }
        }
        How::ZeroTag => {
            if te.spec.token == [0; 16] {
                return None;
            }
            let mut b = genuine(kind, value);
            let t = tag_at(&b);
            b[t..].fill(0);
            b
        }
        How::Truncate(n) => {
            let mut b = genuine(kind, value);
            let cut = (*n as usize % TAG_LEN) + 1;
            b.truncate(b.len() - cut);
            b
        }
    })
}

fn run_forged(tm: &TestMap, m: &mut MapModel, watch: &[usize], idx: usize, step: &Step, targets: &[usize], obs: &mut Obs) -> CaseResult {
    match step {
        Step::Forged { kind, target, queue_id, value, how, via } => {
            let t = targets[pick_index(*target, targets.len())];
            let Some(mut bytes) = forge(tm, t, *kind, *queue_id, *value, how) else {
                return Ok(());
            };
            let names_live = bytes.len() > 17 && tm.entries.iter().enumerate().any(|(i, e)| m.entries[i].alive && bytes[1..17] == e.id[..]);
            let what = format!("step {idx}: forged {kind:?} ({how:?}, value {value}, queue id {queue_id:?}) for entry {t} via entry point {}", via % 4);
            let _ = tm.take_events();
            let from = tm.entries[t].peer;
            let fed = feed(tm, &mut bytes, *via, &from);
            let events = tm.take_events();
            match fed {
                Fed::NotDecodable => {
                    ensure_that!(events.is_empty(), "map:events-for-undecodable", "{what}: the bytes do not decode, but events were emitted: {events:?}");
                    obs.class("forged-undecodable");
                }
                Fed::Done(accepted) => {
                    ensure_that!(accepted != Some(true), "map:forged-packet-accepted", "{what}: the handler returned the packet as authenticated");
                    let k = kind_of_bytes(&bytes).map(kind_name).unwrap_or("?");
                    let received = format!("path_secret_map:{k}_packet_received");
                    let outcome = format!("path_secret_map:{k}_packet_{}", if names_live { "rejected" } else { "dropped" });
                    for e in &events {
                        ensure_that!(!e.ends_with("_accepted"), "map:forged-packet-accepted", "{what}: the subscriber saw {e} (all events: {events:?})");
                        ensure_that!(!e.ends_with("_evicted") && !e.ends_with("handshake_requested"), "map:forged-packet-effect", "{what}: the subscriber saw {e} (all events: {events:?})");
                    }
                    ensure_that!(k == "?" || (events.len() == 2 && events[0] == received && events[1] == outcome), "map:forged-packet-events", "{what}: expected events [{received}, {outcome}], the subscriber saw {events:?}");
                    obs.class_if(names_live, "forged-names-live-entry");
                    obs.class_if(!names_live, "forged-unknown-id");
                    obs.nontrivial(names_live);
                }
            }
            snapshot_check(tm, m, watch, &what)?;
            probe_sender(tm, m, t, &what)?;
            obs.units += 1;
        }
        Step::OtherPacket { which, target, seed } => {
            let t = targets[pick_index(*target, targets.len())];
            let te = &tm.entries[t];
            let key = c18::KeySpec { secret: te.spec.secret, aes256: te.spec.aes256, sealer_client: !te.spec.client, key_id: seed % 1000, bidi: None };
            let k = c18::keys(&key);
            let mut bytes = match which % 3 {
                0 => {
                    let s = c18::StreamSpec { key, source_queue_id: None, queue_id: seed % 64, reliable: seed % 2 == 0, bidirectional: true, pn: seed % 5000, next_ctl: 0, offset: 0, final_offset: None, header_len: 0, control_len: 0, payload_len: (seed % 200) as u32, seed: *seed, probe: false, retransmit: None, buf: c18::BufKind::Ample, scatter: false, in_place: false, via_generic: true, trailing: 0 };
                    c18::build_stream(&s, &k)?.0.bytes
                }
                1 => {
                    let s = c18::DatagramSpec { key, source_control_port: 0, pn: Some(seed % 5000), next_ctl: None, header_len: 0, control_len: 0, payload_len: (seed % 200) as u32, seed: *seed, in_place: false, via_generic: true, trailing: 0 };
                    c18::build_datagram(&s, &k)?.0.bytes
                }
                _ => {
                    let s = c18::ControlSpec { key, source_queue_id: None, stream_id: None, pn: seed % 5000, header_len: 0, control_len: (seed % 100) as u16, seed: *seed, via_generic: true, trailing: 0 };
                    c18::build_control(&s, &k)?.0.bytes
                }
            };
            let what = format!("step {idx}: well-formed non-secret-control packet (kind {}) under entry {t}'s keys via handle_unexpected_packet", which % 3);
            let _ = tm.take_events();
            let from = te.peer;
            let fed = feed(tm, &mut bytes, 0, &from);
            assert_eq!(fed, Fed::Done(None), "harness: own packet decodes");
            let events = tm.take_events();
            for e in &events {
                ensure_that!(!e.ends_with("_accepted") && !e.ends_with("_evicted") && !e.ends_with("handshake_requested"), "map:forged-packet-effect", "{what}: the subscriber saw {e}");
            }
            snapshot_check(tm, m, watch, &what)?;
            probe_sender(tm, m, t, &what)?;
            obs.class("other-packet-kind");
            obs.units += 1;
        }
    }
    Ok(())
}

fn run_genuine(tm: &TestMap, m: &mut MapModel, watch: &[usize], evict_configured: bool, g: &Genuine, targets: &[usize], obs: &mut Obs) -> CaseResult {
    let live: Vec<usize> = targets.iter().copied().filter(|i| m.entries[*i].alive).collect();
    if live.is_empty() {
        return Ok(());
    }
    let t = live[pick_index(g.target, live.len())];
    let te = &tm.entries[t];
    let value = g.value.min(MAX_VARINT - (1 << 40));
    let (mut bytes, l) = encode_secret_control(g.kind, te.id, g.queue_id, value, &te.spec.token, &te.remote.control_sealer());
    bytes.truncate(l);
    let what = format!("genuine {:?} (value {value}, queue id {:?}) for entry {t} via entry point {}", g.kind, g.queue_id, g.via % 4);
    let _ = tm.take_events();
    let _ = tm.rec.take_ups_accepted();
    let age_before = te.entry.age();
    let from = te.peer;
    let fed = feed(tm, &mut bytes, g.via, &from);
    let age_after = te.entry.age();
    let events = tm.take_events();
    let k = kind_name(g.kind);
    match fed {
        Fed::NotDecodable => fail!("map:genuine-not-accepted", "{what}: the genuine packet did not decode"),
        Fed::Done(Some(false)) => fail!("map:genuine-not-accepted", "{what}: the handler did not authenticate the genuine packet (events {events:?})"),
        Fed::Done(_) => {}
    }
    let has = |suffix: &str| events.iter().any(|e| *e == format!("path_secret_map:{k}_packet_{suffix}"));
    ensure_that!(has("received") && has("accepted") && !has("rejected") && !has("dropped"), "map:genuine-not-accepted", "{what}: expected received + accepted events, the subscriber saw {events:?}");
    let hs_event = events.iter().filter(|e| e.ends_with("background_handshake_requested")).count();
    let evicted_events = events.iter().filter(|e| e.ends_with("_evicted")).count();
    match g.kind {
        ScKind::StaleKey => {
            ensure_that!(hs_event == 0 && evicted_events == 0, "map:stale-key-effect", "{what}: unexpected events {events:?}");
            snapshot_check(tm, m, watch, &what)?;
            let got = *te.entry.sender().next_key_id();
            let floor = m.entries[t].next_id.max(value);
            ensure_that!(got >= floor, "map:stale-key-effect", "{what}: afterwards the sender issued key id {got}; it must be at least min_key_id {value} and at least the id {} it would have issued before", m.entries[t].next_id);
            obs.class_if(got == floor, "stale-key-exact");
            obs.class_if(value > m.entries[t].next_id, "stale-key-raises");
            obs.class_if(value <= m.entries[t].next_id, "stale-key-below-current");
            m.entries[t].next_id = got + 1;
        }
        ScKind::ReplayDetected => {
            ensure_that!(evicted_events == 0, "map:replay-detected-effect", "{what}: unexpected eviction, events {events:?}");
            m.remote_handshakes += 1;
            snapshot_check(tm, m, watch, &what)?;
            ensure_that!(tm.remote_handshakes().last() == Some(&te.peer), "map:replay-detected-effect", "{what}: the handshake was requested for {:?}, the entry's peer is {}", tm.remote_handshakes().last(), te.peer);
            probe_sender(tm, m, t, &what)?;
            obs.class("replay-detected-handshake");
        }
        ScKind::UnknownPathSecret => {
            m.remote_handshakes += 1;
            let ups = tm.rec.take_ups_accepted();
            ensure_that!(ups.len() == 1, "map:unknown-path-secret-effect", "{what}: {} accepted events", ups.len());
            let evicted = ups[0].0;
            let must = evict_configured && age_before > EVICTION_GUARD;
            let may = evict_configured && age_after > EVICTION_GUARD;
            ensure_that!(!evicted || may, "map:unknown-path-secret-evicted-too-early", "{what}: the entry was evicted although {} (age {age_after:?})", if evict_configured { "it is younger than 10 s" } else { "evict_on_unknown_path_secret is off" });
            ensure_that!(evicted || !must, "map:unknown-path-secret-not-evicted", "{what}: the entry (age {age_before:?}) was not evicted although evict_on_unknown_path_secret is on");
            ensure_that!(evicted_events == if evicted { 2 } else { 0 }, "map:unknown-path-secret-effect", "{what}: accepted event says evicted={evicted}, eviction events: {events:?}");
            if evicted {
                m.entries[t].alive = false;
                ensure_that!(tm.map.seal_once_id(te.id).is_none(), "map:unknown-path-secret-not-evicted", "{what}: the evicted path secret can still be looked up by id");
                let _ = tm.take_events();
            }
            snapshot_check(tm, m, watch, &what)?;
            ensure_that!(tm.remote_handshakes().last() == Some(&te.peer), "map:unknown-path-secret-effect", "{what}: the handshake was requested for {:?}, the entry's peer is {}", tm.remote_handshakes().last(), te.peer);
            probe_sender(tm, m, t, &what)?;
            obs.class_if(evicted, "ups-evicted");
            obs.class_if(!evicted, "ups-kept");
        }
    }
    obs.units += 1;
    Ok(())
}

// ---------------------------------------------------------------------------------------
// map_forgery: fresh maps

pub fn run_map_case(case: &MapCase, obs: &mut Obs) -> CaseResult {
    warm();
    let mut tm = TestMap::new(&case.signer, case.entries.len().max(1) * 3, case.evict);
    let mut m = MapModel { entries: vec![], remote_handshakes: 0 };
    for plan in &case.entries {
        let Some(i) = tm.insert(&plan.spec) else { continue };
        let te = &tm.entries[i];
        let mut em = EntryModel { alive: true, next_id: 0, recv: c19::Model::default() };
        for _ in 0..plan.pre_issue {
            let id = *te.entry.sender().next_key_id();
            ensure_that!(id == em.next_id, "map:sender-setup", "sender set-up: issued {id}, expected {} (C19 territory)", em.next_id);
            em.next_id += 1;
        }
        for off in &plan.pre_recv.1 {
            let id = plan.pre_recv.0.min(MAX_VARINT - 70_000) + *off as u64;
            let exp = em.recv.apply(id);
            let got = te.entry.receiver().post_authentication(&s2n_quic_dc::credentials::Credentials { id: te.id, key_id: id.try_into().expect("harness: key id") });
            ensure_that!(got.is_ok() == (exp == c19::Expect::Accept), "map:receiver-setup", "receiver set-up: id {id} gave {got:?}, model {exp:?} (C19 territory)");
        }
        m.entries.push(em);
    }
    if tm.entries.is_empty() {
        return Ok(());
    }
    let all: Vec<usize> = (0..tm.entries.len()).collect();
    let _ = tm.take_events();
    snapshot_check(&tm, &m, &all, "after set-up")?;
    for (idx, step) in case.steps.iter().enumerate() {
        run_forged(&tm, &mut m, &all, idx, step, &all, obs)?;
    }
    for i in 0..tm.entries.len() {
        probe_sender(&tm, &mut m, i, "after all forged packets")?;
    }
    for g in &case.genuine {
        run_genuine(&tm, &mut m, &all, case.evict, g, &all, obs)?;
    }
    for i in 0..tm.entries.len() {
        probe_sender(&tm, &mut m, i, "at the end")?;
        probe_receiver(&tm, &mut m, i, "at the end")?;
    }
    obs.class_if(tm.entries.len() >= 4, "entries>=4");
    obs.class_if(case.evict, "evict-configured");
    obs.sample = Some(serde_json::json!({ "entries": tm.entries.len(), "forged": case.steps.len(), "genuine": case.genuine.len() }));
    Ok(())
}

fn how_strategy() -> impl Strategy<Value = How> {
    prop_oneof![
        2 => any::<[u8; 32]>().prop_map(How::WrongKey),
        2 => any::<u16>().prop_map(How::OtherEntryKey),
        1 => any::<[u8; 16]>().prop_map(How::UnknownId),
        5 => (any::<u16>(), 1u8..=255).prop_map(|(pos, xor)| How::Mutate { pos, xor }),
        2 => varint_value().prop_map(How::TagFromOtherValue),
        1 => Just(How::CrossKind),
        1 => Just(How::Reflected),
        1 => Just(How::ZeroTag),
        1 => (0u8..16).prop_map(How::Truncate),
    ]
}

fn kind_strategy() -> impl Strategy<Value = ScKind> {
    prop_oneof![Just(ScKind::StaleKey), Just(ScKind::ReplayDetected), Just(ScKind::UnknownPathSecret)]
}

fn value_strategy() -> impl Strategy<Value = u64> {
    prop_oneof![2 => 0u64..200, 1 => 0u64..100_000, 1 => varint_value()]
}

fn step_strategy() -> impl Strategy<Value = Step> {
    prop_oneof![
        12 => (kind_strategy(), any::<u16>(), prop::option::of(varint_value()), value_strategy(), how_strategy(), 0u8..4)
            .prop_map(|(kind, target, queue_id, value, how, via)| Step::Forged { kind, target, queue_id, value, how, via }),
        1 => (0u8..3, any::<u16>(), any::<u64>()).prop_map(|(which, target, seed)| Step::OtherPacket { which, target, seed }),
    ]
}

fn genuine_strategy() -> impl Strategy<Value = Genuine> {
    (kind_strategy(), any::<u16>(), prop::option::of(varint_value()), value_strategy(), 0u8..4).prop_map(|(kind, target, queue_id, value, via)| Genuine { kind, target, queue_id, value, via })
}

fn map_case_strategy(_t: Tier) -> impl Strategy<Value = MapCase> {
    let entry = (c19::entry_spec_strategy(), prop_oneof![Just(0u16), 0u16..300], (varint_value(), prop::collection::vec(0u16..2000, 0..12))).prop_map(|(spec, pre_issue, pre_recv)| EntryPlan { spec, pre_issue, pre_recv });
    (
        any::<[u8; 32]>(),
        any::<bool>(),
        prop::collection::vec(entry, 1..=8),
        prop::collection::vec(step_strategy(), 1..40),
        prop::collection::vec(genuine_strategy(), 1..=3),
    )
        .prop_map(|(signer, evict, entries, steps, genuine)| MapCase { signer, evict, entries, steps, genuine })
}

// ---------------------------------------------------------------------------------------
// map_aged: entries older than the 10 s eviction guard

const POOL_ENTRIES: usize = 256;

struct Pool {
    maps: [(TestMap, MapModel, usize); 2],
    created: Instant,
}

static POOL: Mutex<Option<Pool>> = Mutex::new(None);

fn build_pool(generation: u64) -> Pool {
    let mk = |evict: bool| {
        let mut tm = TestMap::new(&[0xA9; 32], POOL_ENTRIES * 3, evict);
        let mut m = MapModel { entries: vec![], remote_handshakes: 0 };
        let mut n = 0u64;
        while tm.entries.len() < POOL_ENTRIES {
            let mut secret = [0u8; 32];
            prf_fill(0xA6ED ^ generation ^ (evict as u64) << 40, n * 64, &mut secret);
            let mut token = [0u8; 16];
            prf_fill(0x70CE ^ generation, n * 64, &mut token);
            n += 1;
            let spec = EntrySpec { secret, aes256: n % 2 == 0, client: n % 3 != 0, token };
            if tm.insert(&spec).is_some() {
                m.entries.push(EntryModel { alive: true, next_id: 0, recv: c19::Model::default() });
            }
        }
        let _ = tm.take_events();
        (tm, m, 0usize)
    };
    Pool { maps: [mk(false), mk(true)], created: Instant::now() }
}

/// Called at the start of every C18 oracle: creates the pool of map entries that `map_aged`
/// uses once they are older than the eviction guard, so that the wait overlaps with the
/// other sub-checks.
pub fn warm() {
    let mut g = POOL.lock().unwrap_or_else(|e| e.into_inner());
    if g.is_none() {
        *g = Some(build_pool(0));
    }
}

#[derive(Clone, Debug, Hash, PartialEq, Eq, Serialize, Deserialize)]
pub struct AgedCase {
    pub evict: bool,
    pub steps: Vec<Step>,
    pub via: u8,
    pub queue_id: Option<u64>,
}

pub fn run_aged_case(case: &AgedCase, obs: &mut Obs) -> CaseResult {
    warm();
    let mut g = POOL.lock().unwrap_or_else(|e| e.into_inner());
    let which = case.evict as usize;
    if g.as_ref().unwrap().maps[which].2 + 2 > POOL_ENTRIES {
        // pool used up (long shrink runs): a new generation, which has to age again
        let gen = g.as_ref().unwrap().created.elapsed().as_nanos() as u64 | 1;
        *g = Some(build_pool(gen));
    }
    let pool = g.as_mut().unwrap();
    let (tm, m, next) = &mut pool.maps[which];
    let t = *next;
    *next += 1;
    // the entry under test, one not-yet-used neighbour and the last entry are watched
    let mut watch = vec![t, t + 1, POOL_ENTRIES - 1];
    watch.dedup();
    let age = tm.entries[t].entry.age();
    if age <= EVICTION_GUARD {
        std::thread::sleep(EVICTION_GUARD - age + Duration::from_millis(20));
    }
    assert!(tm.entries[t].entry.age() > EVICTION_GUARD, "harness: entry is aged");
    let _ = tm.take_events();
    let r = aged_body(tm, m, &watch, t, case, obs);
    if r.is_err() {
        // the map is shared with the following cases (and shrink re-runs): bring the model
        // back in line with whatever the failing case did to it
        for (i, te) in tm.entries.iter().enumerate() {
            m.entries[i].alive = tm.map.contains(&te.peer);
        }
        m.remote_handshakes = tm.remote_handshakes().len();
        for &i in &watch {
            m.entries[i].next_id = *tm.entries[i].entry.sender().next_key_id() + 1;
        }
        let _ = tm.take_events();
    }
    r
}

fn aged_body(tm: &TestMap, m: &mut MapModel, watch: &[usize], t: usize, case: &AgedCase, obs: &mut Obs) -> CaseResult {
    snapshot_check(tm, m, watch, "before the aged case")?;
    let targets = [t];
    for (idx, step) in case.steps.iter().enumerate() {
        run_forged(tm, m, watch, idx, step, &targets, obs)?;
    }
    let genuine = Genuine { kind: ScKind::UnknownPathSecret, target: 0, queue_id: case.queue_id, value: 0, via: case.via };
    run_genuine(tm, m, watch, case.evict, &genuine, &targets, obs)?;
    ensure_that!(m.entries[t].alive != case.evict, "map:unknown-path-secret-not-evicted", "aged entry {t}: evict_on_unknown_path_secret={} but the entry is {}", case.evict, if m.entries[t].alive { "still live" } else { "gone" });
    // a forged packet after the eviction finds nothing
    if case.evict {
        run_forged(tm, m, watch, usize::MAX, &Step::Forged { kind: ScKind::UnknownPathSecret, target: 0, queue_id: case.queue_id, value: 0, how: How::Mutate { pos: 65535, xor: 1 }, via: case.via }, &targets, obs).map_err(|f| Fail::new(f.key, format!("after the eviction: {}", f.msg)))?;
    }
    obs.class("aged>10s");
    obs.class_if(case.evict, "evict-configured");
    Ok(())
}

fn aged_strategy(_t: Tier) -> impl Strategy<Value = AgedCase> {
    let ups_step = (prop::option::of(varint_value()), how_strategy(), 0u8..4).prop_map(|(queue_id, how, via)| Step::Forged { kind: ScKind::UnknownPathSecret, target: 0, queue_id, value: 0, how, via });
    (any::<bool>(), prop::collection::vec(prop_oneof![3 => ups_step, 1 => step_strategy()], 1..12), 0u8..4, prop::option::of(varint_value())).prop_map(|(evict, steps, via, queue_id)| AgedCase { evict, steps, via, queue_id })
}

pub fn subs() -> Vec<Box<dyn SubCheck>> {
    vec![
        Box::new(PropCheck::<MapCase, _> { name: "map_forgery", cases: |t| t.pick(80_000, 2_000_000), strategy: map_case_strategy, oracle: run_map_case, max_shrink_iters: 2_000 }),
        Box::new(PropCheck::<AgedCase, _> { name: "map_aged", cases: |t| t.pick(16 * 40, 16 * 400), strategy: aged_strategy, oracle: run_aged_case, max_shrink_iters: 40 }),
    ]
}
