// (included into c18.rs) mutation engine, decoder totality, registry

#[derive(Clone, Debug, Hash, PartialEq, Eq, Serialize, Deserialize)]
pub struct MutPlan {
    pub seed: u64,
    /// multi-byte mutations: lists of (position choice, xor value)
    pub multi: Vec<Vec<(u16, u8)>>,
    /// extra truncation lengths (all prefixes are tried for packets <= 512 bytes)
    pub trunc: Vec<u16>,
}

fn plan_strategy() -> impl Strategy<Value = MutPlan> {
    (
        any::<u64>(),
        prop::collection::vec(prop::collection::vec((any::<u16>(), 1u8..=255), 2..8), 0..6),
        prop::collection::vec(any::<u16>(), 0..6),
    )
        .prop_map(|(seed, multi, trunc)| MutPlan { seed, multi, trunc })
}

#[derive(Default)]
pub struct MutStats {
    pub tried: u64,
    pub decode_rejects: u64,
    pub crypto_rejects: u64,
    pub exempt: u64,
}

/// `canon(bytes)` maps a packet to the bytes that are claimed to be authenticated: two byte
/// strings with equal canon (within the packet length) are "the same packet" and may both pass.
pub fn mutate_all(
    kind: &'static str,
    b: &Built,
    plan: &MutPlan,
    open: &mut dyn FnMut(&mut [u8]) -> Verdict,
    canon: &dyn Fn(&mut [u8]),
) -> Result<MutStats, Fail> {
    let mut st = MutStats::default();
    let base = {
        let mut copy = b.bytes.clone();
        open(&mut copy)
    };
    let Verdict::Accepted { consumed, digest } = base else {
        return Err(Fail::new(format!("{kind}:genuine-not-accepted"), format!("the unmodified packet was not accepted: {base:?}")));
    };
    if consumed != b.len {
        return Err(Fail::new(format!("{kind}:consumed-length"), format!("encode wrote {} bytes, the decoder consumed {consumed}", b.len)));
    }
    let canon_of = |bytes: &[u8]| -> Vec<u8> {
        let mut c = bytes[..b.len].to_vec();
        canon(&mut c);
        c
    };
    let base_canon = canon_of(&b.bytes);
    let mut judge = |what: String, copy: &mut Vec<u8>, st: &mut MutStats| -> Result<(), Fail> {
        st.tried += 1;
        let same_packet = copy.len() >= b.len && canon_of(copy) == base_canon;
        let only_trailing = copy.len() >= b.len && copy[..b.len] == b.bytes[..b.len];
        let v = open(copy);
        if same_packet && !only_trailing {
            // the change is confined to bits that a dedicated sub-check judges
            st.exempt += 1;
            return Ok(());
        }
        if only_trailing {
            // only bytes outside the packet changed
            st.exempt += 1;
            return match v {
                Verdict::Accepted { consumed: c, digest: d } if c == b.len && d == digest => Ok(()),
                other => Err(Fail::new(format!("{kind}:trailing-bytes-matter"), format!("{what}: only bytes outside the packet changed but the result became {other:?}"))),
            };
        }
        match v {
            Verdict::DecodeErr => st.decode_rejects += 1,
            Verdict::Rejected => st.crypto_rejects += 1,
            Verdict::Accepted { .. } => {
                return Err(Fail::new(format!("{kind}:mutation-accepted"), format!("{what}: the modified packet was decoded and authenticated (packet length {}, header {}, tag at {})", b.len, b.header_len, b.tag_start)));
            }
        }
        Ok(())
    };

    // (a) every single-byte position x 3 replacement values
    for pos in 0..b.bytes.len() {
        let old = b.bytes[pos];
        let bit = 1u8 << (prf_byte(plan.seed, pos as u64) % 8);
        let mut vals = [old ^ bit, old ^ 0xff, old.wrapping_add(1)];
        if vals[2] == vals[0] {
            vals[2] = old.wrapping_sub(1);
        }
        for new in vals {
            let mut copy = b.bytes.clone();
            copy[pos] = new;
            judge(format!("byte {pos} ({}) {old:#04x} -> {new:#04x}", b.region(pos)), &mut copy, &mut st)?;
        }
    }
    // (b) multi-byte mutations
    for (i, list) in plan.multi.iter().enumerate() {
        let mut copy = b.bytes.clone();
        let mut desc = vec![];
        for (c, x) in list {
            let pos = pick_index(*c, b.len);
            copy[pos] ^= *x;
            desc.push((pos, *x));
        }
        judge(format!("multi-byte mutation #{i} (pos, xor) {desc:?}"), &mut copy, &mut st)?;
    }
    // (c) truncations
    let mut lens: Vec<usize> = if b.len <= 512 { (0..b.len).collect() } else { vec![0, 1, 16, 17, b.header_len.saturating_sub(1), b.header_len, b.header_len + 1, b.tag_start, b.tag_start + 1, b.len - 1] };
    lens.extend(plan.trunc.iter().map(|c| pick_index(*c, b.len)));
    for l in lens {
        if l >= b.len {
            continue;
        }
        let mut copy = b.bytes[..l].to_vec();
        judge(format!("truncation to {l} bytes"), &mut copy, &mut st)?;
    }
    Ok(st)
}

fn finish_mut(obs: &mut Obs, st: &MutStats, len: usize) {
    obs.units = st.tried;
    obs.nontrivial(st.crypto_rejects > 0);
    obs.class_if(st.crypto_rejects > 0, "rejected-by-crypto");
    obs.class_if(st.decode_rejects > 0, "rejected-by-decoder");
    obs.class_if(len > 600, "packet>600B");
    obs.sample = Some(serde_json::json!({ "packet_len": len, "mutants": st.tried, "crypto_rejects": st.crypto_rejects, "decode_rejects": st.decode_rejects }));
}

/// swaps the 16-byte tags of two packets; neither may be accepted afterwards unless the two
/// packets are byte-identical
fn tag_swap(kind: &'static str, a: &Built, c: &Built, open: &mut dyn FnMut(&mut [u8]) -> Verdict) -> CaseResult {
    if a.bytes[..a.tag_start] == c.bytes[..c.tag_start] {
        return Ok(());
    }
    let mut x = a.bytes[..a.len].to_vec();
    let mut y = c.bytes[..c.len].to_vec();
    let (ta, tc) = (x[a.tag_start..].to_vec(), y[c.tag_start..].to_vec());
    x[a.tag_start..].copy_from_slice(&tc);
    y[c.tag_start..].copy_from_slice(&ta);
    for (n, p) in [("first", &mut x), ("second", &mut y)] {
        if let Verdict::Accepted { .. } = open(p) {
            return Err(Fail::new(format!("{kind}:tag-swap-accepted"), format!("the {n} of two different packets was accepted with the other packet's tag")));
        }
    }
    Ok(())
}

// ---- stream ---------------------------------------------------------------------------

pub fn run_mutations_stream(case: &(StreamSpec, MutPlan), obs: &mut Obs) -> CaseResult {
    c18_map::warm();
    let (s, plan) = case;
    let k = keys(&s.key);
    let (b, e) = build_stream(s, &k)?;
    let retrans = e.rel > 0;
    let mut open = |buf: &mut [u8]| open_stream(buf, &k, s.in_place, s.via_generic);
    // the space bit of a *retransmitted* packet is the subject of `stream_retransmit_space_binding`
    let canon = |c: &mut [u8]| {
        if retrans {
            c[0] &= !stream::Tag::IS_RECOVERY_PACKET;
        }
    };
    let st = mutate_all("stream", &b, plan, &mut open, &canon)?;
    // tag swap with a sibling packet (next packet number, same keys)
    let mut s2 = s.clone();
    s2.pn = if s.pn < MAX_VARINT - (1 << 33) { s.pn + 1 } else { s.pn - 1 };
    let (b2, _) = build_stream(&s2, &k)?;
    tag_swap("stream", &b, &b2, &mut open)?;
    // the same packet under the neighbouring key id must not open
    let mut ks = s.key.clone();
    ks.key_id = if ks.key_id > 0 { ks.key_id - 1 } else { 1 };
    let k2 = keys(&ks);
    let mut copy = b.bytes.clone();
    ensure_that!(!matches!(open_stream(&mut copy, &k2, s.in_place, s.via_generic), Verdict::Accepted { .. }), "stream:wrong-key-accepted", "a packet sealed for key id {} was accepted with the keys of key id {}", s.key.key_id, ks.key_id);
    finish_mut(obs, &st, b.len);
    obs.class_if(retrans, "retransmitted");
    obs.class_if(s.probe, "probe");
    Ok(())
}

pub fn run_retransmit_space(s: &StreamSpec, obs: &mut Obs) -> CaseResult {
    c18_map::warm();
    let mut s = s.clone();
    s.reliable = true;
    s.probe = false;
    if s.retransmit.is_none_or(|(r, _)| r == 0) {
        s.retransmit = Some((1, s.scatter));
    }
    s.pn = s.pn.min(MAX_VARINT - (1 << 33));
    let k = keys(&s.key);
    let (b, e) = build_stream(&s, &k)?;
    assert!(e.rel > 0, "harness: packet is retransmitted");
    let mut copy = b.bytes.clone();
    copy[0] ^= stream::Tag::IS_RECOVERY_PACKET;
    let v = open_stream(&mut copy, &k, s.in_place, s.via_generic);
    ensure_that!(
        !matches!(v, Verdict::Accepted { .. }),
        "stream:retransmission-space-bit-unauthenticated",
        "retransmitted stream packet (original pn {}, retransmission pn {}, sent in the {} space): flipping the packet-space bit (0x10) of byte 0 still decodes and decrypts; tag().packet_space() now reports the other space, which selects the ACK space on the receiver",
        e.pn,
        e.pn + e.rel as u64,
        if e.space_recovery { "recovery" } else { "stream" }
    );
    obs.nontrivial(true);
    Ok(())
}

// ---- datagram -------------------------------------------------------------------------

pub fn run_mutations_datagram(case: &(DatagramSpec, MutPlan), obs: &mut Obs) -> CaseResult {
    c18_map::warm();
    let (s, plan) = case;
    let k = keys(&s.key);
    let (b, _) = build_datagram(s, &k)?;
    let mut open = |buf: &mut [u8]| open_datagram(buf, &k, s.in_place, s.via_generic);
    let st = mutate_all("datagram", &b, plan, &mut open, &|_| {})?;
    let mut s2 = s.clone();
    s2.seed ^= 1;
    s2.source_control_port ^= 1;
    let (b2, _) = build_datagram(&s2, &k)?;
    if b2.len == b.len {
        tag_swap("datagram", &b, &b2, &mut open)?;
    }
    finish_mut(obs, &st, b.len);
    Ok(())
}

// ---- control --------------------------------------------------------------------------

pub fn run_mutations_control(case: &(ControlSpec, MutPlan), obs: &mut Obs) -> CaseResult {
    c18_map::warm();
    let (s, plan) = case;
    let k = keys(&s.key);
    let (b, _) = build_control(s, &k)?;
    let mut open = |buf: &mut [u8]| open_control(buf, &k, s.via_generic);
    let st = mutate_all("control", &b, plan, &mut open, &|_| {})?;
    let mut s2 = s.clone();
    s2.pn = if s.pn > 0 { s.pn - 1 } else { 1 };
    let (b2, _) = build_control(&s2, &k)?;
    tag_swap("control", &b, &b2, &mut open)?;
    finish_mut(obs, &st, b.len);
    Ok(())
}

// ---- secret control -------------------------------------------------------------------

/// byte range of the queue-id varint of a secret-control packet
fn sc_queue_range(s: &SecretControlSpec) -> Option<std::ops::Range<usize>> {
    s.queue_id.map(|q| {
        let n = vi(q).encoding_size();
        18..18 + n
    })
}

pub fn run_mutations_secret_control(case: &(SecretControlSpec, MutPlan), obs: &mut Obs) -> CaseResult {
    c18_map::warm();
    let (s, plan) = case;
    let (b, opener) = build_secret_control(s);
    let mut open = |buf: &mut [u8]| open_secret_control(buf, s.via, &opener, &(s.credential_id, s.token));
    // The value bits of an UnknownPathSecret's queue id are the subject of `ups_queue_id_binding`
    // (the packet's tag is the bare stateless-reset token).
    let qr = if s.kind == ScKind::UnknownPathSecret { sc_queue_range(s) } else { None };
    let canon = |c: &mut [u8]| {
        if let Some(r) = &qr {
            c[r.start] &= 0xC0;
            for b in &mut c[r.start + 1..r.end] {
                *b = 0;
            }
        }
    };
    let st = mutate_all("secret_control", &b, plan, &mut open, &canon)?;
    // tag of a sibling with a different value / different kind
    let mut s2 = s.clone();
    s2.value = if s.value > 0 { s.value - 1 } else { 1 };
    if s.kind == ScKind::UnknownPathSecret {
        s2.credential_id[15] ^= 1;
        s2.token[0] ^= 1;
    }
    let (b2, _) = build_secret_control(&s2);
    if b2.len == b.len {
        tag_swap("secret_control", &b, &b2, &mut open)?;
    }
    if s.kind != ScKind::UnknownPathSecret {
        let mut s3 = s.clone();
        s3.kind = if s.kind == ScKind::StaleKey { ScKind::ReplayDetected } else { ScKind::StaleKey };
        let (b3, _) = build_secret_control(&s3);
        // same fields, other packet type: graft the other type's tag onto this packet
        let mut x = b.bytes[..b.len].to_vec();
        x[b.tag_start..].copy_from_slice(&b3.bytes[b3.tag_start..b3.len]);
        ensure_that!(!matches!(open(&mut x), Verdict::Accepted { .. }), "secret_control:cross-type-tag-accepted", "{:?} accepted with the tag of a {:?} packet carrying the same fields", s.kind, s3.kind);
        // and the reflected direction: signed with the receiver's own sending key
        let (local, remote) = secret_pair(s.aes256, s.sealer_client, &s.secret);
        let _ = local;
        let (mut y, l) = encode_secret_control(s.kind, Id::from(s.credential_id), s.queue_id, s.value, &s.token, &remote.control_sealer());
        ensure_that!(!matches!(open(&mut y[..l]), Verdict::Accepted { .. }), "secret_control:reflected-accepted", "{:?} signed with the receiving side's own control key was accepted", s.kind);
    }
    finish_mut(obs, &st, b.len);
    obs.class(match s.kind {
        ScKind::StaleKey => "stale-key",
        ScKind::ReplayDetected => "replay-detected",
        ScKind::UnknownPathSecret => "unknown-path-secret",
    });
    Ok(())
}

pub fn run_ups_queue_id(case: &(SecretControlSpec, u64), obs: &mut Obs) -> CaseResult {
    c18_map::warm();
    let (s, other) = case;
    let mut s = s.clone();
    s.kind = ScKind::UnknownPathSecret;
    let q = s.queue_id.unwrap_or(7);
    s.queue_id = Some(q);
    // another queue id with the same encoded length
    let n = vi(q).encoding_size();
    let (lo, hi) = match n {
        1 => (0u64, 63),
        2 => (64, 16383),
        4 => (16384, (1 << 30) - 1),
        _ => (1 << 30, MAX_VARINT),
    };
    let mut q2 = lo + other % (hi - lo + 1);
    if q2 == *vi(q) {
        q2 = if q2 == hi { lo } else { q2 + 1 };
    }
    let (b, opener) = build_secret_control(&s);
    let mut s2 = s.clone();
    s2.queue_id = Some(q2);
    let (b2, _) = build_secret_control(&s2);
    assert_eq!(b.len, b2.len, "harness: same length");
    // forged = packet for queue id q2 carrying the tag seen on the genuine packet (they are equal anyway: the token)
    let mut forged = b.bytes[..b.len].to_vec();
    forged[18..18 + n].copy_from_slice(&b2.bytes[18..18 + n]);
    let v = open_secret_control(&mut forged, s.via, &opener, &(s.credential_id, s.token));
    ensure_that!(
        !matches!(v, Verdict::Accepted { .. }),
        "ups:queue-id-unauthenticated",
        "UnknownPathSecret for credential {:02x?} with queue id {q}: rewriting the queue-id bytes to {q2} (tag untouched) is still authenticated, the header is not covered by the stateless-reset tag",
        s.credential_id
    );
    obs.nontrivial(true);
    Ok(())
}

// ---- decoder totality -----------------------------------------------------------------

#[derive(Clone, Debug, Hash, PartialEq, Eq, Serialize, Deserialize)]
pub enum Chunkish {
    Bytes(Vec<u8>),
    /// a QUIC varint of the given value in the smallest or a chosen (non-minimal) width
    Var(u64, u8),
    Id([u8; 16]),
    Zeros(u8),
}

#[derive(Clone, Debug, Hash, PartialEq, Eq, Serialize, Deserialize)]
pub enum Fuzz {
    Raw(Vec<u8>),
    Tagged { tag: u8, body: Vec<Chunkish> },
}

fn put_var(out: &mut Vec<u8>, v: u64, width: u8) {
    let v = v & MAX_VARINT;
    let min = vi(v).encoding_size();
    let w = [1usize, 2, 4, 8][(width % 4) as usize].max(min);
    match w {
        1 => out.push(v as u8),
        2 => out.extend_from_slice(&((v as u16) | 0x4000).to_be_bytes()),
        4 => out.extend_from_slice(&((v as u32) | 0x8000_0000).to_be_bytes()),
        _ => out.extend_from_slice(&(v | 0xC000_0000_0000_0000).to_be_bytes()),
    }
}

pub fn fuzz_bytes(f: &Fuzz) -> Vec<u8> {
    match f {
        Fuzz::Raw(v) => v.clone(),
        Fuzz::Tagged { tag, body } => {
            let mut out = vec![*tag];
            for c in body {
                match c {
                    Chunkish::Bytes(b) => out.extend_from_slice(b),
                    Chunkish::Var(v, w) => put_var(&mut out, *v, *w),
                    Chunkish::Id(id) => out.extend_from_slice(id),
                    Chunkish::Zeros(n) => out.extend(std::iter::repeat_n(0u8, *n as usize)),
                }
            }
            out
        }
    }
}

pub fn run_decoder_total(f: &Fuzz, obs: &mut Obs) -> CaseResult {
    c18_map::warm();
    let bytes = fuzz_bytes(f);
    let ks = KeySpec { secret: [0x42; 32], aes256: bytes.len() % 2 == 0, sealer_client: true, key_id: 5, bidi: None };
    let k = keys(&ks);
    let sc_open = k.remote.control_opener();
    let mut decoded = false;
    {
        let mut b = bytes.clone();
        match packet::Packet::decode_parameterized_mut(16, DecoderBufferMut::new(&mut b)) {
            Ok((p, rest)) => {
                decoded = true;
                let _ = rest.len();
                let _ = format!("{p:?}");
                match p {
                    packet::Packet::Stream(mut p) => {
                        obs.class("decoded-stream");
                        let _ = (p.is_fin(), p.application_header().len(), p.control_data().len(), p.total_len(), p.is_retransmission());
                        for fr in p.control_frames_mut() {
                            if fr.is_err() {
                                break;
                            }
                        }
                        let mut out = vec![0u8; p.payload().len()];
                        let r = p.decrypt(&k.app_open, &k.ctl_open, UninitSlice::new(&mut out));
                        ensure_that!(r.is_err(), "decoder_total:garbage-authenticated", "generated bytes were authenticated as a stream packet");
                    }
                    packet::Packet::Datagram(mut p) => {
                        obs.class("decoded-datagram");
                        let _ = (p.application_header().len(), p.control_data().len(), p.wire_len());
                        ensure_that!(decrypt_datagram(&mut p, &k, true).is_err(), "decoder_total:garbage-authenticated", "generated bytes were authenticated as a datagram packet");
                    }
                    packet::Packet::Control(mut p) => {
                        obs.class("decoded-control");
                        let _ = (p.application_header().len(), p.control_data().len(), p.total_len());
                        ensure_that!(k.ctl_open.verify(p.header(), p.auth_tag()).is_err(), "decoder_total:garbage-authenticated", "generated bytes were authenticated as a control packet");
                        for fr in p.control_frames_mut() {
                            if fr.is_err() {
                                break;
                            }
                        }
                    }
                    packet::Packet::StaleKey(p) => {
                        obs.class("decoded-secret-control");
                        ensure_that!(p.authenticate(&sc_open).is_none(), "decoder_total:garbage-authenticated", "generated bytes were authenticated as StaleKey");
                    }
                    packet::Packet::ReplayDetected(p) => {
                        obs.class("decoded-secret-control");
                        ensure_that!(p.authenticate(&sc_open).is_none(), "decoder_total:garbage-authenticated", "generated bytes were authenticated as ReplayDetected");
                    }
                    packet::Packet::UnknownPathSecret(p) => {
                        obs.class("decoded-secret-control");
                        let _ = (p.credential_id(), p.queue_id());
                        ensure_that!(p.authenticate(&[0x5A; 16]).is_none(), "decoder_total:garbage-authenticated", "generated bytes were authenticated as UnknownPathSecret");
                    }
                }
            }
            Err(_) => {}
        }
    }
    {
        let mut b = bytes.clone();
        if let Ok((p, _)) = secret_control::Packet::decode(DecoderBufferMut::new(&mut b)) {
            let _ = (p.credential_id(), p.queue_id());
        }
    }
    {
        // in-place path of the stream decoder
        let mut b = bytes.clone();
        if let Ok((mut p, _)) = stream::decoder::Packet::decode(DecoderBufferMut::new(&mut b), (), 16) {
            ensure_that!(p.decrypt_in_place(&k.app_open, &k.ctl_open).is_err(), "decoder_total:garbage-authenticated", "generated bytes were authenticated as a stream packet (in place)");
        }
    }
    obs.nontrivial(decoded);
    obs.class_if(!decoded, "decode-error");
    Ok(())
}

fn fuzz_strategy(_t: Tier) -> impl Strategy<Value = Fuzz> {
    let tag = prop_oneof![
        4 => 0u8..=0x3f,
        2 => 0x40u8..=0x4f,
        2 => 0x50u8..=0x5f,
        3 => prop_oneof![Just(0x60u8), Just(0x61), Just(0x62), Just(0x64), Just(0x65), Just(0x66)],
        1 => any::<u8>(),
    ];
    let chunk = prop_oneof![
        3 => (prop_oneof![0u64..70, 0u64..2000, varint_value(), any::<u64>()], 0u8..4).prop_map(|(v, w)| Chunkish::Var(v, w)),
        2 => prop::collection::vec(any::<u8>(), 0..24).prop_map(Chunkish::Bytes),
        1 => any::<[u8; 16]>().prop_map(Chunkish::Id),
        1 => (0u8..40).prop_map(Chunkish::Zeros),
    ];
    let body = (any::<[u8; 16]>(), prop::collection::vec(chunk, 0..24)).prop_map(|(id, mut v)| {
        // most packets start with a 16-byte credential id followed by varints
        v.insert(0, Chunkish::Id(id));
        v
    });
    prop_oneof![
        1 => prop::collection::vec(any::<u8>(), 0..200).prop_map(Fuzz::Raw),
        5 => (tag, body).prop_map(|(tag, body)| Fuzz::Tagged { tag, body }),
    ]
}

// ---------------------------------------------------------------------------------------
// registry

fn mut_stream_strategy(_t: Tier) -> impl Strategy<Value = (StreamSpec, MutPlan)> {
    (stream_strategy(1500), plan_strategy()).prop_map(|(mut s, p)| {
        s.buf = BufKind::Ample;
        if s.payload_len > 320 && p.seed % 8 != 0 {
            s.payload_len %= 320;
        }
        s.trailing = s.trailing.min(4);
        (s, p)
    })
}

fn mut_datagram_strategy(_t: Tier) -> impl Strategy<Value = (DatagramSpec, MutPlan)> {
    (datagram_strategy(1500), plan_strategy()).prop_map(|(mut s, p)| {
        if s.payload_len > 320 && p.seed % 8 != 0 {
            s.payload_len %= 320;
        }
        s.trailing = s.trailing.min(4);
        (s, p)
    })
}

pub fn subs() -> Vec<Box<dyn SubCheck>> {
    let mut v: Vec<Box<dyn SubCheck>> = vec![
        Box::new(PropCheck::<StreamSpec, _> { name: "roundtrip_stream", cases: |t| t.pick(300_000, 6_000_000), strategy: |_| stream_strategy(32 * 1024), oracle: run_roundtrip_stream, max_shrink_iters: 5_000 }),
        Box::new(PropCheck::<DatagramSpec, _> { name: "roundtrip_datagram", cases: |t| t.pick(200_000, 4_000_000), strategy: |_| datagram_strategy(32 * 1024), oracle: run_roundtrip_datagram, max_shrink_iters: 5_000 }),
        Box::new(PropCheck::<ControlSpec, _> { name: "roundtrip_control", cases: |t| t.pick(200_000, 4_000_000), strategy: |_| control_strategy(), oracle: run_roundtrip_control, max_shrink_iters: 5_000 }),
        Box::new(PropCheck::<SecretControlSpec, _> { name: "roundtrip_secret_control", cases: |t| t.pick(300_000, 6_000_000), strategy: |_| secret_control_strategy(), oracle: run_roundtrip_secret_control, max_shrink_iters: 5_000 }),
        Box::new(PropCheck::<(StreamSpec, MutPlan), _> { name: "mutations_stream", cases: |t| t.pick(40_000, 1_000_000), strategy: mut_stream_strategy, oracle: run_mutations_stream, max_shrink_iters: 600 }),
        Box::new(PropCheck::<(DatagramSpec, MutPlan), _> { name: "mutations_datagram", cases: |t| t.pick(25_000, 600_000), strategy: mut_datagram_strategy, oracle: run_mutations_datagram, max_shrink_iters: 600 }),
        Box::new(PropCheck::<(ControlSpec, MutPlan), _> { name: "mutations_control", cases: |t| t.pick(25_000, 600_000), strategy: |_| (control_strategy(), plan_strategy()), oracle: run_mutations_control, max_shrink_iters: 600 }),
        Box::new(PropCheck::<(SecretControlSpec, MutPlan), _> { name: "mutations_secret_control", cases: |t| t.pick(60_000, 1_500_000), strategy: |_| (secret_control_strategy(), plan_strategy()), oracle: run_mutations_secret_control, max_shrink_iters: 600 }),
        Box::new(PropCheck::<StreamSpec, _> { name: "stream_retransmit_space_binding", cases: |t| t.pick(2_000, 50_000), strategy: |_| stream_strategy(600), oracle: run_retransmit_space, max_shrink_iters: 2_000 }),
        Box::new(PropCheck::<(SecretControlSpec, u64), _> { name: "ups_queue_id_binding", cases: |t| t.pick(2_000, 50_000), strategy: |_| (secret_control_strategy(), any::<u64>()), oracle: run_ups_queue_id, max_shrink_iters: 2_000 }),
        Box::new(PropCheck::<Fuzz, _> { name: "decoder_total", cases: |t| t.pick(2_000_000, 40_000_000), strategy: fuzz_strategy, oracle: run_decoder_total, max_shrink_iters: 5_000 }),
    ];
    // before the map subs: `map_aged` waits for its entries to age, which overlaps with this one
    v.extend(crate::c18_open::subs());
    v.extend(c18_map::subs());
    v
}

pub fn property() -> Property {
    Property {
        id: "C18",
        rule: "roundtrip_{stream,datagram,control,secret_control}: generated field values over their full ranges (credential/key ids and \
               packet numbers over [0,2^62) biased to varint boundaries, queue ids < 2^60, optional fields present/absent, application \
               header 0..64 B, control data 0..256 B, payload 0..32 KiB biased to 0, 1, ~MTU, 16 KiB; ample and MTU-sized encoder \
               buffers; probes and retransmitted packets; both cipher suites; unidirectional and bidirectional keys derived through \
               schedule::Secret from a generated 32-byte secret): decode(encode(x)) returns every field, decrypt returns the payload, \
               the decoder consumes exactly the length encode returned (unrelated trailing bytes behind the packet). mutations_*: for \
               each packet EVERY single-byte position x 3 replacement values, multi-byte mutations, all truncations (packets <= 512 B), \
               tag swaps with a sibling packet / other packet type / neighbouring key id / reflected direction: each must fail to \
               decode or be rejected by decrypt/verify/authenticate; only bytes behind the packet may change without effect. Two \
               header bits/fields that are by construction outside the tag are split off into their own sub-checks: \
               stream_retransmit_space_binding (packet-space bit of a retransmitted stream packet) and ups_queue_id_binding (queue id \
               of UnknownPathSecret). decoder_total: raw and structure-biased bytes (valid tag byte, credential id, varints of all \
               widths) through every decoder and accessor, never a panic, never authenticated. map_forgery / map_aged: see c18_map. \
               open_forgery (c18_open): two maps sharing 1-3 generated path secrets; the sender seals 1-12 datagram / stream packets \
               (payload 0..1500 B) through Peer::seal_once / Map::seal_once_id / Entry::uni_sealer / Peer::pair / Entry::bidi_local \
               with generated gaps (0..1100 unused key ids) between them; 1-40 deliveries in generated order, each the genuine bytes \
               or a forged variant (byte flip in header / payload / tag / credentials, truncated tag, tag of another packet, zero \
               tag, replaced payload, another packet re-labelled with this key id, this packet re-labelled with another or a not yet \
               issued key id, genuine bytes through the other opener family); the receiver decodes, obtains the opener from \
               Map::open_once / open_once_with_application_data / pair_for_credentials / secret_for_credentials by the credentials \
               found in the packet and decrypts (copying and in-place); oracle: per path secret the C19 set model, advanced only by \
               byte-identical copies of sealed packets: a forged variant is refused, emits no key_accepted / replay_* / *_sent / \
               *_accepted / eviction / handshake event, leaves minimum_unseen_key_id, map size and peers unchanged; every genuine \
               packet is accepted exactly when the model says so (also after forged packets naming its key id) with the exact \
               payload; replays give ReplayDefinitelyDetected / ReplayPotentiallyDetected; finally every key id named by any \
               delivery is probed against the model. Non-trivial: a genuine packet was accepted after a forged packet naming the \
               same live path secret and the same, still fresh, key id had been refused. \
               Non-trivial (mutations): at least one mutant still decoded and was rejected by the cryptographic check; (map) the \
               forged packet names a live map entry.",
        assumptions: &[
            "AES-GCM / HMAC / HKDF of aws-lc-rs are trusted; a forged tag passing by chance (2^-128) is ignored",
            "keys are derived through the public schedule::Secret API from generated secrets; the sealing side is Secret(endpoint), the opening side Secret(opposite endpoint)",
            "the stream encoder is given MTU-sized (truncating) buffers only with an empty application header, as the production sender does; datagram and control encoders get ample buffers (their API takes explicit lengths)",
            "ack-eliciting datagrams always carry a packet number (documented FIXME precondition of datagram::encoder::encode)",
            "map entries are created through the public dc::Endpoint/dc::Path handshake interface with a harness TlsSession exporting the generated secret; no hook into s2n-quic-dc is used",
            "entry age is read from the real monotonic clock (Entry::creation_time is Instant::now()); aged entries are obtained by waiting > 10 s, the verdict depends only on the measured age",
        ],
        subs: subs(),
        shards: 0,
    }
}
