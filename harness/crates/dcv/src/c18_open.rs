//! C18, opening path: packets that name a live path secret reach the application-data openers
//! handed out by the map (`Map::open_once`, `open_once_with_application_data`,
//! `pair_for_credentials`, `secret_for_credentials` -> `path::secret::key::open::{Once,
//! Application}`). A packet whose tag does not verify must be refused **and must leave the
//! receiver's replay window, the map and the event stream untouched**; in particular it must not
//! use up the key id it names, so that the genuine packet with that key id is still accepted
//! afterwards - in whatever order forged and genuine packets arrive.
//!
//! Fixture: two maps (sender side / receiver side) that share 1-3 generated path secrets, both
//! filled through the public dc handshake interface (`world::TestMap`). The sender seals
//! datagram / stream packets through the public sealing APIs, the receiver decodes the
//! delivered bytes, asks its map for an opener by the credentials *found in the packet* and
//! decrypts. Oracle = `c19::Model` (seen set + max, window 896) per path secret, advanced only
//! by byte-identical copies of sealed packets.

use crate::{
    c18::{vi, PayloadReader},
    c18_map, c19,
    world::*,
};
use proptest::prelude::*;
use s2n_codec::{DecoderBufferMut, DecoderParameterizedValueMut as _, EncoderBuffer, EncoderValue as _};
use s2n_quic_dc::{
    credentials::Credentials,
    crypto::{open, seal, UninitSlice},
    packet::{self, datagram, secret_control, stream},
    path::secret::{schedule::Initiator, stateless_reset::Signer},
    stream::TransportFeatures,
};
use serde::{Deserialize, Serialize};
use std::collections::BTreeSet;
use vcore::{ensure_that, fail, gen::*, CaseResult, Fail, Obs, PropCheck, SubCheck, Tier};

// ---------------------------------------------------------------------------------------
// case description

#[derive(Clone, Copy, Debug, Hash, PartialEq, Eq, Serialize, Deserialize)]
pub enum How {
    /// one byte xor-ed; region 0 = header, 1 = payload, 2 = tag, 3 = credentials (id + key id), else anywhere
    Flip { region: u8, pos: u16, xor: u8 },
    /// 1..=16 bytes cut off the end (truncated tag)
    Truncate(u8),
    /// carries the tag of another sealed packet of this case
    TagOf(u16),
    ZeroTag,
    /// the encrypted payload replaced by other bytes (length kept, tag kept)
    Payload(u64),
    /// another sealed packet of this case re-labelled with this packet's credentials (splice)
    Relabel(u16),
    /// this packet re-labelled with a key id the sender has not issued yet (highest issued + 1 + d)
    FutureKeyId(u16),
    /// this packet re-labelled with the key id of another packet of the same path secret
    OtherKeyId(u16),
    /// the genuine bytes handed to the opener of the other family (single-use <-> bidirectional)
    WrongOpener,
}

#[derive(Clone, Debug, Hash, PartialEq, Eq, Serialize, Deserialize)]
pub struct Pkt {
    pub entry: u16,
    /// key ids the sender issues (and never uses) before this packet
    pub skip: u16,
    /// sealed through `Peer::pair` / `Entry::bidi_local` instead of the single-use sealers
    pub bidi: bool,
    /// stream packet instead of datagram packet
    pub stream: bool,
    pub seal_api: u8,
    pub queue_id: Option<u64>,
    pub payload_len: u16,
    pub seed: u64,
}

#[derive(Clone, Debug, Hash, PartialEq, Eq, Serialize, Deserialize)]
pub struct Delivery {
    pub pkt: u16,
    /// None: the genuine bytes
    pub how: Option<How>,
    pub in_place: bool,
    pub open_api: u8,
}

#[derive(Clone, Debug, Hash, PartialEq, Eq, Serialize, Deserialize)]
pub struct OpenCase {
    pub signer: [u8; 32],
    pub entries: Vec<EntrySpec>,
    pub pkts: Vec<Pkt>,
    /// delivered to the receiver in this order
    pub deliveries: Vec<Delivery>,
}

// ---------------------------------------------------------------------------------------
// sealing

struct Sealed {
    bytes: Vec<u8>,
    creds: Credentials,
    entry: usize,
    bidi: bool,
    payload: Vec<u8>,
    /// header | payload | tag boundaries
    payload_start: usize,
    tag_start: usize,
}

fn encode_packet<C: seal::Application>(p: &Pkt, payload: &[u8], sealer: &C, creds: &Credentials) -> Vec<u8> {
    let app_header = prf_vec(p.seed ^ 0xA1, 0, (p.seed % 9) as usize);
    let mut bytes = vec![0u8; 256 + payload.len()];
    let mut hdr: &[u8] = &app_header;
    let len = if p.stream {
        let mut stream_id = stream::Id::unreliable_unidirectional(vi(p.seed % 64)).expect("harness: queue id");
        stream_id.is_reliable = p.seed & 0x100 != 0;
        stream_id.is_bidirectional = p.bidi;
        let mut reader = PayloadReader { data: payload, cursor: 0, offset: p.seed % 5000, fin: None, scatter: p.seed & 0x200 != 0 };
        let control: &[u8] = &[];
        let len = stream::encoder::encode(
            EncoderBuffer::new(&mut bytes),
            p.queue_id.map(vi),
            stream_id,
            vi((p.seed >> 16) % 3000),
            vi(0),
            vi(app_header.len() as u64),
            &mut hdr,
            vi(0),
            &control,
            &mut reader,
            sealer,
            creds,
        );
        assert_eq!(reader.cursor, payload.len(), "harness: ample buffer takes the whole payload");
        len
    } else {
        let control: &[u8] = &[];
        let mut pay: &[u8] = payload;
        datagram::encoder::encode(
            EncoderBuffer::new(&mut bytes),
            p.seed as u16,
            if p.seed & 0x100 != 0 { Some(vi((p.seed >> 16) % 3000)) } else { None },
            None,
            vi(app_header.len() as u64),
            &mut hdr,
            &control,
            vi(payload.len() as u64),
            &mut pay,
            sealer,
            creds,
        )
    };
    bytes.truncate(len);
    bytes
}

fn features(sel: u8) -> TransportFeatures {
    if sel & 4 != 0 {
        TransportFeatures::TCP
    } else {
        TransportFeatures::UDP
    }
}

fn seal(s: &TestMap, e: usize, p: &Pkt) -> Sealed {
    let te = &s.entries[e];
    let payload = prf_vec(p.seed, 0, p.payload_len as usize);
    let (bytes, creds) = if p.bidi {
        let keys = match p.seal_api % 2 {
            0 => s.map.get_untracked(te.peer).expect("harness: peer entry").pair(&features(p.seal_api)).0,
            _ => te.entry.bidi_local(&features(p.seal_api)),
        };
        (encode_packet(p, &payload, &keys.application.sealer, &keys.credentials), keys.credentials)
    } else {
        let (sealer, creds) = match p.seal_api % 3 {
            0 => {
                let (k, c, _) = s.map.get_untracked(te.peer).expect("harness: peer entry").seal_once();
                (k, c)
            }
            1 => {
                let (k, c, _) = s.map.seal_once_id(te.id).expect("harness: entry by id");
                (k, c)
            }
            _ => te.entry.uni_sealer(),
        };
        (encode_packet(p, &payload, &sealer, &creds), creds)
    };
    let tag_start = bytes.len() - TAG_LEN;
    Sealed { payload_start: tag_start - payload.len(), tag_start, bytes, creds, entry: e, bidi: p.bidi, payload }
}

// ---------------------------------------------------------------------------------------
// forging

fn put_var(out: &mut Vec<u8>, v: u64) {
    match vi(v).encoding_size() {
        1 => out.push(v as u8),
        2 => out.extend_from_slice(&((v as u16) | 0x4000).to_be_bytes()),
        4 => out.extend_from_slice(&((v as u32) | 0x8000_0000).to_be_bytes()),
        _ => out.extend_from_slice(&(v | 0xC000_0000_0000_0000).to_be_bytes()),
    }
}

/// `base` with the credentials (bytes 1..17 = path secret id, then the key-id varint) replaced
fn relabel(base: &Sealed, id: &[u8], key_id: u64) -> Vec<u8> {
    let old = base.creds.key_id.encoding_size();
    let mut out = Vec::with_capacity(base.bytes.len() + 8);
    out.push(base.bytes[0]);
    out.extend_from_slice(id);
    put_var(&mut out, key_id);
    out.extend_from_slice(&base.bytes[17 + old..]);
    out
}

/// the forged bytes, or None when the forgery is not applicable to this packet
fn forge(sealed: &[Sealed], p: usize, how: &How, top_issued: &[u64]) -> Option<Vec<u8>> {
    let g = &sealed[p];
    let mut b = g.bytes.clone();
    Some(match *how {
        How::Flip { region, pos, xor } => {
            let range = match region {
                0 => 0..g.payload_start,
                1 => g.payload_start..g.tag_start,
                2 => g.tag_start..b.len(),
                3 => 1..17 + g.creds.key_id.encoding_size(),
                _ => 0..b.len(),
            };
            if range.is_empty() {
                return None;
            }
            b[range.start + pick_index(pos, range.len())] ^= xor.max(1);
            b
        }
        How::Truncate(n) => {
            b.truncate(b.len() - (n as usize % TAG_LEN + 1));
            b
        }
        How::TagOf(c) => {
            let o = &sealed[pick_index(c, sealed.len())];
            b[g.tag_start..].copy_from_slice(&o.bytes[o.tag_start..]);
            b
        }
        How::ZeroTag => {
            b[g.tag_start..].fill(0);
            b
        }
        How::Payload(seed) => {
            if g.payload.is_empty() {
                return None;
            }
            prf_fill(seed, 0, &mut b[g.payload_start..g.tag_start]);
            b
        }
        How::Relabel(c) => relabel(&sealed[pick_index(c, sealed.len())], &g.creds.id[..], *g.creds.key_id),
        How::FutureKeyId(d) => relabel(g, &g.creds.id[..], top_issued[g.entry] + 1 + d as u64),
        How::OtherKeyId(c) => {
            let same: Vec<&Sealed> = sealed.iter().filter(|o| o.entry == g.entry).collect();
            relabel(g, &g.creds.id[..], *same[pick_index(c, same.len())].creds.key_id)
        }
        How::WrongOpener => b,
    })
}

// ---------------------------------------------------------------------------------------
// receiving

enum Opener {
    Once(s2n_quic_dc::path::secret::open::Once),
    Bidi(s2n_quic_dc::path::secret::map::Bidirectional),
}

/// asks the receiving map for an opener by the credentials found in the packet
fn opener_for(r: &TestMap, creds: &Credentials, queue_id: Option<u64>, bidi: bool, api: u8, control_out: &mut Vec<u8>) -> Option<Opener> {
    let q = queue_id.map(vi);
    if bidi {
        match api % 2 {
            0 => r.map.pair_for_credentials(creds, q, &features(api), control_out).map(|(k, _, _)| Opener::Bidi(k)),
            _ => r.map.secret_for_credentials(creds, q, &features(api), control_out).map(|(_, _, k, _)| Opener::Bidi(k)),
        }
    } else {
        match api % 2 {
            0 => r.map.open_once(creds, q, control_out).map(Opener::Once),
            _ => r.map.open_once_with_application_data(creds, q, control_out).map(|(k, _)| Opener::Once(k)),
        }
    }
}

fn decrypt_with<K: open::Application>(key: &K, r: &TestMap, e: usize, pk: packet::Packet<'_>, in_place: bool) -> Result<Vec<u8>, open::Error> {
    match pk {
        packet::Packet::Datagram(mut p) => {
            let kp = p.tag().key_phase();
            let nonce = p.crypto_nonce();
            if in_place {
                let header = p.header().to_vec();
                let tag = p.auth_tag().to_vec();
                key.decrypt_in_place(kp, nonce, &header, p.payload_mut(), &tag)?;
                Ok(p.payload().to_vec())
            } else {
                let mut out = vec![0u8; p.payload().len()];
                key.decrypt(kp, nonce, p.header(), p.payload(), p.auth_tag(), UninitSlice::new(&mut out))?;
                Ok(out)
            }
        }
        packet::Packet::Stream(mut p) => {
            // the stream control key of the flow the packet names (used for retransmitted / recovery packets only)
            let (_, ctl) = r.entries[e].entry.secret().control_pair(p.credentials().key_id, Initiator::Remote);
            if in_place {
                p.decrypt_in_place(key, &ctl)?;
                Ok(p.payload().to_vec())
            } else {
                let mut out = vec![0u8; p.payload().len()];
                p.decrypt(key, &ctl, UninitSlice::new(&mut out))?;
                Ok(out)
            }
        }
        _ => unreachable!("harness: only stream and datagram packets are decrypted"),
    }
}

const FORBIDDEN_SUFFIXES: [&str; 7] = ["key_accepted", "replay_definitely_detected", "replay_potentially_detected", "_packet_sent", "_accepted", "_evicted", "handshake_requested"];

fn effect_events(events: &[&'static str]) -> Vec<&'static str> {
    events.iter().copied().filter(|e| FORBIDDEN_SUFFIXES.iter().any(|s| e.ends_with(s))).collect()
}

fn state_check(r: &TestMap, models: &[c19::Model], what: &str) -> CaseResult {
    let n = r.entries.len();
    ensure_that!(r.map.secrets_len() == n && r.map.peers_len() == n, "open:map-changed", "{what}: the receiving map holds {} secrets / {} peers, expected {n}", r.map.secrets_len(), r.map.peers_len());
    for (i, te) in r.entries.iter().enumerate() {
        ensure_that!(r.map.contains(&te.peer), "open:map-changed", "{what}: the receiving map lost the entry of {}", te.peer);
        let mu = *te.entry.receiver().minimum_unseen_key_id();
        ensure_that!(
            mu == models[i].min_unseen(),
            "open:replay-window-changed",
            "{what}: path secret {i}: the receiver's minimum_unseen_key_id is {mu}, but the highest key id of a genuine packet accepted so far is {:?}",
            models[i].max
        );
    }
    let hs = r.remote_handshakes().len();
    ensure_that!(hs == 0, "open:handshake-requested", "{what}: {hs} handshakes were requested");
    Ok(())
}

pub fn run_open_case(case: &OpenCase, obs: &mut Obs) -> CaseResult {
    c18_map::warm();
    let cap = case.entries.len().max(1) * 3;
    let mut s = TestMap::new(&[0x5E; 32], cap, false);
    let mut r = TestMap::new(&case.signer, cap, case.signer[0] & 1 != 0);
    for spec in &case.entries {
        if s.insert(spec).is_some() {
            let mut peer_view = spec.clone();
            peer_view.client = !spec.client;
            peer_view.token.reverse();
            r.insert(&peer_view).expect("harness: the same ids collide on both sides");
        }
    }
    let n = r.entries.len();
    assert!(n >= 1, "harness: first entry cannot collide");

    // --- the sender seals every packet up front, key ids in issue order
    let mut next_id = vec![0u64; n];
    let mut sealed: Vec<Sealed> = vec![];
    for (i, p) in case.pkts.iter().enumerate() {
        let e = pick_index(p.entry, n);
        for _ in 0..p.skip {
            let _ = s.entries[e].entry.sender().next_key_id();
        }
        next_id[e] += p.skip as u64;
        let sl = seal(&s, e, p);
        ensure_that!(sl.creds.id == r.entries[e].id && *sl.creds.key_id == next_id[e], "open:sender-credentials", "packet {i}: sealed with credentials {:?}, expected path secret {e} and key id {} (C19 territory)", sl.creds, next_id[e]);
        next_id[e] += 1;
        sealed.push(sl);
    }
    let top_issued: Vec<u64> = next_id.iter().map(|v| v.saturating_sub(1)).collect();
    let _ = r.take_events();
    let _ = r.rec.take_keys_accepted();

    // --- deliveries
    let mut models = vec![c19::Model::default(); n];
    let mut probe_ids: Vec<BTreeSet<u64>> = vec![BTreeSet::new(); n];
    for sl in &sealed {
        probe_ids[sl.entry].insert(*sl.creds.key_id);
    }
    let (mut forged_fresh, mut genuine_after_forged) = (BTreeSet::new(), false);
    state_check(&r, &models, "after set-up")?;
    for (idx, d) in case.deliveries.iter().enumerate() {
        let p = pick_index(d.pkt, sealed.len());
        let mut bytes = match &d.how {
            None => sealed[p].bytes.clone(),
            Some(h) => match forge(&sealed, p, h, &top_issued) {
                Some(b) => b,
                None => continue,
            },
        };
        let wrong_opener = d.how == Some(How::WrongOpener);
        // a byte-identical copy of a sealed packet is that packet, whatever recipe produced it
        let copy_of = sealed.iter().position(|g| g.bytes == bytes);
        let authentic = copy_of.filter(|_| !wrong_opener);
        let bidi = copy_of.map_or(sealed[p].bidi, |a| sealed[a].bidi) ^ wrong_opener;
        let what = format!(
            "delivery {idx}: {} of packet {p} (path secret {}, key id {}, {} {} packet of {} bytes) via the {} opener",
            match (&d.how, authentic) {
                (_, Some(a)) if a == p => "genuine bytes".to_string(),
                (_, Some(a)) => format!("bytes identical to packet {a}, produced as {:?}", d.how),
                (h, None) => format!("forged variant {:?}", h.unwrap()),
            },
            sealed[p].entry,
            sealed[p].creds.key_id,
            if sealed[p].bidi { "bidirectional-key" } else { "single-use-key" },
            if case.pkts[p].stream { "stream" } else { "datagram" },
            sealed[p].bytes.len(),
            if bidi { "bidirectional (pair_for_credentials / secret_for_credentials)" } else { "single-use (open_once)" },
        );
        obs.units += 1;

        let decoded = match packet::Packet::decode_parameterized_mut(TAG_LEN, DecoderBufferMut::new(&mut bytes)) {
            Ok((pk, _)) => pk,
            Err(_) => {
                ensure_that!(authentic.is_none(), "open:genuine-refused", "{what}: the packet does not decode");
                obs.class("forged-undecodable");
                continue;
            }
        };
        let (creds, queue_id) = match &decoded {
            packet::Packet::Stream(pk) => (*pk.credentials(), pk.source_queue_id().map(|q| *q)),
            packet::Packet::Datagram(pk) => (*pk.credentials(), case.pkts[p].queue_id),
            other => {
                // the tag byte now names another packet kind: the dispatcher hands it to the map
                ensure_that!(authentic.is_none(), "open:genuine-refused", "{what}: decoded as {:?}", other.kind());
                let from = r.entries[sealed[p].entry].peer;
                r.map.handle_unexpected_packet(other, &from);
                let ev = effect_events(&r.take_events());
                ensure_that!(ev.is_empty(), "open:forged-packet-effect", "{what}: decoded as {:?} and handed to handle_unexpected_packet: events {ev:?}", other.kind());
                state_check(&r, &models, &what)?;
                obs.class("forged-other-kind");
                continue;
            }
        };
        let _ = r.take_events();
        let _ = r.rec.take_keys_accepted();
        let mut control_out = vec![];
        let opener = opener_for(&r, &creds, queue_id, bidi, d.open_api, &mut control_out);
        let Some(e) = r.entries.iter().position(|te| te.id == creds.id) else {
            // unknown path secret: the documented pre-authentication answer is an UnknownPathSecret
            // packet for the caller to send, nothing else
            ensure_that!(authentic.is_none(), "open:genuine-refused", "{what}: harness: the path secret is not in the receiving map");
            ensure_that!(opener.is_none(), "open:opener-for-unknown-secret", "{what}: an opener was returned for the unknown path secret id {:?}", creds.id);
            let token = Signer::new(&case.signer).sign(&creds.id);
            let ok = match secret_control::Packet::decode(DecoderBufferMut::new(&mut control_out)) {
                Ok((secret_control::Packet::UnknownPathSecret(ups), rest)) => rest.is_empty() && ups.credential_id() == &creds.id && ups.authenticate(&token).is_some(),
                _ => false,
            };
            ensure_that!(ok, "open:unknown-path-secret-reply", "{what}: control_out is not the map's UnknownPathSecret packet for id {:?}", creds.id);
            let ev = effect_events(&r.take_events());
            ensure_that!(ev.is_empty(), "open:forged-packet-effect", "{what}: names an unknown path secret, events {ev:?}");
            state_check(&r, &models, &what)?;
            obs.class("forged-unknown-path-secret");
            continue;
        };
        if *creds.key_id == MAX_VARINT {
            ensure_that!(authentic.is_none() && opener.is_none(), "open:reserved-key-id", "{what}: the reserved maximum key id was given an opener");
            state_check(&r, &models, &what)?;
            continue;
        }
        let Some(opener) = opener else {
            fail!(if authentic.is_some() { "open:genuine-refused" } else { "open:no-opener" }, "{what}: the map returned no opener although path secret {e} is live (control_out {} bytes)", control_out.len());
        };
        ensure_that!(control_out.is_empty(), "open:control-packet-before-authentication", "{what}: {} bytes of control packet were produced before the packet was authenticated", control_out.len());
        let kid = *creds.key_id;
        probe_ids[e].insert(kid);
        let fresh = models[e].classify(kid) == c19::Expect::Accept;

        let got = match &opener {
            Opener::Once(k) => decrypt_with(k, &r, e, decoded, d.in_place),
            Opener::Bidi(k) => decrypt_with(&k.application.opener, &r, e, decoded, d.in_place),
        };
        let events = r.take_events();
        let accepted_ids = r.rec.take_keys_accepted();
        let ev = effect_events(&events);

        match authentic {
            Some(a) => {
                let max_before = models[e].max;
                match models[e].apply(kid) {
                    c19::Expect::Accept => {
                        match &got {
                            Ok(plain) => ensure_that!(plain == &sealed[a].payload, "open:payload", "{what}: the decrypted payload differs from the {} bytes sealed", sealed[a].payload.len()),
                            Err(err) => fail!(
                                "open:genuine-refused",
                                "{what}: refused with {err:?} although key id {kid} was never accepted before and is above / less than 896 below the highest accepted key id {max_before:?}{} (events {ev:?})",
                                if forged_fresh.contains(&(e, kid)) { "; a forged packet naming this key id was refused earlier" } else { "" }
                            ),
                        }
                        ensure_that!(accepted_ids == [kid] && ev == ["path_secret_map:key_accepted"], "open:genuine-events", "{what}: accepted, events {ev:?} with key ids {accepted_ids:?}");
                        if forged_fresh.contains(&(e, kid)) {
                            genuine_after_forged = true;
                            obs.class("genuine-accepted-after-forged-same-key-id");
                        }
                        obs.class_if(max_before.is_some_and(|m| kid < m), "genuine-accepted-below-max");
                    }
                    c19::Expect::AlreadySeen => {
                        ensure_that!(got == Err(open::Error::ReplayDefinitelyDetected), "open:replay-accepted", "{what}: key id {kid} was accepted before, result {:?}", got.as_ref().map(|p| p.len()));
                        obs.class("genuine-replayed");
                    }
                    _ => {
                        ensure_that!(matches!(got, Err(open::Error::ReplayPotentiallyDetected { .. })), "open:replay-accepted", "{what}: key id {kid} is 896 or more below the highest accepted key id {max_before:?}, result {:?}", got.as_ref().map(|p| p.len()));
                        obs.class("genuine-below-window");
                    }
                }
            }
            None => {
                ensure_that!(got.is_err(), "open:forged-packet-accepted", "{what}: decrypt returned Ok ({} bytes of payload)", got.as_ref().map(|p| p.len()).unwrap_or(0));
                ensure_that!(
                    ev.is_empty() && accepted_ids.is_empty(),
                    "open:forged-packet-effect",
                    "{what}: refused with {:?}, but the receiving map emitted {ev:?} (key ids marked as seen: {accepted_ids:?}) - the unauthenticated packet changed the replay window / triggered a control packet",
                    got.as_ref().err()
                );
                // a bidirectional stream's opener schedules a key update of the receiving side when the peer has moved to the
                // next key phase (`needs_update`, acted upon by stream::crypto::Crypto::open_with): only an authenticated packet may
                if let Opener::Bidi(k) = &opener {
                    ensure_that!(
                        !k.application.opener.needs_update(),
                        "open:forged-packet-effect:key-update-scheduled",
                        "{what}: refused with {:?}, but the opener now asks for a key update (needs_update): an unauthenticated packet can rotate the receiver's stream keys",
                        got.as_ref().err()
                    );
                }
                if fresh {
                    forged_fresh.insert((e, kid));
                    obs.class("forged-names-fresh-key-id");
                } else {
                    obs.class("forged-names-seen-or-old-key-id");
                }
                obs.class(match d.how {
                    Some(How::Flip { .. }) => "how:flip",
                    Some(How::Truncate(_)) => "how:truncate",
                    Some(How::TagOf(_)) | Some(How::ZeroTag) => "how:tag-swap/zero",
                    Some(How::Payload(_)) => "how:payload",
                    Some(How::Relabel(_)) => "how:relabel",
                    Some(How::FutureKeyId(_)) => "how:future-key-id",
                    Some(How::OtherKeyId(_)) => "how:other-key-id",
                    Some(How::WrongOpener) => "how:wrong-opener",
                    None => "how:none",
                });
            }
        }
        state_check(&r, &models, &what)?;
    }

    // --- afterwards: the replay windows are exactly what the genuine packets made them
    for e in 0..n {
        let te = &r.entries[e];
        let mut ids: Vec<u64> = probe_ids[e].iter().copied().collect();
        if let Some(max) = models[e].max {
            ids.extend([max.saturating_sub(896), max.saturating_sub(895), max + 1]);
        }
        for (k, id) in ids.into_iter().enumerate() {
            let before = models[e].max;
            let exp = models[e].apply(id);
            let got = te.entry.receiver().post_authentication(&Credentials { id: te.id, key_id: vi(id) });
            c19::judge(k, id, exp, got, before).map_err(|f| Fail::new("open:replay-window-changed", format!("after all deliveries, path secret {e}: the replay window differs from the set of genuine packets accepted: {}", f.msg)))?;
        }
        let own = *te.entry.sender().next_key_id();
        ensure_that!(own == 0, "open:sender-key-id-changed", "after all deliveries, path secret {e}: the receiving side's own sender issued key id {own}, expected 0");
    }
    ensure_that!(s.take_events().iter().all(|e| effect_events(&[*e]).is_empty()), "open:sender-side-events", "the sending map saw packet events although nothing was delivered to it");

    obs.nontrivial(genuine_after_forged);
    obs.class_if(n >= 2, "path-secrets>=2");
    obs.class_if(sealed.iter().any(|s| s.bidi), "bidi-keys");
    obs.class_if(case.pkts.iter().any(|p| p.stream), "stream-packets");
    obs.sample = Some(serde_json::json!({ "path_secrets": n, "packets": sealed.len(), "deliveries": case.deliveries.len() }));
    Ok(())
}

// ---------------------------------------------------------------------------------------
// generator

fn how_from(kind: u8, a: u16, b: u8, c: u64) -> How {
    match kind % 20 {
        0..=1 => How::Flip { region: 0, pos: a, xor: b },
        2..=3 => How::Flip { region: 1, pos: a, xor: b },
        4..=5 => How::Flip { region: 2, pos: a, xor: b },
        6 => How::Flip { region: 3, pos: a, xor: b },
        7 => How::Flip { region: 4, pos: a, xor: 1 << (b % 8) },
        8 => How::Truncate(b),
        9..=10 => How::TagOf(a),
        11 => How::ZeroTag,
        12..=13 => How::Payload(c),
        14..=15 => How::Relabel(a),
        16 => How::FutureKeyId(match b % 4 {
            0 => 0,
            1 => a % 40,
            2 => 890 + a % 10,
            _ => a % 3000,
        }),
        17 => How::OtherKeyId(a),
        _ => How::WrongOpener,
    }
}

fn open_case_strategy(_t: Tier) -> impl Strategy<Value = OpenCase> {
    let pkt = (any::<u16>(), any::<u16>(), any::<u8>(), prop::option::of(varint_value()), any::<u16>(), any::<u64>()).prop_map(|(entry, sk, sel, queue_id, pl, seed)| Pkt {
        entry,
        skip: match sk % 16 {
            0..=9 => 0,
            10..=12 => 1 + (sk >> 4) % 40,
            13 => 850 + (sk >> 4) % 100,
            _ => (sk >> 4) % 1100,
        },
        bidi: sel & 3 == 0,
        stream: sel & 0x0c == 0,
        seal_api: sel >> 4,
        queue_id,
        payload_len: match pl % 8 {
            0 => 0,
            1 => 1,
            2..=5 => (pl >> 3) % 200,
            _ => (pl >> 3) % 1500,
        },
        seed,
    });
    let delivery = (any::<u16>(), any::<u8>(), (any::<u8>(), any::<u16>(), 1u8..=255, any::<u64>()), any::<bool>(), any::<u8>()).prop_map(|(pkt, sel, (k, a, b, c), in_place, open_api)| Delivery {
        pkt,
        how: if sel % 8 < 3 { None } else { Some(how_from(k, a, b, c)) },
        in_place,
        open_api,
    });
    (any::<[u8; 32]>(), prop::collection::vec(c19::entry_spec_strategy(), 1..=3), prop::collection::vec(pkt, 1..=12), prop::collection::vec(delivery, 1..=40)).prop_map(|(signer, entries, pkts, deliveries)| OpenCase { signer, entries, pkts, deliveries })
}

pub fn subs() -> Vec<Box<dyn SubCheck>> {
    vec![Box::new(PropCheck::<OpenCase, _> { name: "open_forgery", cases: |t| t.pick(40_000, 600_000), strategy: open_case_strategy, oracle: run_open_case, max_shrink_iters: 3_000 })]
}
