//! C19: a key id is accepted at most once (receiver replay window) and issued at most once
//! (sender counter), sequentially and under real-thread concurrency.
//!
//! Receiver oracle = the exact set model of the property text: `seen` (every id accepted so
//! far) and `max` (highest id accepted). `post_authentication(id)` must be `Ok` **iff**
//! `id != KeyId::MAX && id ∉ seen && (id > max || max - id < 896)`; both directions are
//! verdicts. The error kind follows the documentation of `receiver::Error`: an id inside the
//! window that was seen is `AlreadyExists` ("definitely"), everything else that is refused
//! is `Unknown`.

use crate::world::{EntrySpec, TestMap, MAX_VARINT};
use proptest::prelude::*;
use s2n_codec::{DecoderBufferMut, DecoderParameterizedValueMut as _, EncoderBuffer};
use s2n_quic_core::{
    dc::{self, Endpoint as _},
    inet,
    varint::VarInt,
};
use s2n_quic_dc::{
    credentials::{Credentials, Id},
    crypto::IntoNonce,
    packet::{self, secret_control, WireVersion},
    path::secret::receiver,
    stream::TransportFeatures,
};
use serde::{Deserialize, Serialize};
use std::{
    collections::{BTreeMap, BTreeSet},
    sync::atomic::{AtomicU64, Ordering},
};
use vcore::{ensure_that, fail, gen::*, CaseResult, EnumCheck, Fail, Obs, PropCheck, Property, SubCheck, Tier};

pub const WINDOW: u64 = 896;
pub const MAX_ID: u64 = MAX_VARINT;

// ---------------------------------------------------------------------------------------
// reference model

#[derive(Default, Clone, Debug)]
pub struct Model {
    pub seen: BTreeSet<u64>,
    pub max: Option<u64>,
}

#[derive(Clone, Copy, Debug, PartialEq, Eq)]
pub enum Expect {
    Accept,
    /// inside the window and already accepted
    AlreadySeen,
    /// 896 or more below the highest accepted id
    TooOld,
    /// `KeyId::MAX`
    Reserved,
}

impl Model {
    pub fn classify(&self, id: u64) -> Expect {
        if id == MAX_ID {
            return Expect::Reserved;
        }
        match self.max {
            None => Expect::Accept,
            Some(max) if id > max => Expect::Accept,
            Some(max) if max - id < WINDOW => {
                if self.seen.contains(&id) {
                    Expect::AlreadySeen
                } else {
                    Expect::Accept
                }
            }
            Some(_) => Expect::TooOld,
        }
    }

    pub fn apply(&mut self, id: u64) -> Expect {
        let e = self.classify(id);
        if e == Expect::Accept {
            self.seen.insert(id);
            self.max = Some(self.max.map_or(id, |m| m.max(id)));
        }
        e
    }

    /// what a StaleKey packet would carry as `min_key_id`
    pub fn min_unseen(&self) -> u64 {
        self.max.map_or(0, |m| m + 1)
    }
}

pub fn creds(id: u64) -> Credentials {
    Credentials {
        id: Id::from([0xC1; 16]),
        key_id: VarInt::new(id).expect("harness: key id in range"),
    }
}

/// compares one `post_authentication` result with the model's verdict
pub fn judge(step: usize, id: u64, exp: Expect, got: Result<(), receiver::Error>, max: Option<u64>) -> CaseResult {
    let ctx = || format!("step {step}: id {id} (highest accepted {max:?}, distance below {:?})", max.and_then(|m| m.checked_sub(id)));
    match (exp, got) {
        (Expect::Accept, Ok(())) => Ok(()),
        (Expect::AlreadySeen, Err(receiver::Error::AlreadyExists)) => Ok(()),
        (Expect::TooOld, Err(receiver::Error::Unknown)) => Ok(()),
        (Expect::Reserved, Err(receiver::Error::Unknown)) => Ok(()),
        (Expect::AlreadySeen, Ok(())) => fail!("receiver:accepted-twice", "{}: accepted although this id was accepted before", ctx()),
        (Expect::TooOld, Ok(())) => fail!("receiver:accepted-outside-window", "{}: accepted although it is 896 or more below the highest accepted id", ctx()),
        (Expect::Reserved, Ok(())) => fail!("receiver:accepted-reserved-max", "{}: the reserved maximum id was accepted", ctx()),
        (Expect::Accept, Err(e)) => fail!("receiver:refused-acceptable", "{}: refused with {e:?} although it was never accepted and is above / less than 896 below the highest accepted id", ctx()),
        (_, Err(e)) => fail!("receiver:error-kind", "{}: refused with {e:?}, expected {exp:?}", ctx()),
    }
}

// ---------------------------------------------------------------------------------------
// sequential walks

#[derive(Clone, Copy, Debug, Hash, PartialEq, Eq, Serialize, Deserialize)]
pub enum Step {
    /// previously presented id + d
    Rel(i32),
    /// highest accepted id - d
    BelowMax(u32),
    /// highest accepted id + d
    AboveMax(u32),
    /// an id presented earlier
    Repeat(u16),
    /// an id presented earlier + off
    RepeatOff(u16, i16),
    Abs(u64),
    /// `KeyId::MAX`
    Reserved,
}

#[derive(Clone, Debug, Hash, PartialEq, Eq, Serialize, Deserialize)]
pub struct Walk {
    pub first: u64,
    pub steps: Vec<Step>,
}

fn shift(base: u64, d: i64) -> u64 {
    if d >= 0 {
        base.saturating_add(d as u64).min(MAX_ID)
    } else {
        base.saturating_sub(d.unsigned_abs())
    }
}

pub fn run_walk(case: &Walk, obs: &mut Obs) -> CaseResult {
    let state = receiver::State::new();
    let mut model = Model::default();
    let mut presented: Vec<u64> = Vec::with_capacity(case.steps.len() + 1);

    ensure_that!(*state.minimum_unseen_key_id() == 0, "receiver:minimum-unseen", "fresh state: minimum_unseen_key_id is {}", state.minimum_unseen_key_id());

    let (mut edge_accept, mut reject_896, mut replay) = (false, false, false);
    let total = case.steps.len() + 1;
    for step in 0..total {
        let id = if step == 0 {
            case.first.min(MAX_ID)
        } else {
            let prev = *presented.last().unwrap();
            let max = model.max.unwrap_or(0);
            match case.steps[step - 1] {
                Step::Rel(d) => shift(prev, d as i64),
                Step::BelowMax(d) => max.saturating_sub(d as u64),
                Step::AboveMax(d) => shift(max, d as i64),
                Step::Repeat(c) => presented[pick_index(c, presented.len())],
                Step::RepeatOff(c, off) => shift(presented[pick_index(c, presented.len())], off as i64),
                Step::Abs(v) => v.min(MAX_ID),
                Step::Reserved => MAX_ID,
            }
        };
        presented.push(id);
        let c = creds(id);

        let pre = state.pre_authentication(&c);
        let pre_exp = if id == MAX_ID { Err(receiver::Error::Unknown) } else { Ok(()) };
        ensure_that!(pre == pre_exp, "receiver:pre-authentication", "step {step}: pre_authentication({id}) returned {pre:?}, expected {pre_exp:?}");

        let max_before = model.max;
        let exp = model.apply(id);
        let got = state.post_authentication(&c);
        judge(step, id, exp, got, max_before)?;

        let mu = *state.minimum_unseen_key_id();
        ensure_that!(mu == model.min_unseen(), "receiver:minimum-unseen", "step {step}: after id {id} minimum_unseen_key_id is {mu}, highest accepted id is {:?}", model.max);

        if let Some(m) = max_before {
            if id <= m {
                let dist = m - id;
                if exp == Expect::Accept && (890..=895).contains(&dist) {
                    edge_accept = true;
                    obs.class("accept-at-890..895");
                }
                if dist == WINDOW {
                    reject_896 = true;
                    obs.class("reject-at-896");
                }
                if exp == Expect::AlreadySeen {
                    replay = true;
                    obs.class("replay-in-window");
                }
                obs.class_if(exp == Expect::TooOld && model.seen.contains(&id), "replay-below-window");
            } else {
                let jump = id - m;
                obs.class_if(jump == WINDOW, "jump-exactly-896");
                obs.class_if(jump == WINDOW - 1, "jump-895");
                obs.class_if(jump == WINDOW + 1, "jump-897");
                obs.class_if(jump > 1 << 32, "jump-huge");
            }
        }
        obs.class_if(exp == Expect::Reserved, "reserved-max-id");
    }
    obs.units = total as u64;
    obs.nontrivial(edge_accept && reject_896 && replay);
    if total > 64 {
        obs.sample = Some(serde_json::json!({ "first": case.first, "steps": total - 1, "head": &case.steps[..16] }));
    }
    Ok(())
}

/// Steps are generated from a compact tuple of primitives (a `prop_oneof!` of many arms has a
/// value tree of several KiB *per element*, which dominates the run time for long walks).
fn step_from(kind: u8, a: u16, b: u32, c: u64) -> Step {
    const EDGE: [i32; 11] = [0, 1, -1, 895, -895, 896, -896, 897, -897, 2, -2];
    let edge_u32 = |a: u16, b: u32| -> u32 {
        match a % 8 {
            0..=2 => 890 + b % 8,
            3..=4 => [0u32, 1, 895, 896, 897][(b % 5) as usize],
            5..=6 => b % 1101,
            _ => b % 4001,
        }
    };
    match kind % 23 {
        0..=4 => Step::Rel(EDGE[(a % 11) as usize]),
        5..=9 => Step::Rel((b % 2201) as i32 - 1100),
        10..=14 => Step::BelowMax(edge_u32(a, b)),
        15..=16 => Step::AboveMax(edge_u32(a, b)),
        17..=19 => Step::Repeat(a),
        20 => Step::RepeatOff(a, [1i16, -1, 896, -896, 895, -895, (b % 2201) as i16 - 1100, 897][(b >> 16) as usize % 8]),
        21 => match a % 4 {
            0 => Step::Abs(VARINT_POINTS[(b % 8) as usize].saturating_add(c % 5).saturating_sub(2).min(MAX_ID)),
            1 => Step::Abs(c & MAX_ID),
            2 => Step::AboveMax(b.max(1)),
            _ => Step::Abs(MAX_ID - c % 4000),
        },
        _ => {
            if a % 4 == 0 {
                Step::Abs(MAX_ID - 1)
            } else {
                Step::Reserved
            }
        }
    }
}

fn step_strategy() -> impl Strategy<Value = Step> {
    (any::<u8>(), any::<u16>(), any::<u32>(), any::<u64>()).prop_map(|(k, a, b, c)| step_from(k, a, b, c))
}

fn walk_strategy(_t: Tier) -> impl Strategy<Value = Walk> {
    let first = prop_oneof![
        2 => prop_oneof![Just(0u64), Just(895), Just(896), Just(897), Just(1)],
        2 => 0u64..5000,
        2 => varint_value(),
        2 => 0u64..=MAX_ID,
        1 => (0u64..3000).prop_map(|b| MAX_ID - b),
    ];
    let len = prop_oneof![3 => 1usize..60, 4 => 60usize..600, 2 => 600usize..2000];
    (first, len).prop_flat_map(|(first, len)| {
        prop::collection::vec(step_strategy(), len..=len).prop_map(move |steps| Walk { first, steps })
    })
}

// ---- exhaustive short sequences ------------------------------------------------------------

const ALPHA: [u64; 6] = [0, 1, 895, 896, 897, 1792];

fn enum_max_len(t: Tier) -> u32 {
    t.pick(4, 7)
}

fn enum_total(t: Tier) -> u64 {
    let n = ALPHA.len() as u64;
    (1..=enum_max_len(t)).map(|l| n.pow(l)).sum()
}

fn enum_case(_t: Tier, mut idx: u64) -> Walk {
    let n = ALPHA.len() as u64;
    let mut len = 1;
    let mut block = n;
    while idx >= block {
        idx -= block;
        block *= n;
        len += 1;
    }
    let mut ids = vec![];
    for _ in 0..len {
        ids.push(ALPHA[(idx % n) as usize]);
        idx /= n;
    }
    Walk { first: ids[0], steps: ids[1..].iter().map(|v| Step::Abs(*v)).collect() }
}

// ---------------------------------------------------------------------------------------
// concurrent receivers

#[derive(Clone, Copy, Debug, Hash, PartialEq, Eq, Serialize, Deserialize)]
pub enum Pres {
    /// base + off
    New(u16),
    /// the same id as an earlier presentation
    Dup(u16),
    Reserved,
}

#[derive(Clone, Debug, Hash, PartialEq, Eq, Serialize, Deserialize)]
pub struct ThreadsCase {
    pub base: u64,
    pub threads: u8,
    /// (what, which thread) in generation order; every thread presents its sub-sequence in order
    pub items: Vec<(Pres, u8)>,
}

/// runs `f(thread_index)` on `n` real threads that start together; a panic inside the code
/// under test is turned into a violation
pub(crate) fn run_threads<R: Send>(n: usize, f: impl Fn(usize) -> R + Sync) -> Result<Vec<R>, Fail> {
    let barrier = std::sync::Barrier::new(n);
    let results: Vec<std::thread::Result<R>> = std::thread::scope(|s| {
        let handles: Vec<_> = (0..n)
            .map(|t| {
                let f = &f;
                let barrier = &barrier;
                s.spawn(move || {
                    barrier.wait();
                    std::panic::catch_unwind(std::panic::AssertUnwindSafe(|| f(t)))
                })
            })
            .collect();
        handles.into_iter().map(|h| h.join().expect("harness: thread join")).collect()
    });
    let mut out = vec![];
    for r in results {
        match r {
            Ok(v) => out.push(v),
            Err(p) => {
                let msg = p
                    .downcast_ref::<&str>()
                    .map(|s| s.to_string())
                    .or_else(|| p.downcast_ref::<String>().cloned())
                    .unwrap_or_else(|| "<non-string panic>".into());
                let short: String = msg.chars().take(80).collect();
                return Err(Fail::new(format!("panic-in-thread:{short}"), format!("a worker thread panicked: {msg}")));
            }
        }
    }
    Ok(out)
}

pub fn run_threads_case(case: &ThreadsCase, obs: &mut Obs) -> CaseResult {
    let n = (case.threads as usize).clamp(2, 8);
    let base = case.base.min(MAX_ID - 70_000);
    let mut flat: Vec<u64> = vec![];
    let mut per_thread: Vec<Vec<u64>> = vec![vec![]; n];
    let mut presenters: BTreeMap<u64, BTreeSet<usize>> = BTreeMap::new();
    for (p, t) in &case.items {
        let id = match p {
            Pres::New(off) => base + *off as u64,
            Pres::Dup(c) if !flat.is_empty() => flat[pick_index(*c, flat.len())],
            Pres::Dup(_) => base,
            Pres::Reserved => MAX_ID,
        };
        let t = *t as usize % n;
        flat.push(id);
        per_thread[t].push(id);
        presenters.entry(id).or_default().insert(t);
    }

    let state = receiver::State::new();
    let results = run_threads(n, |t| {
        per_thread[t]
            .iter()
            .map(|id| (*id, state.post_authentication(&creds(*id))))
            .collect::<Vec<_>>()
    })?;

    let max_all = flat.iter().copied().filter(|v| *v != MAX_ID).max();
    let mut accepted: BTreeMap<u64, u32> = BTreeMap::new();
    let mut already: BTreeSet<u64> = BTreeSet::new();
    for r in results.iter().flatten() {
        match r.1 {
            Ok(()) => *accepted.entry(r.0).or_default() += 1,
            Err(receiver::Error::AlreadyExists) => {
                already.insert(r.0);
            }
            Err(receiver::Error::Unknown) => {}
        }
    }
    let layout = || format!("{n} threads, lists {:?}", per_thread.iter().map(|l| l.len()).collect::<Vec<_>>());
    for (id, cnt) in &accepted {
        ensure_that!(*id != MAX_ID, "receiver-threads:accepted-reserved-max", "the reserved maximum id was accepted ({})", layout());
        ensure_that!(*cnt <= 1, "receiver-threads:accepted-twice", "id {id} was accepted {cnt} times across threads {:?} ({})", presenters[id], layout());
    }
    for id in &already {
        ensure_that!(accepted.contains_key(id), "receiver-threads:already-exists-unseen", "id {id} was refused as AlreadyExists although no presentation of it was accepted ({})", layout());
    }
    if let Some(max_all) = max_all {
        for id in presenters.keys() {
            if *id != MAX_ID && max_all - *id < WINDOW {
                ensure_that!(
                    accepted.get(id).copied().unwrap_or(0) == 1,
                    "receiver-threads:refused-acceptable",
                    "id {id} is {} below the largest presented id {max_all}, so it is above or inside the window whatever the order, but it was accepted {} times ({})",
                    max_all - *id,
                    accepted.get(id).copied().unwrap_or(0),
                    layout()
                );
            }
        }
        let mu = *state.minimum_unseen_key_id();
        ensure_that!(mu == max_all + 1, "receiver-threads:minimum-unseen", "minimum_unseen_key_id is {mu} after the largest presented id {max_all} ({})", layout());
    }
    let shared = presenters.values().filter(|s| s.len() >= 2).count();
    obs.nontrivial(shared > 0);
    obs.class_if(shared >= 8, "shared-ids>=8");
    obs.class_if(presenters.keys().any(|id| max_all.is_some_and(|m| *id != MAX_ID && m - *id >= WINDOW)), "ids-below-final-window");
    obs.class_if(n >= 6, "threads>=6");
    obs.units = flat.len() as u64;
    obs.sample = Some(serde_json::json!({ "base": base, "threads": n, "presentations": flat.len(), "shared_ids": shared }));
    Ok(())
}

fn pres_from(kind: u8, a: u16) -> Pres {
    match kind % 14 {
        0..=4 => Pres::New(a % 1000),
        5..=7 => Pres::New(a % 2800),
        8 => Pres::New([0u16, 895, 896, 897, 1791, 1792][(a % 6) as usize]),
        9..=12 => Pres::Dup(a),
        _ => {
            if a % 10 == 0 {
                Pres::Reserved
            } else {
                Pres::Dup(65535)
            }
        }
    }
}

fn threads_strategy(_t: Tier) -> impl Strategy<Value = ThreadsCase> {
    let base = prop_oneof![3 => 0u64..2000, 2 => varint_value(), 2 => 0u64..=MAX_ID, 1 => Just(MAX_ID)];
    let item = (any::<u8>(), any::<u16>(), 0u8..8).prop_map(|(k, a, t)| (pres_from(k, a), t));
    (base, 2u8..=8, prop::collection::vec(item, 2..1500)).prop_map(|(base, threads, items)| ThreadsCase { base, threads, items })
}

// ---------------------------------------------------------------------------------------
// sender: issued key ids

#[derive(Clone, Copy, Debug, Hash, PartialEq, Eq, Serialize, Deserialize)]
pub enum MinSpec {
    /// the thread's last issued id + d
    RelLast(i32),
    /// the thread's last issued id + (m << 16)
    FarAbove(u32),
    Abs(u64),
    /// the value of an earlier StaleKey notification of this thread
    Replay(u16),
}

#[derive(Clone, Copy, Debug, Hash, PartialEq, Eq, Serialize, Deserialize)]
pub enum SOp {
    /// `count` ids in a tight loop through `sender().next_key_id()`
    Burst(u16),
    /// one id through one of the credential-issuing APIs
    Issue(u8),
    /// a genuine StaleKey packet through one of the map's entry points
    Stale(MinSpec, u8),
}

#[derive(Clone, Debug, Hash, PartialEq, Eq, Serialize, Deserialize)]
pub struct SenderCase {
    pub entry: EntrySpec,
    pub programs: Vec<Vec<SOp>>,
}

/// ids stay below this so that the documented 2^62 exhaustion panic of `next_key_id` is out of reach
const SENDER_ID_CEILING: u64 = MAX_VARINT - (1 << 40);

#[derive(Clone, Copy, Debug)]
enum Done {
    Issued { id: u64, start: u64, end: u64 },
    Stale { min: u64, accepted: bool, start: u64, end: u64 },
}

pub fn run_sender(case: &SenderCase, obs: &mut Obs) -> CaseResult {
    let n = case.programs.len().clamp(1, 8);
    let mut tm = TestMap::new(&[0x51; 32], 4, false);
    tm.insert(&case.entry).expect("harness: first entry cannot collide");
    let te = &tm.entries[0];
    let map = &tm.map;
    let sealer = te.remote.control_sealer();
    let clock = AtomicU64::new(0);
    let peer_in: inet::SocketAddress = te.peer.into();

    let logs = run_threads(n, |t| {
        let mut log: Vec<Done> = vec![];
        let mut last: u64 = 0;
        let mut stales: Vec<u64> = vec![];
        let peer = map.get_untracked(te.peer);
        for op in &case.programs[t] {
            match *op {
                SOp::Burst(count) => {
                    for _ in 0..count.max(1) {
                        let start = clock.fetch_add(1, Ordering::SeqCst);
                        let id = *te.entry.sender().next_key_id();
                        let end = clock.fetch_add(1, Ordering::SeqCst);
                        last = id;
                        log.push(Done::Issued { id, start, end });
                    }
                }
                SOp::Issue(api) => {
                    let start = clock.fetch_add(1, Ordering::SeqCst);
                    let c: Credentials = match api % 5 {
                        0 => peer.as_ref().expect("harness: peer entry").seal_once().1,
                        1 => map.seal_once_id(te.id).expect("harness: entry by id").1,
                        2 => te.entry.uni_sealer().1,
                        3 => peer.as_ref().expect("harness: peer entry").pair(&TransportFeatures::UDP).0.credentials,
                        _ => te.entry.bidi_local(&TransportFeatures::TCP).credentials,
                    };
                    let end = clock.fetch_add(1, Ordering::SeqCst);
                    assert_eq!(c.id, te.id, "harness: credentials name the entry");
                    last = *c.key_id;
                    log.push(Done::Issued { id: last, start, end });
                }
                SOp::Stale(spec, api) => {
                    let min = match spec {
                        MinSpec::RelLast(d) => shift(last, d as i64),
                        MinSpec::FarAbove(m) => last.saturating_add((m as u64) << 16),
                        MinSpec::Abs(v) => v,
                        MinSpec::Replay(c) if !stales.is_empty() => stales[pick_index(c, stales.len())],
                        MinSpec::Replay(_) => last,
                    }
                    .min(SENDER_ID_CEILING);
                    stales.push(min);
                    let value = secret_control::StaleKey {
                        credential_id: te.id,
                        wire_version: WireVersion::ZERO,
                        queue_id: if api & 8 != 0 { Some(VarInt::from_u8(api)) } else { None },
                        min_key_id: VarInt::new(min).expect("harness: min key id"),
                    };
                    let mut buf = [0u8; secret_control::MAX_PACKET_SIZE];
                    let len = value.encode(EncoderBuffer::new(&mut buf), &sealer);
                    let start = clock.fetch_add(1, Ordering::SeqCst);
                    let accepted = match api % 4 {
                        0 => {
                            let (p, _) = secret_control::stale_key::Packet::decode(DecoderBufferMut::new(&mut buf[..len])).expect("harness: decode own packet");
                            map.handle_stale_key_packet(&p, &te.peer).is_some()
                        }
                        1 => {
                            let (p, _) = secret_control::Packet::decode(DecoderBufferMut::new(&mut buf[..len])).expect("harness: decode own packet");
                            map.handle_control_packet(&p, &te.peer);
                            true
                        }
                        2 => {
                            let (p, _) = packet::Packet::decode_parameterized_mut(16, DecoderBufferMut::new(&mut buf[..len])).expect("harness: decode own packet");
                            map.handle_unexpected_packet(&p, &te.peer);
                            true
                        }
                        _ => {
                            let info = dc::DatagramInfo::new(&peer_in);
                            map.clone().on_possible_secret_control_packet(&info, &mut buf[..len])
                        }
                    };
                    let end = clock.fetch_add(1, Ordering::SeqCst);
                    log.push(Done::Stale { min, accepted, start, end });
                }
            }
        }
        log
    })?;

    // 1. all ids pairwise distinct
    let mut all: Vec<(u64, usize)> = vec![];
    for (t, log) in logs.iter().enumerate() {
        for d in log {
            if let Done::Issued { id, .. } = d {
                all.push((*id, t));
            }
        }
    }
    all.sort();
    for w in all.windows(2) {
        ensure_that!(w[0].0 != w[1].0, "sender:duplicate-key-id", "key id {} was issued twice (threads {} and {}; {n} threads, {} ids issued in total)", w[0].0, w[0].1, w[1].1, all.len());
    }
    // 2. per thread strictly increasing, and every StaleKey(m) the thread delivered is respected afterwards
    let mut stale_ops: Vec<(u64, u64)> = vec![]; // (end stamp, min)
    let mut stale_applied = 0usize;
    for (t, log) in logs.iter().enumerate() {
        let mut last: Option<u64> = None;
        let mut floor = 0u64;
        for (i, d) in log.iter().enumerate() {
            match *d {
                Done::Issued { id, .. } => {
                    if let Some(l) = last {
                        ensure_that!(id > l, "sender:not-increasing", "thread {t} op {i}: issued id {id} after id {l}");
                    }
                    ensure_that!(id >= floor, "sender:below-stale-minimum", "thread {t} op {i}: issued id {id} after this thread delivered a genuine StaleKey with min_key_id {floor}");
                    last = Some(id);
                }
                Done::Stale { min, accepted, end, .. } => {
                    ensure_that!(accepted, "sender:genuine-stale-key-refused", "thread {t} op {i}: the genuine StaleKey packet (min_key_id {min}) was not accepted");
                    floor = floor.max(min);
                    stale_ops.push((end, min));
                    stale_applied += 1;
                }
            }
        }
    }
    // 3. across threads, in real-time order (the stamps are SeqCst RMWs on one counter, so
    //    "end_a < start_b" implies a happens-before b)
    stale_ops.sort();
    let mut prefix: Vec<(u64, u64)> = vec![]; // (end stamp, max min so far)
    let mut m = 0;
    for (end, min) in &stale_ops {
        m = m.max(*min);
        prefix.push((*end, m));
    }
    let mut issued: Vec<(u64, u64, u64)> = vec![]; // (start, end, id)
    for log in &logs {
        for d in log {
            if let Done::Issued { id, start, end } = *d {
                issued.push((start, end, id));
                let k = prefix.partition_point(|(e, _)| *e < start);
                if k > 0 {
                    let floor = prefix[k - 1].1;
                    ensure_that!(id >= floor, "sender:below-stale-minimum", "id {id} was issued after a genuine StaleKey with min_key_id {floor} had been completely processed (by another thread)");
                }
            }
        }
    }
    let mut by_end = issued.clone();
    by_end.sort_by_key(|x| x.1);
    let mut pm: Vec<(u64, u64)> = vec![];
    let mut mx = 0;
    for (_, end, id) in &by_end {
        mx = mx.max(*id);
        pm.push((*end, mx));
    }
    for (start, _, id) in &issued {
        let k = pm.partition_point(|(e, _)| *e < *start);
        if k > 0 {
            ensure_that!(*id > pm[k - 1].1, "sender:real-time-order", "id {id} was issued after the issue of id {} had completed", pm[k - 1].1);
        }
    }
    // 4. afterwards the sender continues above everything issued and every minimum delivered
    let next = *te.entry.sender().next_key_id();
    if let Some((hi, _)) = all.last() {
        ensure_that!(next > *hi, "sender:duplicate-key-id", "after all threads finished the sender issued {next}, not above the highest id issued before ({hi})");
    }
    ensure_that!(next >= m, "sender:below-stale-minimum", "after all threads finished the sender issued {next}, below the delivered min_key_id {m}");

    obs.units = all.len() as u64 + stale_applied as u64;
    obs.nontrivial(n >= 2 && stale_applied > 0 && all.len() >= 2);
    obs.class_if(n >= 2, "concurrent");
    obs.class_if(n == 1, "single-thread");
    obs.class_if(stale_applied >= 4, "stale-keys>=4");
    obs.class_if(all.len() >= 5000, "ids>=5000");
    obs.sample = Some(serde_json::json!({ "threads": n, "ids": all.len(), "stale_keys": stale_applied }));
    Ok(())
}

fn sop_from(kind: u8, a: u16, b: u32, c: u64) -> SOp {
    let min = |a: u16, b: u32, c: u64| -> MinSpec {
        match a % 9 {
            0..=3 => MinSpec::RelLast(match b % 6 {
                0 => 0,
                1 => 1,
                2 => -1,
                3 => 2,
                4 => (c % 100) as i32 - 50,
                _ => (c % 200_000) as i32 - 100_000,
            }),
            4..=5 => MinSpec::FarAbove(1 + b % ((1 << 20) - 1)),
            6 => MinSpec::Abs(match b % 3 {
                0 => 0,
                1 => c % 100_000,
                _ => VARINT_POINTS[(c % 8) as usize],
            }),
            _ => MinSpec::Replay(b as u16),
        }
    };
    match kind % 10 {
        0..=1 => SOp::Burst(1 + a % 39),
        2..=3 => SOp::Burst(1 + a % 2999),
        4..=6 => SOp::Issue((a % 5) as u8),
        _ => SOp::Stale(min(a, b, c), (c >> 32) as u8 % 16),
    }
}

fn sop_strategy() -> impl Strategy<Value = SOp> {
    (any::<u8>(), any::<u16>(), any::<u32>(), any::<u64>()).prop_map(|(k, a, b, c)| sop_from(k, a, b, c))
}

pub fn entry_spec_strategy() -> impl Strategy<Value = EntrySpec> {
    (any::<[u8; 32]>(), any::<bool>(), any::<bool>(), any::<[u8; 16]>()).prop_map(|(secret, aes256, client, token)| EntrySpec { secret, aes256, client, token })
}

fn sender_strategy(_t: Tier) -> impl Strategy<Value = SenderCase> {
    (
        entry_spec_strategy(),
        prop_oneof![1 => 1usize..=1, 6 => 2usize..=8],
    )
        .prop_flat_map(|(entry, n)| {
            prop::collection::vec(prop::collection::vec(sop_strategy(), 1..24), n..=n).prop_map(move |programs| SenderCase { entry: entry.clone(), programs })
        })
}

// ---------------------------------------------------------------------------------------
// nonce mapping

fn run_nonce(case: &(u64, u64), obs: &mut Obs) -> CaseResult {
    let (a, b) = *case;
    let (na, nb) = (a.into_nonce(), b.into_nonce());
    ensure_that!((na == nb) == (a == b), "nonce:not-injective", "into_nonce({a}) = {na:?}, into_nonce({b}) = {nb:?}");
    let mut back = [0u8; 8];
    back.copy_from_slice(&na[4..]);
    ensure_that!(u64::from_be_bytes(back) == a && na[..4] == [0; 4], "nonce:not-injective", "into_nonce({a}) = {na:?} does not carry the value");
    obs.nontrivial(a != b && (a ^ b).count_ones() <= 2);
    Ok(())
}

fn nonce_strategy(_t: Tier) -> impl Strategy<Value = (u64, u64)> {
    (any::<u64>(), 0u32..64, 0u32..64, any::<bool>()).prop_map(|(a, i, j, same)| if same { (a, a) } else { (a, a ^ (1 << i) ^ (1 << j)) })
}

// ---------------------------------------------------------------------------------------

pub fn subs() -> Vec<Box<dyn SubCheck>> {
    let mut v = base_subs();
    v.extend(crate::c19_race::subs());
    v
}

fn base_subs() -> Vec<Box<dyn SubCheck>> {
    vec![
        Box::new(EnumCheck::<Walk> { name: "receiver_exhaustive", total: enum_total, case: enum_case, oracle: run_walk }),
        Box::new(PropCheck::<Walk, _> {
            name: "receiver_walks",
            cases: |t| t.pick(400_000, 20_000_000),
            strategy: walk_strategy,
            oracle: run_walk,
            max_shrink_iters: 50_000,
        }),
        Box::new(PropCheck::<ThreadsCase, _> {
            name: "receiver_threads",
            cases: |t| t.pick(16_000, 400_000),
            strategy: threads_strategy,
            oracle: run_threads_case,
            max_shrink_iters: 3_000,
        }),
        Box::new(PropCheck::<SenderCase, _> {
            name: "sender_ids",
            cases: |t| t.pick(8_000, 120_000),
            strategy: sender_strategy,
            oracle: run_sender,
            max_shrink_iters: 2_000,
        }),
        Box::new(PropCheck::<(u64, u64), _> {
            name: "nonce_injective",
            cases: |t| t.pick(20_000, 1_000_000),
            strategy: nonce_strategy,
            oracle: run_nonce,
            max_shrink_iters: 1_000,
        }),
    ]
}

pub fn property() -> Property {
    Property {
        id: "C19",
        rule: "receiver_walks: sequences (<= 2000) of key ids presented to one receiver::State, built as walks (start anywhere in \
               [0, 2^62-1] incl. 0/895/896; steps relative to the previous id and to the highest accepted id, biased to 0, +-1, \
               +-895, +-896, +-897 and 890..897 below the maximum; huge jumps; repeats of earlier ids; KeyId::MAX), every result \
               compared in both directions with the exact model (seen set + max, window 896) incl. the error kind and \
               minimum_unseen_key_id; receiver_exhaustive: all sequences of length <= 4 (thorough 7) over {0,1,895,896,897,1792}. \
               Non-trivial walk: contains an id accepted 890..895 below the maximum, an id refused at exactly 896 below and a replay \
               inside the window. receiver_threads: one multiset of ids split over 2-8 real threads on one State, order-independent \
               oracle (each id accepted at most once; every id less than 896 below the largest presented id accepted exactly once; \
               AlreadyExists only for ids that were accepted); non-trivial: >= 2 threads presented the same id. sender_ids: 1-8 real \
               threads issuing ids for one map entry through sender().next_key_id / Peer::seal_once / Map::seal_once_id / \
               Entry::uni_sealer / Peer::pair / Entry::bidi_local, interleaved with genuine StaleKey packets (min_key_id below, at, \
               far above the thread's current id, replayed, out of order) through the map's four packet entry points: all ids \
               pairwise distinct, per-thread strictly increasing, every id issued after a completely processed StaleKey(m) is >= m \
               (same thread, and across threads by SeqCst stamps); non-trivial: >= 2 threads and >= 1 StaleKey. \
               sender_stale_race: 2-8 threads issue a fixed number of ids each in a tight loop while 1-2 threads deliver pre-built \
               genuine StaleKey packets (min_key_id = k*stride, generated stride 48..400, through the map's four packet entry points) \
               timed so that the update executes while the counter passes min_key_id: the thread measures with a replayed \
               min_key_id-0 packet how many ids are issued while one packet is processed and issues ids itself until the counter \
               is that many (+ a generated offset -64..64) below min_key_id; order-independent oracle: all ids of all threads \
               pairwise distinct, per-thread strictly increasing, genuine packets accepted, a thread's next id after its packet was \
               processed >= min_key_id; non-trivial: at least one StaleKey raised the counter and at least one arrived after the \
               counter had passed it (the timing straddles the race). \
               nonce_injective: IntoNonce for u64 is injective. Distinct = distinct generated programs.",
        assumptions: &[
            "the set model (BTreeSet + max, window 896 taken from the property text) is the trusted base",
            "thread schedules are chosen by the OS scheduler (x86-64, oversubscribed cores), not enumerated; the generated part is the per-thread programs",
            "map entries are created through the public dc::Endpoint/dc::Path handshake interface with a harness TlsSession exporting the generated secret",
            "sender_stale_race: a failing case is remembered per process (the duplicate was observed), so shrinking / re-execution report it even when the scheduler does not repeat the interleaving; `replay` of such a file re-runs the race and is probabilistic",
            "sender ids stay below 2^62 - 2^40: the documented exhaustion panic of next_key_id at 2^62 is not exercised",
            "key/nonce uniqueness is inferred from key-id uniqueness plus injectivity of IntoNonce; HKDF key separation per key id is trusted",
        ],
        subs: subs(),
        shards: 0,
    }
}
