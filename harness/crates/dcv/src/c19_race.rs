//! C19, sender: key ids stay unique while genuine StaleKey notifications race with issuing threads.
//!
//! `sender_ids` (c19.rs) interleaves StaleKey packets and issuing calls in generated per-thread
//! programs, but a StaleKey whose `min_key_id` is far above or below the counter *at the moment
//! the update executes* cannot expose a non-atomic update. Here the workload is built so that the
//! update executes while the counter is passing `min_key_id`:
//!
//! * 2-8 "hammer" threads issue a fixed number of ids each in a tight loop,
//! * 1-2 "staler" threads hold pre-built genuine StaleKey packets with `min_key_id` values
//!   `stride` apart. A staler first measures, with a replayed old packet (`min_key_id` 0, which
//!   takes the same code path and changes nothing), how many ids are issued while the map
//!   processes one packet; then it issues ids itself until the counter is that many ids (plus a
//!   generated offset) below the next packet's `min_key_id`, and delivers the packet.
//!
//! The verdict is order independent: every id handed out by any thread is distinct, every
//! thread sees strictly increasing ids, a genuine StaleKey is accepted, and the id a staler
//! issues after its packet was processed is not below that packet's `min_key_id`. No schedule
//! can make correct code fail any of these. The aiming only affects how often the update
//! really overlaps with other threads' increments (reported as classes).

use crate::{
    c19::run_threads,
    world::{EntrySpec, TestMap},
};
use proptest::prelude::*;
use s2n_codec::{DecoderBufferMut, DecoderParameterizedValueMut as _, EncoderBuffer};
use s2n_quic_core::{
    dc::{self, Endpoint as _},
    inet,
    varint::VarInt,
};
use s2n_quic_dc::packet::{self, secret_control, WireVersion};
use serde::{Deserialize, Serialize};
use std::{
    collections::HashMap,
    sync::{
        atomic::{AtomicUsize, Ordering},
        Mutex,
    },
};
use vcore::{ensure_that, hash_of, CaseResult, Fail, Obs, PropCheck, SubCheck, Tier};

#[derive(Clone, Debug, Hash, PartialEq, Eq, Serialize, Deserialize)]
pub struct RaceCase {
    pub entry: EntrySpec,
    pub hammers: u8,
    pub stalers: u8,
    pub ids_per_hammer: u32,
    /// distance between the `min_key_id` values of consecutive StaleKey packets
    pub stride: u16,
    /// added (cyclically, one per packet) to the measured number of ids issued while one packet is processed
    pub offsets: Vec<i8>,
    /// map entry point the StaleKey packets go through
    pub via: u8,
    /// every 128th id of a hammer is issued through a credential-issuing API instead of `next_key_id`
    pub mix_apis: bool,
}

/// a case that was seen failing in this process fails again when it is re-executed (shrinking,
/// final classification): the violation was observed, whether or not the OS scheduler repeats it
static SEEN_FAILING: Mutex<Option<HashMap<u64, Fail>>> = Mutex::new(None);

struct StalePacket {
    min: u64,
    buf: [u8; secret_control::MAX_PACKET_SIZE],
    len: usize,
}

#[derive(Default)]
struct StalerLog {
    ids: Vec<u64>,
    /// (min_key_id, accepted, first own id issued after the packet was processed)
    rounds: Vec<(u64, bool, u64)>,
    noop_refused: bool,
}

const STALER_ID_CAP: usize = 6_000_000;

fn deliver(tm: &TestMap, via: u8, peer: &std::net::SocketAddr, peer_in: &inet::SocketAddress, buf: &mut [u8]) -> bool {
    match via % 4 {
        0 => {
            let (p, _) = secret_control::stale_key::Packet::decode(DecoderBufferMut::new(buf)).expect("harness: decode own packet");
            tm.map.handle_stale_key_packet(&p, peer).is_some()
        }
        1 => {
            let (p, _) = secret_control::Packet::decode(DecoderBufferMut::new(buf)).expect("harness: decode own packet");
            tm.map.handle_control_packet(&p, peer);
            true
        }
        2 => {
            let (p, _) = packet::Packet::decode_parameterized_mut(16, DecoderBufferMut::new(buf)).expect("harness: decode own packet");
            tm.map.handle_unexpected_packet(&p, peer);
            true
        }
        _ => {
            let info = dc::DatagramInfo::new(peer_in);
            tm.map.clone().on_possible_secret_control_packet(&info, buf)
        }
    }
}

pub fn run_race(case: &RaceCase, obs: &mut Obs) -> CaseResult {
    let key = hash_of(case);
    if let Some(f) = SEEN_FAILING.lock().unwrap_or_else(|e| e.into_inner()).as_ref().and_then(|m| m.get(&key)) {
        return Err(f.clone());
    }
    let r = run_race_once(case, obs);
    if let Err(f) = &r {
        SEEN_FAILING.lock().unwrap_or_else(|e| e.into_inner()).get_or_insert_with(HashMap::new).insert(key, f.clone());
    }
    r
}

fn run_race_once(case: &RaceCase, obs: &mut Obs) -> CaseResult {
    let hammers = (case.hammers as usize).clamp(1, 8);
    let stalers = (case.stalers as usize).clamp(1, 2);
    let per_hammer = (case.ids_per_hammer as usize).clamp(1, 400_000);
    let stride = (case.stride as u64).max(16);
    let mut tm = TestMap::new(&[0x52; 32], 4, false);
    tm.insert(&case.entry).expect("harness: first entry cannot collide");
    let te = &tm.entries[0];
    let sealer = te.remote.control_sealer();
    let peer_in: inet::SocketAddress = te.peer.into();

    // genuine StaleKey packets, min_key_id = stride, 2*stride, ...; staler t owns those with index = t mod stalers
    let build = |min: u64| {
        let value = secret_control::StaleKey { credential_id: te.id, wire_version: WireVersion::ZERO, queue_id: None, min_key_id: VarInt::new(min).expect("harness: min key id") };
        let mut buf = [0u8; secret_control::MAX_PACKET_SIZE];
        let len = value.encode(EncoderBuffer::new(&mut buf), &sealer);
        StalePacket { min, buf, len }
    };
    let n_packets = (hammers * per_hammer * 2) as u64 / stride + 8;
    let packets: Vec<Mutex<(StalePacket, Vec<StalePacket>)>> = (0..stalers)
        .map(|t| Mutex::new((build(0), (0..n_packets).filter(|j| *j as usize % stalers == t).map(|j| build((j + 1) * stride)).collect())))
        .collect();
    let offsets: &[i8] = if case.offsets.is_empty() { &[0] } else { &case.offsets };
    let finished = AtomicUsize::new(0);

    enum Log {
        Hammer(Vec<u64>),
        Staler(StalerLog),
    }
    let logs = run_threads(hammers + stalers, |t| {
        if t < hammers {
            let mut ids = Vec::with_capacity(per_hammer);
            let peer = tm.map.get_untracked(te.peer).expect("harness: peer entry");
            for i in 0..per_hammer {
                let id = if case.mix_apis && i % 128 == 127 {
                    match (i / 128) % 3 {
                        0 => *peer.seal_once().1.key_id,
                        1 => *te.entry.uni_sealer().1.key_id,
                        _ => *tm.map.seal_once_id(te.id).expect("harness: entry by id").1.key_id,
                    }
                } else {
                    *te.entry.sender().next_key_id()
                };
                ids.push(id);
            }
            finished.fetch_add(1, Ordering::Release);
            Log::Hammer(ids)
        } else {
            let t = t - hammers;
            let mut guard = packets[t].lock().unwrap();
            let (noop, mine) = &mut *guard;
            let mut log = StalerLog::default();
            let sender = te.entry.sender();
            let mut oi = t;
            for pkt in mine.iter_mut() {
                if finished.load(Ordering::Acquire) == hammers || log.ids.len() + 2 * stride as usize + 64 > STALER_ID_CAP {
                    break;
                }
                // ids issued (by everybody) while the map processes one StaleKey packet
                let a = *sender.next_key_id();
                log.ids.push(a);
                log.noop_refused |= !deliver(&tm, case.via, &te.peer, &peer_in, &mut noop.buf[..noop.len]);
                let mut cur = *sender.next_key_id();
                log.ids.push(cur);
                let lead = ((cur - a) as i64 + offsets[oi % offsets.len()] as i64).max(0) as u64;
                oi += stalers;
                if pkt.min < cur + lead {
                    // the counter is already too close to (or beyond) this packet's minimum
                    continue;
                }
                while cur + lead < pkt.min {
                    cur = *sender.next_key_id();
                    log.ids.push(cur);
                }
                let accepted = deliver(&tm, case.via, &te.peer, &peer_in, &mut pkt.buf[..pkt.len]);
                let after = *sender.next_key_id();
                log.ids.push(after);
                log.rounds.push((pkt.min, accepted, after));
            }
            Log::Staler(log)
        }
    })?;

    // --- verdict
    let total: usize = logs.iter().map(|l| match l {
        Log::Hammer(v) => v.len(),
        Log::Staler(s) => s.ids.len(),
    }).sum();
    let max_id = logs.iter().filter_map(|l| match l {
        Log::Hammer(v) => v.iter().max().copied(),
        Log::Staler(s) => s.ids.iter().max().copied(),
    }).max().unwrap_or(0);
    ensure_that!(max_id < (total as u64 + n_packets * stride + 1024) * 2, "sender:key-id-out-of-range", "the highest issued key id is {max_id} after {total} ids and StaleKey minimums up to {}", n_packets * stride);
    let mut owner: Vec<u8> = vec![u8::MAX; max_id as usize + 1];
    for (t, l) in logs.iter().enumerate() {
        let ids = match l {
            Log::Hammer(v) => v,
            Log::Staler(s) => &s.ids,
        };
        let mut last: Option<u64> = None;
        for (i, id) in ids.iter().enumerate() {
            let o = owner[*id as usize];
            ensure_that!(
                o == u8::MAX,
                "sender:duplicate-key-id",
                "key id {id} was issued twice (to thread {o} and thread {t}; threads 0..{hammers} issue ids in a loop, the other {stalers} deliver genuine StaleKey packets with min_key_id = k*{stride} while the counter passes them; {total} ids issued in total)"
            );
            owner[*id as usize] = t as u8;
            if let Some(l) = last {
                ensure_that!(*id > l, "sender:not-increasing", "thread {t}: its {i}th id {id} follows its id {l}");
            }
            last = Some(*id);
        }
    }
    let (mut raised, mut late, mut close) = (0u64, 0u64, 0u64);
    for (t, l) in logs.iter().enumerate() {
        let Log::Staler(s) = l else { continue };
        ensure_that!(!s.noop_refused, "sender:genuine-stale-key-refused", "thread {t}: a genuine (replayed) StaleKey packet with min_key_id 0 was not accepted");
        for (min, accepted, after) in &s.rounds {
            ensure_that!(*accepted, "sender:genuine-stale-key-refused", "thread {t}: the genuine StaleKey packet with min_key_id {min} was not accepted");
            ensure_that!(after >= min, "sender:below-stale-minimum", "thread {t}: issued id {after} after the genuine StaleKey packet with min_key_id {min} had been processed by this thread");
            // the packet raised the counter iff the id just below its minimum was never issued
            if owner[*min as usize - 1] == u8::MAX {
                raised += 1;
                if *min >= 5 && owner[*min as usize - 5] != u8::MAX {
                    close += 1;
                }
            } else {
                late += 1;
            }
        }
    }
    // afterwards the sender continues above everything
    let next = *te.entry.sender().next_key_id();
    ensure_that!(next > max_id, "sender:duplicate-key-id", "after all threads finished the sender issued {next}, not above the highest id issued before ({max_id})");

    obs.units = total as u64;
    obs.nontrivial(raised > 0 && late > 0);
    obs.class_if(raised > 0 && late > 0, "stale-keys-both-raising-and-late");
    obs.class_if(close >= 10, "raised-by-less-than-5-ids>=10x");
    obs.class_if(raised + late >= 1000, "stale-keys>=1000");
    obs.class_if(raised == 0, "no-stale-key-raised");
    obs.class_if(late == 0, "no-stale-key-late");
    obs.class_if(hammers >= 5, "hammers>=5");
    obs.class_if(stalers == 2, "stalers=2");
    obs.sample = Some(serde_json::json!({ "hammers": hammers, "stalers": stalers, "ids": total, "stale_raised": raised, "stale_raised_by_<5": close, "stale_late": late }));
    Ok(())
}

fn race_strategy(_t: Tier) -> impl Strategy<Value = RaceCase> {
    (
        crate::c19::entry_spec_strategy(),
        (2u8..=8, 1u8..=2, 20_000u32..=80_000, prop_oneof![48u16..=128, 48u16..=400]),
        prop::collection::vec(prop_oneof![3 => -24i8..=8, 1 => -64i8..=64, 1 => 0i8..=64], 4..32),
        (0u8..4, any::<bool>()),
    )
        .prop_map(|(entry, (hammers, stalers, ids_per_hammer, stride), offsets, (via, mix_apis))| RaceCase { entry, hammers, stalers, ids_per_hammer, stride, offsets, via, mix_apis })
}

pub fn subs() -> Vec<Box<dyn SubCheck>> {
    vec![Box::new(PropCheck::<RaceCase, _> { name: "sender_stale_race", cases: |t| t.pick(320, 8_000), strategy: race_strategy, oracle: run_race, max_shrink_iters: 8 })]
}
