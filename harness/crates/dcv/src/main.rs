//! dcv — checks for the datacenter variant s2n-quic-dc: C18 (packet codec + authentication
//! non-interference) and C19 (key-id replay window / key-id issuance).

mod c18;
mod c18_map;
mod c18_open;
mod c19;
mod c19_race;
mod world;

fn main() {
    vcore::main_with(vec![c18::property(), c19::property()])
}
