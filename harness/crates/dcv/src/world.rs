//! Shared fixtures for C18/C19: a `path::secret::Map` whose entries are created through the
//! public handshake interface (`dc::Endpoint::new_path` + `dc::Path::on_path_secrets_ready` /
//! `on_peer_stateless_reset_tokens` / `on_dc_handshake_complete`) from *generated* secrets, so
//! that the harness knows every secret, can derive the peer-side keys through the public
//! `schedule::Secret` API and thereby build genuine secret-control packets without any hook.

use s2n_quic_core::{
    crypto::tls::{self, TlsSession},
    dc::{self, Endpoint as _, Path as _},
    event::IntoEvent as _,
    inet, stateless_reset,
    time::NoopClock,
};
use s2n_quic_dc::{
    credentials::Id,
    event,
    path::secret::{
        map::Entry,
        schedule::{self, Ciphersuite},
        stateless_reset::Signer,
        Map,
    },
    psk::io::HandshakeReason,
};
use serde::{Deserialize, Serialize};
use std::{
    net::{Ipv4Addr, SocketAddr, SocketAddrV4},
    sync::{Arc, Mutex},
};

pub const MAX_VARINT: u64 = (1 << 62) - 1;
pub const TAG_LEN: usize = 16;

pub fn suite(aes256: bool) -> Ciphersuite {
    if aes256 {
        Ciphersuite::AES_GCM_256_SHA384
    } else {
        Ciphersuite::AES_GCM_128_SHA256
    }
}

pub fn endpoint(client: bool) -> schedule::endpoint::Type {
    if client {
        schedule::endpoint::Type::Client
    } else {
        schedule::endpoint::Type::Server
    }
}

/// The two views of one path secret: `local` belongs to the endpoint of type `client`,
/// `remote` to its peer. `local` seals what `remote` opens and vice versa.
pub fn secret_pair(aes256: bool, client: bool, secret: &[u8; 32]) -> (schedule::Secret, schedule::Secret) {
    let local = schedule::Secret::new(suite(aes256), dc::SUPPORTED_VERSIONS[0], endpoint(client), secret);
    let remote = schedule::Secret::new(suite(aes256), dc::SUPPORTED_VERSIONS[0], endpoint(!client), secret);
    (local, remote)
}

// ---------------------------------------------------------------------------------------
// event recorder

#[derive(Default)]
pub struct Rec {
    names: Mutex<Vec<&'static str>>,
    ups_accepted: Mutex<Vec<(bool, bool)>>,
    keys_accepted: Mutex<Vec<u64>>,
}

impl Rec {
    /// takes the names of all events seen since the last call
    pub fn take(&self) -> Vec<&'static str> {
        std::mem::take(&mut *self.names.lock().unwrap())
    }
    /// (evicted, scheduled_handshake) of every accepted UnknownPathSecret packet since the last call
    pub fn take_ups_accepted(&self) -> Vec<(bool, bool)> {
        std::mem::take(&mut *self.ups_accepted.lock().unwrap())
    }
    /// key id of every `key_accepted` event (replay window marked the id as seen) since the last call
    pub fn take_keys_accepted(&self) -> Vec<u64> {
        std::mem::take(&mut *self.keys_accepted.lock().unwrap())
    }
}

impl event::Subscriber for Rec {
    type ConnectionContext = ();

    fn create_connection_context(
        &self,
        _meta: &event::api::ConnectionMeta,
        _info: &event::api::ConnectionInfo,
    ) -> Self::ConnectionContext {
    }

    fn on_unknown_path_secret_packet_accepted(
        &self,
        _meta: &event::api::EndpointMeta,
        event: &event::api::UnknownPathSecretPacketAccepted,
    ) {
        self.ups_accepted.lock().unwrap().push((event.evicted, event.scheduled_handshake));
    }

    fn on_key_accepted(&self, _meta: &event::api::EndpointMeta, event: &event::api::KeyAccepted) {
        self.keys_accepted.lock().unwrap().push(event.key_id);
    }

    fn on_event<M: event::Meta, E: event::Event>(&self, _meta: &M, _event: &E) {
        self.names.lock().unwrap().push(E::NAME);
    }
}

/// Events that are emitted by the background cleaner / lock instrumentation and say nothing
/// about packet handling.
pub fn is_noise(name: &str) -> bool {
    matches!(
        name,
        "path_secret_map:cleaner_cycled"
            | "path_secret_map:id_cache_write_lock"
            | "path_secret_map:address_cache_write_lock"
            | "path_secret_map:serialized"
    )
}

// ---------------------------------------------------------------------------------------
// a TLS session that exports a chosen secret

struct Session {
    secret: [u8; 32],
    aes256: bool,
}

impl TlsSession for Session {
    fn tls_exporter(&self, _label: &[u8], _context: &[u8], output: &mut [u8]) -> Result<(), tls::TlsExportError> {
        assert_eq!(output.len(), 32, "harness: exporter length");
        output.copy_from_slice(&self.secret);
        Ok(())
    }

    fn cipher_suite(&self) -> tls::CipherSuite {
        if self.aes256 {
            tls::CipherSuite::TLS_AES_256_GCM_SHA384
        } else {
            tls::CipherSuite::TLS_AES_128_GCM_SHA256
        }
    }

    fn peer_cert_chain_der(&self) -> Result<Vec<Vec<u8>>, tls::ChainError> {
        Ok(vec![])
    }

    fn client_cert_chain_der(&self) -> Result<Option<Vec<u8>>, tls::ChainError> {
        Ok(None)
    }
}

// ---------------------------------------------------------------------------------------
// map fixture

#[derive(Clone, Debug, Hash, PartialEq, Eq, Serialize, Deserialize)]
pub struct EntrySpec {
    pub secret: [u8; 32],
    pub aes256: bool,
    /// endpoint type of the map owner for this path
    pub client: bool,
    /// the peer's stateless-reset token for this path secret
    pub token: [u8; 16],
}

pub struct TestEntry {
    pub spec: EntrySpec,
    pub entry: Arc<Entry>,
    pub id: Id,
    pub peer: SocketAddr,
    /// the peer's view of the secret: `remote.control_sealer()` signs what the map verifies
    pub remote: schedule::Secret,
}

pub type Handshakes = Arc<Mutex<Vec<(SocketAddr, &'static str)>>>;

pub struct TestMap {
    pub map: Map,
    pub rec: Arc<Rec>,
    pub handshakes: Handshakes,
    pub entries: Vec<TestEntry>,
    created: std::time::Instant,
    /// entries of the handshake-callback log already matched with their event
    periodic_matched: Mutex<usize>,
}

pub fn peer_addr(index: usize) -> SocketAddr {
    SocketAddr::V4(SocketAddrV4::new(
        Ipv4Addr::new(10, 1, (index >> 8) as u8, index as u8),
        4433,
    ))
}

impl TestMap {
    pub fn new(signer_secret: &[u8; 32], capacity: usize, evict_on_unknown_path_secret: bool) -> Self {
        let rec = Arc::new(Rec::default());
        let map = Map::new(
            Signer::new(signer_secret),
            capacity,
            evict_on_unknown_path_secret,
            NoopClock,
            rec.clone(),
        );
        let handshakes: Handshakes = Default::default();
        let hs = handshakes.clone();
        map.register_request_handshake(Box::new(move |peer, reason| {
            let reason = match reason {
                HandshakeReason::User => "user",
                HandshakeReason::Periodic => "periodic",
                HandshakeReason::Remote => "remote",
            };
            hs.lock().unwrap().push((peer, reason));
            None
        }));
        TestMap { map, rec, handshakes, entries: vec![], created: std::time::Instant::now(), periodic_matched: Mutex::new(0) }
    }

    /// Inserts an entry exactly the way a completed dc handshake does. Returns `None` (and
    /// inserts nothing) when the path secret id collides with an existing one.
    pub fn insert(&mut self, spec: &EntrySpec) -> Option<usize> {
        let (local, remote) = secret_pair(spec.aes256, spec.client, &spec.secret);
        if self.entries.iter().any(|e| e.id == *local.id()) {
            return None;
        }
        let index = self.entries.len();
        let peer = peer_addr(index);
        let addr: inet::SocketAddress = peer.into();
        let endpoint_type = if spec.client {
            s2n_quic_core::event::builder::EndpointType::Client
        } else {
            s2n_quic_core::event::builder::EndpointType::Server
        }
        .into_event();
        let info = dc::ConnectionInfo::new(
            &addr,
            dc::SUPPORTED_VERSIONS[0],
            dc::testing::TEST_APPLICATION_PARAMS.clone(),
            endpoint_type,
        );
        let mut path = self.map.new_path(&info).expect("harness: new_path");
        let session = Session { secret: spec.secret, aes256: spec.aes256 };
        path.on_path_secrets_ready(&session).expect("harness: on_path_secrets_ready");
        let token = stateless_reset::Token::from(spec.token);
        path.on_peer_stateless_reset_tokens([token].iter());
        path.on_dc_handshake_complete();
        let entry = path.entry().expect("harness: entry after handshake");
        assert_eq!(entry.id(), local.id(), "harness: id derivation");
        self.entries.push(TestEntry { spec: spec.clone(), id: *entry.id(), entry, peer, remote });
        Some(index)
    }

    pub fn remote_handshakes(&self) -> Vec<SocketAddr> {
        self.handshakes
            .lock()
            .unwrap()
            .iter()
            .filter(|(_, r)| *r == "remote")
            .map(|(p, _)| *p)
            .collect()
    }

    /// packet-related events since the last call (cleaner / lock instrumentation removed).
    ///
    /// The map's background cleaner (first pass 5..60 s after creation) may request *periodic*
    /// re-handshakes; their `background_handshake_requested` events are matched with the
    /// callback log (reason Periodic) and removed, so that only packet-triggered requests remain.
    pub fn take_events(&self) -> Vec<&'static str> {
        const HS: &str = "path_secret_map:background_handshake_requested";
        let mut events: Vec<&'static str> = self.rec.take().into_iter().filter(|n| !is_noise(n)).collect();
        if events.contains(&HS) && self.created.elapsed() > std::time::Duration::from_secs(4) {
            // every event is followed (a few instructions later, on the emitting thread) by one
            // entry in the callback log, which carries the reason
            let mut matched = self.periodic_matched.lock().unwrap();
            let in_events = events.iter().filter(|e| **e == HS).count();
            for _ in 0..100 {
                if self.handshakes.lock().unwrap().len() - *matched >= in_events {
                    break;
                }
                std::thread::sleep(std::time::Duration::from_millis(20));
            }
            let log = self.handshakes.lock().unwrap();
            let mut remove = log[(*matched).min(log.len())..].iter().filter(|(_, r)| *r == "periodic").count().min(in_events);
            *matched = log.len();
            drop(log);
            events.retain(|e| {
                if *e == HS && remove > 0 {
                    remove -= 1;
                    false
                } else {
                    true
                }
            });
        } else if events.contains(&HS) {
            *self.periodic_matched.lock().unwrap() = self.handshakes.lock().unwrap().len();
        }
        events
    }
}
