//! The generated value of C07: role, both endpoints' configurations, the stream scripts and
//! the network's fault tape. Plain data, serde-replayable, no floats. The s2n-quic side, the
//! scripts and the tape reuse the types of the end-to-end world.

use proptest::prelude::*;
use serde::{Deserialize, Serialize};
use world::{
    gen::{self as wgen, FaultProfile, GenCfg},
    scenario::{ConnScript, EndpointCfg, Fault, NetCfg, Side, StreamScript, WStep, WriterScript},
};

#[derive(Clone, Copy, Debug, Hash, PartialEq, Eq, Serialize, Deserialize)]
pub enum QCc {
    Reno,
    Cubic,
    Bbr,
}

/// configuration of the independent stack (quiche 0.29.3)
#[derive(Clone, Debug, Hash, PartialEq, Eq, Serialize, Deserialize)]
pub struct QuicheCfg {
    pub max_data: u64,
    pub bidi_local: u64,
    pub bidi_remote: u64,
    pub uni: u64,
    pub streams_bidi: u64,
    pub streams_uni: u64,
    /// max_udp_payload_size transport parameter
    pub max_recv_udp: u16,
    pub max_send_udp: u16,
    /// quiche probes the path MTU itself (then `max_send_udp` is not clamped to what the s2n-quic
    /// endpoint's socket buffer can take)
    pub pmtud: bool,
    pub ack_delay_exponent: u8,
    pub max_ack_delay_ms: u16,
    pub active_cid_limit: u8,
    /// 0 (zero-length connection id, quiche client only) or 8..=20
    pub scid_len: u8,
    /// quiche issues spare connection ids (NEW_CONNECTION_ID) as far as the peer's limit allows
    pub issue_scids: bool,
    pub cc: QCc,
    pub pacing: bool,
    pub hystart: bool,
    pub idle_ms: u32,
    pub initial_rtt_ms: u16,
    /// upper bounds of quiche's receive-window auto tuning
    pub max_conn_window: u64,
    pub max_stream_window: u64,
    /// quiche read buffer (bytes handed to one `stream_recv`)
    pub read_chunk: u32,
    /// quiche as server: answer the first Initial with a Retry
    pub retry: bool,
}

#[derive(Clone, Debug, Hash, PartialEq, Eq, Serialize, Deserialize)]
pub struct Case {
    /// seeds the executor and the s2n-quic endpoint's random provider
    pub seed: u64,
    /// true: s2n-quic client <-> quiche server; false: quiche client <-> s2n-quic server
    pub s2n_client: bool,
    pub s2n: EndpointCfg,
    /// s2n-quic as server: answer the first Initial with a Retry
    pub s2n_retry: bool,
    /// certificate of the server (either side): RSA (PKCS#1 key) or ECDSA
    pub rsa_cert: bool,
    pub q: QuicheCfg,
    pub conn: ConnScript,
    pub net: NetCfg,
    /// s2n-quic starts a 1-RTT key update after this many packets per key (hook aws_s2n_quic_verif); None = never in practice
    #[serde(default)]
    pub key_update_after: Option<u32>,
}

impl Case {
    pub fn s2n_side(&self) -> Side {
        if self.s2n_client {
            Side::Client
        } else {
            Side::Server
        }
    }
    pub fn q_side(&self) -> Side {
        if self.s2n_client {
            Side::Server
        } else {
            Side::Client
        }
    }
}

pub const S2N_DEFAULT_WINDOW: u64 = 3_750_000;
pub const S2N_DEFAULT_STREAMS: u64 = 100;

/// virtual-time cap of a run
pub const CAP_MS: u64 = 3_600_000;
/// no application byte, no finished task for this long on a clean network = stalled
pub const STALL_MS: u64 = 1_500_000;

const GEN: GenCfg = GenCfg {
    max_clients: 1,
    max_streams: 4,
    max_bytes: 262_144,
    faults: FaultProfile::FinitePrefix,
    small_windows_pct: 50,
    aborts: false,
    // longer than any chain of probe timeouts the bounded tape can cause (a peer's max_ack_delay of 2^14-1 ms makes
    // a probe timeout 16.4 s; runs of <= 2 drops per direction can defeat 3 consecutive probe rounds: 16.4 s *
    // (1+2+4+8) = 246 s): an idle timeout is then evidence of a stall, not of loss
    idle_ms: (600_000, 1_200_000),
    cap_ms: CAP_MS,
    server_initiated: true,
};

fn qwindow() -> BoxedStrategy<u64> {
    prop_oneof![
        // not 1: quiche 0.29.3 raises a limit when `available < window / 2`, which a 1-byte window never satisfies
        // (it then never sends MAX_STREAM_DATA / MAX_DATA and the transfer deadlocks) -- quiche's limitation
        3 => prop_oneof![Just(2u64), Just(3), Just(100), Just(1200), Just(1500), Just(4096), Just(8192), Just(16384), Just(65536)],
        3 => 2u64..200_000,
        2 => 200_000u64..2_000_000,
        3 => Just(10_000_000u64),
    ]
    .boxed()
}

fn qstreams() -> BoxedStrategy<u64> {
    prop_oneof![3 => 1u64..6, 2 => Just(100u64), 1 => 6u64..1000].boxed()
}

fn udp_size() -> BoxedStrategy<u16> {
    prop_oneof![3 => Just(1200u16), 2 => Just(1350u16), 1 => Just(1472u16), 1 => Just(9000u16), 3 => 1200u16..=9000].boxed()
}

pub fn quiche_cfg(zero_len_cid_ok: bool, server: bool) -> BoxedStrategy<QuicheCfg> {
    let scid = if zero_len_cid_ok {
        prop_oneof![2 => Just(0u8), 1 => Just(8u8), 1 => Just(16u8), 1 => Just(20u8), 2 => 8u8..=20].boxed()
    } else {
        prop_oneof![1 => Just(8u8), 2 => Just(16u8), 1 => Just(20u8), 2 => 8u8..=20].boxed()
    };
    let retry = if server { prop::bool::weighted(0.25).boxed() } else { Just(false).boxed() };
    (
        (qwindow(), qwindow(), qwindow(), qwindow(), qstreams(), qstreams()),
        (udp_size(), udp_size(), prop::bool::weighted(0.2)),
        (
            // not 0: quiche 0.29.3 omits ack_delay_exponent / max_ack_delay from its transport parameters when they
            // are 0 (the peer then rightly assumes the defaults 3 / 25 ms) -- a quiche defect, not s2n-quic's
            prop_oneof![2 => Just(3u8), 1 => Just(1u8), 1 => Just(20u8), 2 => 1u8..=20],
            prop_oneof![2 => Just(25u16), 1 => Just(1u16), 1 => Just(2u16), 1 => Just(16383u16), 2 => 1u16..400],
            2u8..=8,
        ),
        (scid, any::<bool>(), prop_oneof![3 => Just(QCc::Cubic), 2 => Just(QCc::Bbr), 1 => Just(QCc::Reno)], any::<bool>(), any::<bool>()),
        (600_000u32..=1_200_000, prop_oneof![3 => Just(333u16), 1 => 1u16..500]),
        (prop_oneof![1 => Just(24_000_000u64), 1 => 1u64..2_000_000], prop_oneof![1 => Just(16_000_000u64), 1 => 1u64..2_000_000]),
        prop_oneof![2 => Just(65_536u32), 1 => 1u32..5000, 1 => 1u32..100_000],
        retry,
    )
        .prop_map(
            |(
                (max_data, bidi_local, bidi_remote, uni, streams_bidi, streams_uni),
                (max_recv_udp, max_send_udp, pmtud),
                (ack_delay_exponent, max_ack_delay_ms, active_cid_limit),
                (scid_len, issue_scids, cc, pacing, hystart),
                (idle_ms, initial_rtt_ms),
                (max_conn_window, max_stream_window),
                read_chunk,
                retry,
            )| QuicheCfg {
                max_data,
                bidi_local,
                bidi_remote,
                uni,
                streams_bidi,
                streams_uni,
                max_recv_udp,
                max_send_udp,
                pmtud,
                ack_delay_exponent,
                max_ack_delay_ms,
                active_cid_limit,
                scid_len,
                issue_scids,
                cc,
                pacing,
                hystart,
                idle_ms,
                initial_rtt_ms,
                max_conn_window,
                max_stream_window,
                read_chunk,
                retry,
            },
        )
        .boxed()
}

fn stream() -> BoxedStrategy<StreamScript> {
    (
        prop_oneof![1 => Just(Side::Client), 1 => Just(Side::Server)],
        prop::bool::weighted(0.6),
        wgen::writer(GEN.max_bytes, false),
        wgen::reader(false),
        wgen::writer(GEN.max_bytes, false),
        wgen::reader(false),
    )
        .prop_map(|(initiator, bidi, fwd, fwd_reader, rev, rev_reader)| StreamScript {
            initiator,
            bidi,
            fwd,
            fwd_reader,
            rev: bidi.then_some(rev),
            rev_reader: bidi.then_some(rev_reader),
        })
        .boxed()
}

/// At most `max_run` consecutive drops and at most a quarter of the tape dropped: every chain of
/// probe timeouts the tape can cause stays far below the idle timeouts, and the transfer always has a
/// clean network after the prefix.
fn tame(tape: &mut [Fault]) {
    let budget = tape.len() / 4;
    let mut drops = 0;
    let mut run = 0;
    for (i, f) in tape.iter_mut().enumerate() {
        if matches!(f, Fault::Drop) {
            // losses only among the first 16 datagrams of a direction: every lost retransmission of one message doubles
            // the sender's probe timeout, and with the RTT estimates the two stacks reach after a lossy start (tens of
            // seconds, see cases/handshake-finished-lost-five-times.json) the fifth transmission of a handshake message
            // would be due after every idle timeout in use: a finite tape that happens to hit each retransmission turns
            // into an idle timeout that is nobody's defect. Later entries reorder (delay) instead of dropping.
            if i >= 16 {
                *f = Fault::Delay(3);
                run = 0;
                continue;
            }
            if run >= 2 || drops >= budget {
                *f = Fault::Pass;
                run = 0;
            } else {
                run += 1;
                drops += 1;
            }
        } else {
            run = 0;
        }
    }
}

fn truncate_writer(w: &mut WriterScript, max_total: u64) {
    let mut total = 0u64;
    for s in w.steps.iter_mut() {
        if let WStep::Send(n) | WStep::Write(n) = s {
            let room = max_total.saturating_sub(total);
            if (*n as u64) > room {
                *n = room as u32;
            }
            total += *n as u64;
        }
    }
}

/// how many windows' worth of data a direction may carry (bounds the number of round trips a
/// case can need, so that the virtual-time cap is not what ends cases with tiny windows)
const WINDOWS_PER_DIRECTION: u64 = 48;

/// the receive window `reader` grants for a stream (`bidi`, opened by `initiator`) written by the other side
fn stream_window(c: &Case, bidi: bool, initiator: Side, reader: Side) -> u64 {
    let reader_is_initiator = initiator == reader;
    if reader == c.s2n_side() {
        let l = &c.s2n.limits;
        let w = if !bidi {
            l.uni_window
        } else if reader_is_initiator {
            l.bidi_local_window
        } else {
            l.bidi_remote_window
        };
        w.unwrap_or(S2N_DEFAULT_WINDOW)
    } else if !bidi {
        c.q.uni
    } else if reader_is_initiator {
        c.q.bidi_local
    } else {
        c.q.bidi_remote
    }
}

pub fn conn_window(c: &Case, reader: Side) -> u64 {
    if reader == c.s2n_side() {
        c.s2n.limits.data_window.unwrap_or(S2N_DEFAULT_WINDOW)
    } else {
        c.q.max_data
    }
}

fn other(s: Side) -> Side {
    match s {
        Side::Client => Side::Server,
        Side::Server => Side::Client,
    }
}

/// Construction instead of rejection: clamps the drawn values to what the roles allow and to
/// transfer sizes that finish in a bounded number of flow-control round trips.
pub fn normalise(mut c: Case) -> Case {
    // roles
    if c.s2n_client {
        c.s2n_retry = false;
        if c.q.scid_len == 0 {
            c.q.scid_len = 16;
        }
    } else {
        c.q.retry = false;
    }
    if c.q.scid_len == 0 {
        c.q.issue_scids = false;
    }
    // what the s2n-quic endpoint's socket buffer takes (max_mtu includes 28 bytes of IP+UDP):
    // quiche is told a path MTU that the path really has, unless it probes by itself
    if !c.q.pmtud {
        let s2n_udp = c.s2n.mtu.2.saturating_sub(28).max(1200);
        c.q.max_send_udp = c.q.max_send_udp.min(s2n_udp);
    }
    c.q.max_send_udp = c.q.max_send_udp.max(1200);
    c.q.max_recv_udp = c.q.max_recv_udp.max(1200);
    // long timeouts: see GEN.idle_ms
    c.s2n.limits.handshake_ms = Some(4_000_000);
    // transfer sizes
    let mut budget = [
        WINDOWS_PER_DIRECTION.saturating_mul(conn_window(&c, Side::Client)),
        WINDOWS_PER_DIRECTION.saturating_mul(conn_window(&c, Side::Server)),
    ];
    let idx = |s: Side| if s == Side::Client { 0 } else { 1 };
    let mut streams = std::mem::take(&mut c.conn.streams);
    for s in streams.iter_mut() {
        let acceptor = other(s.initiator);
        // forward: initiator writes, acceptor reads
        let cap = WINDOWS_PER_DIRECTION.saturating_mul(stream_window(&c, s.bidi, s.initiator, acceptor)).min(budget[idx(acceptor)]);
        truncate_writer(&mut s.fwd, cap);
        budget[idx(acceptor)] -= s.fwd.total().min(budget[idx(acceptor)]);
        s.fwd_reader.stop_after = None;
        let (bidi, initiator) = (s.bidi, s.initiator);
        if let Some(rev) = s.rev.as_mut() {
            let cap = WINDOWS_PER_DIRECTION.saturating_mul(stream_window(&c, bidi, initiator, initiator)).min(budget[idx(initiator)]);
            truncate_writer(rev, cap);
            budget[idx(initiator)] -= rev.total().min(budget[idx(initiator)]);
        }
        if let Some(r) = s.rev_reader.as_mut() {
            r.stop_after = None;
        }
    }
    c.conn.streams = streams;
    c.conn.close_code = Some(0);
    // tape
    tame(&mut c.net.tape_up);
    tame(&mut c.net.tape_down);
    if c.s2n_retry {
        // s2n-quic's Retry tokens live for one to two key rotation periods (1-2 s, not configurable through the
        // public provider); a client cannot recover from an expired one (RFC 9000 8.1.3 lets the server discard
        // such Initials). The exchange Initial -> Retry -> Initial+token is therefore kept free of faults, so
        // that a failed handshake is never just an expired token.
        // (the client may have sent a second token-less Initial on a probe timeout before the Retry arrives, and
        // each of them is answered with a Retry)
        for f in c.net.tape_up.iter_mut().take(6) {
            *f = Fault::Pass;
        }
        for f in c.net.tape_down.iter_mut().take(4) {
            *f = Fault::Pass;
        }
    }
    c.net.tape_repeat = false;
    c.net.blackholes.clear();
    c.net.overrides.clear();
    c.net.max_udp_payload = 65_000;
    c
}

pub fn case(s2n_client: bool) -> BoxedStrategy<Case> {
    (
        any::<u64>(),
        wgen::endpoint(GEN),
        prop::bool::weighted(0.25),
        any::<bool>(),
        quiche_cfg(!s2n_client, s2n_client),
        prop::collection::vec(stream(), 1..=GEN.max_streams),
        wgen::net(GEN),
        prop_oneof![2 => Just(None), 1 => (2u8..=8).prop_map(Some)],
        prop_oneof![2 => Just(None), 1 => prop_oneof![Just(40u32), Just(100), 40u32..1_000].prop_map(Some)],
    )
        .prop_map(move |(seed, mut s2n, s2n_retry, rsa_cert, q, streams, net, cids, key_update_after)| {
            s2n.limits.max_active_cids = cids;
            normalise(Case { seed, s2n_client, s2n, s2n_retry, rsa_cert, q, conn: ConnScript { streams, close_code: Some(0), datagrams: vec![], server_close: None }, net, key_update_after })
        })
        .boxed()
}
