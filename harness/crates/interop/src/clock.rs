//! Virtual monotonic clock for the independent stack.
//!
//! quiche reads the time through `std::time::Instant::now()`, i.e. `clock_gettime(CLOCK_MONOTONIC)`.
//! The binary (`main.rs`) defines the C symbol `clock_gettime` and forwards it to [`clock_gettime_impl`],
//! so that every monotonic reading inside this process comes from here. While a case runs
//! ([`Guard`] alive) the monotonic clocks return `BASE + virtual time of the simulation`; outside of a
//! case (engine bookkeeping, wall-time measurement of the shard) they return the kernel's value.
//! All other clocks (CLOCK_REALTIME: certificate validity checks) always go to the kernel.
//!
//! The state is process-global: one case at a time per process (the engine shards by processes).

use std::sync::atomic::{AtomicBool, AtomicU64, Ordering};

static VIRTUAL_ON: AtomicBool = AtomicBool::new(false);
static VIRTUAL_NS: AtomicU64 = AtomicU64::new(0);
/// number of monotonic readings served from the virtual clock (self test / statistics)
static SERVED: AtomicU64 = AtomicU64::new(0);

/// never zero, far away from anything the kernel would return on a freshly booted sandbox or not: the
/// two domains are never compared (an `Instant` taken inside a case does not outlive the case)
const BASE_NS: u64 = 1_000_000 * 1_000_000_000;

/// # Safety
/// `ts` must be valid for writes (the C contract of `clock_gettime`).
pub unsafe fn clock_gettime_impl(clk: libc::clockid_t, ts: *mut libc::timespec) -> libc::c_int {
    let monotonic = matches!(clk, libc::CLOCK_MONOTONIC | libc::CLOCK_MONOTONIC_RAW | libc::CLOCK_MONOTONIC_COARSE | libc::CLOCK_BOOTTIME);
    if monotonic && !ts.is_null() && VIRTUAL_ON.load(Ordering::Relaxed) {
        let ns = BASE_NS + VIRTUAL_NS.load(Ordering::Relaxed);
        (*ts).tv_sec = (ns / 1_000_000_000) as libc::time_t;
        (*ts).tv_nsec = (ns % 1_000_000_000) as libc::c_long;
        SERVED.fetch_add(1, Ordering::Relaxed);
        return 0;
    }
    libc::syscall(libc::SYS_clock_gettime, clk as libc::c_long, ts) as libc::c_int
}

/// sets the virtual time (microseconds since the start of the simulation)
pub fn set_us(us: u64) {
    VIRTUAL_NS.store(us.saturating_mul(1000), Ordering::Relaxed);
}

pub fn served() -> u64 {
    SERVED.load(Ordering::Relaxed)
}

/// virtual mode for the lifetime of the guard
pub struct Guard(());

impl Guard {
    pub fn new() -> Guard {
        assert!(!VIRTUAL_ON.swap(true, Ordering::SeqCst), "one case at a time per process: the virtual clock is process-global");
        set_us(0);
        Guard(())
    }
}

impl Default for Guard {
    fn default() -> Self {
        Self::new()
    }
}

impl Drop for Guard {
    fn drop(&mut self) {
        VIRTUAL_ON.store(false, Ordering::SeqCst);
    }
}

/// Harness invariant: `Instant::now()` really is served by the interposed symbol. Panics (harness
/// error, never a verdict) if the binary was linked in a way that bypasses it.
pub fn self_test() {
    let _g = Guard::new();
    set_us(5_000_000);
    let a = std::time::Instant::now();
    set_us(7_500_000);
    let b = std::time::Instant::now();
    let d = b.duration_since(a);
    assert!(
        d == std::time::Duration::from_micros(2_500_000),
        "clock interposition is not effective: Instant::now() advanced by {d:?} while the virtual clock advanced by 2.5s"
    );
}

/// debugging aid (C07_QLOG=1): quiche's own trace log on stderr, stamped with the virtual time
pub struct StderrLog;

impl log::Log for StderrLog {
    fn enabled(&self, _m: &log::Metadata) -> bool {
        true
    }
    fn log(&self, r: &log::Record) {
        eprintln!("{:>9}us quiche {}", VIRTUAL_NS.load(Ordering::Relaxed) / 1000, r.args());
    }
    fn flush(&self) {}
}

pub fn init_debug_log() {
    if std::env::var("C07_QLOG").is_ok() {
        static L: StderrLog = StderrLog;
        let _ = log::set_logger(&L);
        log::set_max_level(log::LevelFilter::Trace);
    }
}
