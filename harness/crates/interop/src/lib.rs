//! C07 — interoperability of s2n-quic with an independent implementation of RFC 9000/9001
//! (Cloudflare quiche 0.29.3 on BoringSSL), in both roles, under loss/reordering/duplication
//! and across the configurable range of windows, stream limits and datagram sizes.

pub mod case;
pub mod clock;
pub mod qpump;
pub mod run;

use case::{conn_window, Case};
use qpump::End;
use run::Outcome;
use std::{collections::HashMap, sync::Mutex};
use vcore::{CaseResult, Fail, Obs, PropCheck, Property, SubCheck, Tier};
use world::{
    app::{ReaderEnd, WriterEnd},
    net::Fate,
    rec::{CloseKind, Ev},
    scenario::{Dir, Side},
    wire::WFrame,
};

/// everything measured on one execution that the histogram / non-trivial rule need
#[derive(Default, Debug, Clone)]
pub struct Facts {
    pub dropped_up: usize,
    pub dropped_down: usize,
    pub delayed: usize,
    pub duplicated: usize,
    pub fc_updates_tx: usize,
    pub fc_updates_rx: usize,
    pub blocked_frames: usize,
    pub max_streams_frames: usize,
    pub new_cid_tx: usize,
    pub new_cid_rx: usize,
    pub retire_cid: usize,
    pub s2n_lost: usize,
    pub s2n_pto: usize,
    pub key_updates: usize,
    pub total_payload: u64,
    pub min_conn_window: u64,
    pub datagrams: usize,
    pub s2n_rx_undecodable: Option<String>,
    pub s2n_tx_undecodable: Option<String>,
    pub largest_s2n_datagram: usize,
    pub largest_q_datagram: usize,
}

pub fn facts(case: &Case, out: &Outcome) -> Facts {
    let mut f = Facts::default();
    for n in &out.net {
        match n.fate {
            Fate::Dropped => match n.dir {
                Dir::Up => f.dropped_up += 1,
                Dir::Down => f.dropped_down += 1,
            },
            Fate::Delayed => f.delayed += 1,
            Fate::Duplicated(_) => f.duplicated += 1,
            _ => {}
        }
        if n.src == out.s2n_addr {
            f.largest_s2n_datagram = f.largest_s2n_datagram.max(n.len);
        } else {
            f.largest_q_datagram = f.largest_q_datagram.max(n.len);
        }
    }
    f.datagrams = out.net.len();
    for r in &out.recs {
        match &r.ev {
            Ev::Tx { frames, space, pn, .. } => match frames {
                Ok(frames) => {
                    for fr in frames {
                        match fr {
                            WFrame::MaxData(_) | WFrame::MaxStreamData { .. } => f.fc_updates_tx += 1,
                            WFrame::DataBlocked(_) | WFrame::StreamDataBlocked { .. } | WFrame::StreamsBlocked { .. } => f.blocked_frames += 1,
                            WFrame::MaxStreams { .. } => f.max_streams_frames += 1,
                            WFrame::NewConnectionId { .. } => f.new_cid_tx += 1,
                            WFrame::RetireConnectionId(_) => f.retire_cid += 1,
                            WFrame::Unknown(t) if f.s2n_tx_undecodable.is_none() => f.s2n_tx_undecodable = Some(format!("unknown frame type {t:#x} in {space:?} packet {pn}")),
                            _ => {}
                        }
                    }
                }
                Err(e) => {
                    if f.s2n_tx_undecodable.is_none() {
                        f.s2n_tx_undecodable = Some(format!("{e:?} in {space:?} packet {pn}"));
                    }
                }
            },
            Ev::Rx { frames, space, pn, .. } => match frames {
                Ok(frames) => {
                    for fr in frames {
                        match fr {
                            WFrame::MaxData(_) | WFrame::MaxStreamData { .. } => f.fc_updates_rx += 1,
                            WFrame::DataBlocked(_) | WFrame::StreamDataBlocked { .. } | WFrame::StreamsBlocked { .. } => f.blocked_frames += 1,
                            WFrame::MaxStreams { .. } => f.max_streams_frames += 1,
                            WFrame::NewConnectionId { .. } => f.new_cid_rx += 1,
                            WFrame::RetireConnectionId(_) => f.retire_cid += 1,
                            _ => {}
                        }
                    }
                }
                Err(e) => {
                    if f.s2n_rx_undecodable.is_none() {
                        f.s2n_rx_undecodable = Some(format!("{e:?} in {space:?} packet {pn}"));
                    }
                }
            },
            Ev::PacketLost { .. } => f.s2n_lost += 1,
            Ev::PacketSent { mode: world::rec::TxMode::LossRecoveryProbing, .. } => f.s2n_pto += 1,
            Ev::KeyUpdate { generation, .. } if *generation > 0 => f.key_updates += 1,
            _ => {}
        }
    }
    f.total_payload = case.conn.streams.iter().map(|s| s.fwd.total() + s.rev.as_ref().map(|r| r.total()).unwrap_or(0)).sum();
    f.min_conn_window = conn_window(case, Side::Client).min(conn_window(case, Side::Server));
    f
}

fn diag(case: &Case, out: &Outcome) -> String {
    let q = &out.q;
    let closes: Vec<String> = out.recs.iter().filter_map(|r| if let Ev::Closed(k) = &r.ev { Some(format!("{k:?}@{}us", r.t_us)) } else { None }).collect();
    let a = &out.app.conns[0];
    format!(
        "role: {}; end: {:?} at {} ms virtual; quiche: established={:?} local_error={:?} peer_error={:?} timed_out={} closed={} recv_errors={:?} send_errors={:?} stats={} paths=[{}]; s2n-quic: connect={:?} accepted={:?} connection_closed={:?} opener_errors={:?}; datagrams: {} from quiche, {} to quiche",
        if case.s2n_client { "s2n-quic client, quiche server" } else { "quiche client, s2n-quic server" },
        q.end,
        q.end_us / 1000,
        q.established_us,
        q.local_error,
        q.peer_error,
        q.timed_out,
        q.closed,
        q.recv_errors,
        q.send_errors,
        q.stats,
        q.path_stats,
        a.connect_end,
        a.server_accepted_us,
        closes,
        a.opener_errors,
        q.tx_datagrams,
        q.rx_datagrams,
    )
}

fn transport_code_name(code: u64) -> String {
    match code {
        0x0 => "NO_ERROR".into(),
        0x1 => "INTERNAL_ERROR".into(),
        0x2 => "CONNECTION_REFUSED".into(),
        0x3 => "FLOW_CONTROL_ERROR".into(),
        0x4 => "STREAM_LIMIT_ERROR".into(),
        0x5 => "STREAM_STATE_ERROR".into(),
        0x6 => "FINAL_SIZE_ERROR".into(),
        0x7 => "FRAME_ENCODING_ERROR".into(),
        0x8 => "TRANSPORT_PARAMETER_ERROR".into(),
        0x9 => "CONNECTION_ID_LIMIT_ERROR".into(),
        0xa => "PROTOCOL_VIOLATION".into(),
        0xb => "INVALID_TOKEN".into(),
        0xc => "APPLICATION_ERROR".into(),
        0xd => "CRYPTO_BUFFER_EXCEEDED".into(),
        0xe => "KEY_UPDATE_ERROR".into(),
        0xf => "AEAD_LIMIT_REACHED".into(),
        0x10 => "NO_VIABLE_PATH".into(),
        c if (0x100..0x200).contains(&c) => format!("CRYPTO_ERROR({})", c - 0x100),
        c => format!("{c:#x}"),
    }
}

/// the verdict of one execution
pub fn check(case: &Case, out: &Outcome) -> CaseResult {
    let q = &out.q;
    let d = || diag(case, out);

    // 1. bytes: what either application read is what the other one wrote
    if let Some((key, msg)) = q.violations.first() {
        return Err(Fail::new(key.clone(), format!("{msg}. {}", d())));
    }
    if let Some((key, msg)) = out.app.violations.first() {
        return Err(Fail::new(format!("c07:s2n-app:{key}"), format!("{msg}. {}", d())));
    }
    if let Some((side, id)) = out.app.conns[0].unknown_streams.first() {
        return Err(Fail::new("c07:stream-invented", format!("the s2n-quic {side:?} application was handed stream {id}, which quiche never opened (or it was handed twice). {}", d())));
    }

    // 2. neither side terminated the connection with an error
    if let Some((is_app, code, reason)) = &q.local_error {
        if !(*is_app && *code == 0) {
            let name = if *is_app { format!("app:{code}") } else { transport_code_name(*code) };
            return Err(Fail::new(
                format!("c07:quiche-closed-connection:{name}"),
                format!("quiche terminated the connection itself with {} error {name} (reason {reason:?}) because of what it received from s2n-quic. {}", if *is_app { "application" } else { "transport" }, d()),
            ));
        }
    }
    // a specific, separately keyed stall: STREAM_DATA_BLOCKED although granted credit is unused
    if out.q.end != End::Done && out.q.end != End::Capped {
        if let Some(msg) = blocked_with_unused_credit(out) {
            return Err(Fail::new("c07:s2n-blocked-with-unused-stream-credit", format!("{msg}. {}", d())));
        }
    }
    // a specific, separately keyed stall: the client's Finished is lost and never sent again
    if let Some(msg) = finished_never_retransmitted(case, out) {
        return Err(Fail::new("c07:client-finished-lost-never-retransmitted", format!("{msg}. {}", d())));
    }
    for r in &out.recs {
        if let Ev::Closed(kind) = &r.ev {
            let ok = matches!(kind, CloseKind::Closed { .. } | CloseKind::Application { code: 0, .. });
            if !ok {
                let (key, what) = match kind {
                    CloseKind::Transport { code, local, frame_type, reason } => (
                        format!("c07:s2n-connection-closed:transport:{}:{}", if *local { "local" } else { "remote" }, transport_code_name(*code)),
                        format!("transport error {} (frame type {frame_type:#x}, reason {reason:?}) raised by {}", transport_code_name(*code), if *local { "s2n-quic" } else { "quiche" }),
                    ),
                    other => {
                        let s = format!("{other:?}");
                        let name = s.split(|c: char| !c.is_alphanumeric()).next().unwrap_or("").to_string();
                        (format!("c07:s2n-connection-closed:{name}"), s)
                    }
                };
                return Err(Fail::new(key, format!("s2n-quic's connection_closed event at t={}us carries {what}. {}", r.t_us, d())));
            }
        }
    }
    if let Some((is_app, code, reason)) = &q.peer_error {
        if !(*is_app && *code == 0) {
            let name = if *is_app { format!("app:{code}") } else { transport_code_name(*code) };
            return Err(Fail::new(format!("c07:s2n-closed-connection:{name}"), format!("quiche received a CONNECTION_CLOSE from s2n-quic with error {name} (reason {reason:?}). {}", d())));
        }
    }
    if q.timed_out {
        return Err(Fail::new(
            "c07:quiche-idle-timeout",
            format!("quiche's idle timer ({} ms) expired: nothing arrived from s2n-quic for that long although the network is clean after the first {} datagrams. {}", case.q.idle_ms, case.net.tape_up.len().max(case.net.tape_down.len()), d()),
        ));
    }

    // 3. the handshake completed on both sides
    if case.s2n_client {
        match &out.app.conns[0].connect_end {
            Some((Ok(()), _)) => {}
            Some((Err(e), t)) => return Err(Fail::new("c07:handshake:s2n-connect-failed", format!("s2n-quic's connect() failed at t={t}us with {e}. {}", d()))),
            None if q.end == End::Capped => {}
            None => return Err(Fail::new("c07:handshake:s2n-connect-unresolved", format!("s2n-quic's connect() never resolved. {}", d()))),
        }
    } else if out.app.conns[0].server_accepted_us.is_none() && q.end != End::Capped {
        return Err(Fail::new("c07:handshake:s2n-never-accepted", format!("the s2n-quic server never handed a connection to accept(). {}", d())));
    }
    if q.established_us.is_none() && q.end != End::Capped {
        return Err(Fail::new("c07:handshake:quiche-not-established", format!("quiche never reported the handshake as complete. {}", d())));
    }

    // 4. transport parameters: each side's reading of the other's equals what was configured
    if let Some(p) = out.recs.iter().find_map(|r| if let Ev::Params(p) = &r.ev { Some(p.clone()) } else { None }) {
        let c = &case.q;
        let want = [
            ("max_idle_timeout", c.idle_ms as u64, p.max_idle_timeout_ms),
            ("ack_delay_exponent", c.ack_delay_exponent as u64, p.ack_delay_exponent as u64),
            ("max_ack_delay", c.max_ack_delay_ms as u64, p.max_ack_delay_ms),
            ("max_udp_payload_size", c.max_recv_udp as u64, p.max_udp_payload_size),
            ("active_connection_id_limit", c.active_cid_limit as u64, p.active_connection_id_limit),
            ("initial_max_stream_data_bidi_local", c.bidi_local, p.bidi_local),
            ("initial_max_stream_data_bidi_remote", c.bidi_remote, p.bidi_remote),
            ("initial_max_stream_data_uni", c.uni, p.uni),
            ("initial_max_streams_bidi", c.streams_bidi, p.streams_bidi),
            ("initial_max_streams_uni", c.streams_uni, p.streams_uni),
        ];
        for (name, configured, read) in want {
            if configured != read {
                return Err(Fail::new(format!("c07:tp-read-by-s2n:{name}"), format!("quiche was configured with {name} = {configured}; s2n-quic's transport_parameters_received event reports {read}. {}", d())));
            }
        }
    }
    if let Some(p) = &q.peer_tp {
        let l = &case.s2n.limits;
        let want = [
            ("initial_max_data", l.data_window, p.initial_max_data),
            ("initial_max_stream_data_bidi_local", l.bidi_local_window, p.bidi_local),
            ("initial_max_stream_data_bidi_remote", l.bidi_remote_window, p.bidi_remote),
            ("initial_max_stream_data_uni", l.uni_window, p.uni),
            ("initial_max_streams_bidi", l.max_open_remote_bidi, p.streams_bidi),
            ("initial_max_streams_uni", l.max_open_remote_uni, p.streams_uni),
            ("max_ack_delay", l.max_ack_delay_ms.map(|x| x as u64), p.max_ack_delay),
            ("max_idle_timeout", l.idle_timeout_ms.map(|x| x as u64), p.max_idle_timeout),
            // not compared: active_connection_id_limit -- s2n-quic always advertises its registry's constant (3);
            // `Limits::with_max_active_connection_ids` does not reach the wire
        ];
        for (name, configured, read) in want {
            if let Some(configured) = configured {
                if configured != read {
                    return Err(Fail::new(format!("c07:tp-read-by-quiche:{name}"), format!("s2n-quic was configured with {name} = {configured}; quiche decoded {read} from s2n-quic's transport parameters. {}", d())));
                }
            }
        }
    }

    // 5. what s2n-quic accepted from quiche and what it sent is decodable by the harness's own RFC 9000 parser
    let f = facts(case, out);
    if let Some(e) = &f.s2n_tx_undecodable {
        return Err(Fail::new("c07:s2n-sent-undecodable-payload", format!("s2n-quic sealed a packet whose payload is not a sequence of RFC 9000 frames: {e}. {}", d())));
    }

    if q.end == End::Capped {
        return Ok(());
    }

    // 6. every stream direction: complete, FIN at the exact length, no stream error
    let s2n_side = case.s2n_side();
    for (i, s) in case.conn.streams.iter().enumerate() {
        for fwd in [true, false] {
            if !fwd && !s.bidi {
                continue;
            }
            let total = if fwd { s.fwd.total() } else { s.rev.as_ref().unwrap().total() };
            let writer_side = if fwd { s.initiator } else { other(s.initiator) };
            let sd = &out.app.dirs[&(0, i, fwd)];
            let qd = &q.dirs[&(i, fwd)];
            let id = qd.stream_id;
            let name = format!("stream {id} ({} -> {}, {total} bytes)", if writer_side == s2n_side { "s2n-quic" } else { "quiche" }, if writer_side == s2n_side { "quiche" } else { "s2n-quic" });
            if let Some(e) = &qd.error {
                return Err(Fail::new("c07:stream-error-at-quiche", format!("{name}: quiche's stream API failed with {e}. {}", d())));
            }
            if writer_side == s2n_side {
                match &sd.writer_end {
                    Some((WriterEnd::Finished, _)) => {}
                    Some((WriterEnd::Error(e), t)) => return Err(Fail::new("c07:stream-error-at-s2n-writer", format!("{name}: the s2n-quic writer failed at t={t}us after {} bytes with {e}. {}", sd.accepted, d()))),
                    other => return Err(Fail::new("c07:s2n-writer-incomplete", format!("{name}: the s2n-quic writer ended as {other:?} after {} bytes. {}", sd.accepted, d()))),
                }
                if qd.read != total || !qd.fin_seen {
                    return Err(Fail::new(
                        if qd.read > total { "c07:quiche-read-too-much" } else if qd.read == total { "c07:fin-missing-at-quiche" } else { "c07:data-missing-at-quiche" },
                        format!("{name}: quiche read {} bytes, fin={}. {}", qd.read, qd.fin_seen, d()),
                    ));
                }
            } else {
                if qd.written != total || !qd.fin_sent {
                    return Err(Fail::new("c07:quiche-writer-incomplete", format!("{name}: quiche accepted {} bytes, fin_sent={} (flow-control or stream credit from s2n-quic never arrived). {}", qd.written, qd.fin_sent, d())));
                }
                match &sd.reader_end {
                    Some((ReaderEnd::Clean, _)) => {
                        if sd.read != total {
                            return Err(Fail::new("c07:fin-at-wrong-length-at-s2n", format!("{name}: the s2n-quic reader saw a clean end of stream after {} bytes. {}", sd.read, d())));
                        }
                    }
                    Some((ReaderEnd::Error(e), t)) => return Err(Fail::new("c07:stream-error-at-s2n-reader", format!("{name}: the s2n-quic reader failed at t={t}us after {} bytes with {e}. {}", sd.read, d()))),
                    other => return Err(Fail::new("c07:data-missing-at-s2n", format!("{name}: the s2n-quic reader ended as {other:?} after {} bytes. {}", sd.read, d()))),
                }
            }
        }
    }
    if let Some((side, e, t)) = out.app.conns[0].opener_errors.first() {
        return Err(Fail::new("c07:s2n-open-stream-failed", format!("s2n-quic {side:?}: opening a stream failed at t={t}us with {e}. {}", d())));
    }

    match q.end {
        End::Done => Ok(()),
        End::Stalled => Err(Fail::new("c07:stalled", format!("no application byte moved for {} s of virtual time on a clean network, without any error on either side. {}", case::STALL_MS / 1000, d()))),
        other => Err(Fail::new("c07:ended-early", format!("the run ended as {other:?} without an error on either side and without the scripted work being done. {}", d()))),
    }
}

/// The run did not finish and s2n-quic's last word on some stream is STREAM_DATA_BLOCKED at limit L while
/// the highest stream offset it ever put on the wire is below L (and L is the largest limit it was given).
fn blocked_with_unused_credit(out: &Outcome) -> Option<String> {
    use std::collections::BTreeMap;
    let mut sent_end: BTreeMap<u64, u64> = BTreeMap::new();
    let mut last_blocked: BTreeMap<u64, (u64, u64)> = BTreeMap::new();
    let mut granted: BTreeMap<u64, u64> = BTreeMap::new();
    let mut last_stream_tx: BTreeMap<u64, u64> = BTreeMap::new();
    for r in &out.recs {
        match &r.ev {
            Ev::Tx { frames: Ok(frames), .. } => {
                for f in frames {
                    match f {
                        WFrame::Stream { id, off, len, .. } => {
                            let e = sent_end.entry(*id).or_default();
                            *e = (*e).max(off + len);
                            last_stream_tx.insert(*id, r.t_us);
                        }
                        WFrame::StreamDataBlocked { id, limit } => {
                            last_blocked.insert(*id, (*limit, r.t_us));
                        }
                        _ => {}
                    }
                }
            }
            Ev::Rx { frames: Ok(frames), .. } => {
                for f in frames {
                    if let WFrame::MaxStreamData { id, max } = f {
                        let e = granted.entry(*id).or_default();
                        *e = (*e).max(*max);
                    }
                }
            }
            _ => {}
        }
    }
    for (id, (limit, t)) in &last_blocked {
        let sent = sent_end.get(id).copied().unwrap_or(0);
        let newer_grant = granted.get(id).copied().unwrap_or(0) > *limit;
        let sent_later = last_stream_tx.get(id).map(|x| x > t).unwrap_or(false);
        if sent < *limit && !newer_grant && !sent_later {
            return Some(format!(
                "s2n-quic's last frames for stream {id} are STREAM_DATA_BLOCKED with limit {limit} (last at t={t}us), but the highest offset it ever sent on that stream is {sent}: it reports being blocked while {} byte(s) of granted stream credit are unused, and never sends them; a receiver that raises the limit only when the advertised credit is consumed (quiche: available < window/2) never does, and the stream stalls until the idle timeout",
                limit - sent
            ));
        }
    }
    None
}

/// s2n-quic as client: a Handshake packet carrying CRYPTO data was declared lost after the TLS handshake
/// completed locally, no later Handshake packet carries CRYPTO data, and the peer never saw the handshake complete.
fn finished_never_retransmitted(case: &Case, out: &Outcome) -> Option<String> {
    use world::rec::Space;
    if !case.s2n_client || out.q.established_us.is_some() || out.q.end == End::Capped {
        return None;
    }
    let mut crypto_pns = std::collections::BTreeSet::new();
    let mut lost_at: Option<(u64, u64)> = None;
    let mut complete = false;
    let mut last_metrics = None;
    for r in &out.recs {
        match &r.ev {
            Ev::HandshakeComplete => complete = true,
            Ev::Tx { space: Space::Handshake, pn, frames: Ok(frames), .. } => {
                if frames.iter().any(|f| matches!(f, WFrame::Crypto { .. })) {
                    crypto_pns.insert(*pn);
                    if lost_at.is_some() {
                        // retransmitted
                        lost_at = None;
                    }
                }
            }
            Ev::PacketLost { space: Space::Handshake, pn, .. } if complete && crypto_pns.contains(pn) => lost_at = Some((*pn, r.t_us)),
            Ev::Metrics { cwnd, bytes_in_flight, congestion_limited, pto_count, .. } => last_metrics = Some((*cwnd, *bytes_in_flight, *congestion_limited, *pto_count)),
            _ => {}
        }
    }
    let (pn, t) = lost_at?;
    Some(format!(
        "the s2n-quic client declared its Handshake packet {pn} (CRYPTO: the TLS Finished) lost at t={t}us and never sent the CRYPTO data again: the server never completes the handshake and never reads the 1-RTT packets; last recovery metrics (cwnd, bytes_in_flight, congestion_limited, pto_count) = {last_metrics:?} -- the congestion window is held by 1-RTT packets the server cannot acknowledge, and no probe timer runs for the application space before the handshake is confirmed, so nothing is ever sent again until the idle timeout"
    ))
}

fn other(s: Side) -> Side {
    match s {
        Side::Client => Side::Server,
        Side::Server => Side::Client,
    }
}

/// failures seen in this process, by case hash: quiche's BoringSSL RNG cannot be seeded, so a
/// re-execution of a failing case may differ in packet counts and timing; a failure that was
/// observed once stays a counterexample of the (timing independent) oracle
static SEEN_FAILURES: Mutex<Option<HashMap<u64, Fail>>> = Mutex::new(None);

const REEXECUTIONS: u32 = 3;

fn observe(case: &Case, out: &Outcome, obs: &mut Obs) {
    let f = facts(case, out);
    let q = &out.q;
    obs.units = f.datagrams as u64;
    obs.class_if(q.end == End::Capped, "capped");
    obs.class_if(q.end == End::Done, "done");
    obs.class_if(f.dropped_up > 0 && f.dropped_down > 0, "loss:both-directions");
    obs.class_if(f.dropped_up + f.dropped_down > 0, "loss:any");
    obs.class_if(f.delayed > 0, "net:reordered");
    obs.class_if(f.duplicated > 0, "net:duplicated");
    obs.class_if(f.fc_updates_tx > 0, "fc-update:s2n-sent");
    obs.class_if(f.fc_updates_rx > 0, "fc-update:s2n-received");
    obs.class_if(f.blocked_frames > 0, "blocked-frame");
    obs.class_if(f.max_streams_frames > 0, "max-streams-frame");
    obs.class_if(f.new_cid_rx > 0, "new-connection-id:from-quiche");
    obs.class_if(f.new_cid_tx > 0, "new-connection-id:from-s2n");
    obs.class_if(f.retire_cid > 0, "retire-connection-id");
    obs.class_if(f.s2n_lost > 0, "s2n:packet-lost");
    obs.class_if(f.s2n_pto > 0, "s2n:pto-probe");
    obs.class_if(f.key_updates > 0, "key-update");
    obs.class_if(f.total_payload > 3 * f.min_conn_window, "payload>3xwindow");
    obs.class_if(f.total_payload == 0, "payload:none");
    obs.class_if(f.total_payload > 100_000, "payload>100KB");
    obs.class_if(q.retries_sent > 0, "retry:by-quiche");
    obs.class_if(case.s2n_retry, "retry:by-s2n");
    obs.class_if(case.q.scid_len == 0, "quiche:zero-length-cid");
    obs.class_if(case.rsa_cert, "cert:rsa");
    obs.class_if(!case.rsa_cert, "cert:ecdsa");
    obs.class_if(case.q.pmtud, "quiche:pmtud");
    obs.class_if(q.oversize_rx > 0, "s2n-exceeded-quiche-max-udp-payload");
    obs.class_if(f.largest_s2n_datagram > 1472, "s2n:jumbo-datagram");
    obs.class_if(f.largest_q_datagram > 1472, "quiche:jumbo-datagram");
    obs.class_if(f.s2n_rx_undecodable.is_some(), "quiche-frame-not-parsed-by-harness");
    obs.class_if(!q.recv_errors.is_empty(), "quiche:recv-error");
    obs.class_if(q.demux_dropped > 0, "quiche:late-packet-for-retired-cid");
    obs.class(match case.q.cc {
        case::QCc::Reno => "quiche:reno",
        case::QCc::Cubic => "quiche:cubic",
        case::QCc::Bbr => "quiche:bbr2",
    });
    obs.class_if(case.s2n.cc == world::scenario::Cc::Bbr, "s2n:bbr");
    obs.class_if(case.conn.streams.iter().any(|s| s.initiator == case.q_side()), "stream:opened-by-quiche");
    obs.class_if(case.conn.streams.iter().any(|s| s.initiator == case.s2n_side()), "stream:opened-by-s2n");
    obs.class_if(out.end_us > 60_000_000, "virtual>60s");
    obs.nontrivial(f.dropped_up > 0 && f.dropped_down > 0 && f.fc_updates_tx + f.fc_updates_rx > 0 && f.total_payload > 3 * f.min_conn_window);
    obs.sample = Some(serde_json::json!({
        "role": if case.s2n_client { "s2n client / quiche server" } else { "quiche client / s2n server" },
        "streams": case.conn.streams.len(),
        "payload": f.total_payload,
        "min_conn_window": f.min_conn_window,
        "datagrams": f.datagrams,
        "dropped": [f.dropped_up, f.dropped_down],
        "fc_updates": [f.fc_updates_tx, f.fc_updates_rx],
        "virtual_ms": out.end_us / 1000,
        "quiche": {"scid_len": case.q.scid_len, "max_data": case.q.max_data, "send_udp": case.q.max_send_udp, "recv_udp": case.q.max_recv_udp, "retry": case.q.retry},
        "s2n": {"data_window": case.s2n.limits.data_window, "mtu": [case.s2n.mtu.0, case.s2n.mtu.1, case.s2n.mtu.2], "retry": case.s2n_retry},
    }));
}

fn is_replay() -> bool {
    std::env::args().nth(1).as_deref() == Some("replay")
}

pub fn oracle(case: &Case, obs: &mut Obs) -> CaseResult {
    let h = vcore::hash_of(case);
    let seen = SEEN_FAILURES.lock().unwrap().as_ref().and_then(|m| m.get(&h).cloned());
    let out = run::run(case);
    if std::env::var("VERIF_DUMP").is_ok() {
        dump(case, &out);
    }
    let first = check(case, &out);
    if first.is_ok() && seen.is_none() && !is_replay() {
        observe(case, &out, obs);
        return Ok(());
    }
    // a failure now or earlier (or an explicit replay): re-execute, count
    let mut failures: Vec<Fail> = vec![];
    let mut executions = 1;
    if let Err(f) = &first {
        failures.push(f.clone());
    }
    let extra = if is_replay() { 4 } else { REEXECUTIONS };
    for _ in 0..extra {
        let out = run::run(case);
        executions += 1;
        if let Err(f) = check(case, &out) {
            failures.push(f);
        }
    }
    if let Some(f) = failures.first().cloned() {
        let mut keys: Vec<&str> = failures.iter().map(|f| f.key.as_str()).collect();
        keys.sort();
        keys.dedup();
        let f = Fail::new(f.key.clone(), format!("{} [failed in {} of {executions} executions of this case (quiche's RNG is not seedable: executions differ slightly); keys seen: {keys:?}]", f.msg, failures.len()));
        SEEN_FAILURES.lock().unwrap().get_or_insert_with(HashMap::new).insert(h, f.clone());
        return Err(f);
    }
    if let Some(f) = seen {
        return Err(Fail::new(f.key.clone(), format!("{} [this case failed earlier in this process; it did not fail again in {executions} further executions]", f.msg)));
    }
    observe(case, &out, obs);
    Ok(())
}

/// human-readable trace (VERIF_DUMP=1)
pub fn dump(case: &Case, out: &Outcome) {
    for r in &out.recs {
        let s = format!("{:?}", r.ev);
        let s: String = s.chars().take(1600).collect();
        eprintln!("{:>9}us s2n {}", r.t_us, s);
    }
    for n in &out.net {
        eprintln!("net {:>9}us {} -> {} len {} {:?} idx {} {:?} deliveries {:?}", n.t_us, n.src, n.dst, n.len, n.dir, n.idx, n.fate, n.deliveries_us);
    }
    let mut keys: Vec<_> = out.app.dirs.keys().collect();
    keys.sort();
    for k in keys {
        eprintln!("s2n app {:?} {:?}", k, out.app.dirs[k]);
    }
    for (k, d) in &out.q.dirs {
        eprintln!("quiche app {:?} {:?}", k, d);
    }
    eprintln!("{}", diag(case, out));
    eprintln!("peer_tp {:?} clock_reads {} iterations {}", out.q.peer_tp, out.clock_reads, out.q.iterations);
}

pub fn subs() -> Vec<Box<dyn SubCheck>> {
    vec![
        Box::new(PropCheck::<Case, _> {
            name: "s2n_client_quiche_server",
            cases: |t| t.pick(6_000, 250_000),
            strategy: |_t: Tier| case::case(true),
            oracle,
            max_shrink_iters: 60,
        }),
        Box::new(PropCheck::<Case, _> {
            name: "quiche_client_s2n_server",
            cases: |t| t.pick(6_000, 250_000),
            strategy: |_t: Tier| case::case(false),
            oracle,
            max_shrink_iters: 60,
        }),
    ]
}

pub fn property() -> Property {
    clock::self_test();
    clock::init_debug_log();
    Property {
        id: "C07",
        rule: "generated cases: role (s2n-quic client <-> quiche 0.29.3 server, quiche client <-> s2n-quic server); s2n-quic Limits/MTU triple/congestion \
               controller from the end-to-end world's generator (windows and stream limits small in half of the cases); quiche Config with generated \
               initial_max_data / stream data (bidi local, bidi remote, uni) / stream counts (2 bytes ... 10 MB), max_recv/send_udp_payload_size 1200-9000, \
               ack_delay_exponent 1-20, max_ack_delay, active_connection_id_limit 2-8, source connection id length 0 (quiche client) or 8-20, spare \
               connection ids issued or not, reno/cubic/bbr2, pacing, hystart, PMTUD, window auto-tuning bounds, read buffer size; Retry by either server; \
               RSA or ECDSA certificate; 1-4 streams opened by either side, bidi/uni, 0-256 KiB per direction (at most 48 receive windows' worth) in \
               generated chunkings with boundary-biased sizes, reader pauses, FIN on every stream; fault tape on the first <= 40 datagrams per \
               direction (drop <= 25 %, runs <= 2, delay/reorder, duplicate), clean network afterwards. Oracle: handshake completes on both sides; every \
               byte read equals the keyed PRF byte written, FIN at the exact length; quiche's local_error/peer_error and s2n-quic's connection_closed \
               carry nothing but the script's final application close with code 0; no stream error; each side's reading of the other's transport \
               parameters equals the configuration; what s2n-quic seals parses as RFC 9000 frames; no idle timeout (600-1200 s), no stall (1500 s of virtual \
               time without an application byte). A failing case is re-executed 3x (quiche's RNG is not seedable) and reported with the count. \
               Non-trivial: >= 1 datagram dropped in each direction, >= 1 MAX_DATA/MAX_STREAM_DATA crossed the wire, and total payload > 3 x the \
               smaller connection window. Distinct = distinct cases.",
        assumptions: &[
            "quiche 0.29.3 + BoringSSL are the only independent stack available offline: agreement with it is evidence, not conformance",
            "quiche reads the virtual clock through an interposed clock_gettime (one case at a time per process)",
            "quiche's BoringSSL RNG is not seedable: executions of one case differ slightly in packet counts; the oracle is timing independent",
            "the virtual-time cap (3600 s) ends a case without verdict (class `capped`)",
            "no 0-RTT, no migration, no key update (neither stack starts one within a case), no corruption (C06's)",
            "quiche is told a max_send_udp_payload_size that the s2n-quic endpoint's receive buffer (max_mtu) can take, unless it probes the path itself",
            "quiche limitations avoided by construction: windows of 1 byte (never raised), ack_delay_exponent/max_ack_delay 0 (omitted from its transport parameters), a FIN-only frame written after the data (sometimes never emitted: the FIN rides on the last chunk), FIN learnt through stream_finished when it arrives with duplicate data only",
            "the harness does what a quiche application's connection table does: 1-RTT datagrams for a connection id that quiche has retired are not handed to the connection",
            "s2n-quic's Retry tokens expire after 1-2 s (not configurable): the Initial/Retry/Initial exchange of a case with Retry by s2n-quic is kept free of faults",
        ],
        subs: subs(),
        shards: 0,
    }
}
