/// Every monotonic clock reading of this process (std's `Instant::now()` inside quiche included)
/// goes through here; see `interop::clock`.
///
/// # Safety
/// C contract of `clock_gettime`.
#[no_mangle]
pub unsafe extern "C" fn clock_gettime(clk: libc::clockid_t, ts: *mut libc::timespec) -> libc::c_int {
    interop::clock::clock_gettime_impl(clk, ts)
}

fn main() {
    vcore::main_with(vec![interop::property()])
}
