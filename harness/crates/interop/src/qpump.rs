//! The independent stack's side of a run: one task that owns the `quiche::Connection`, pumps
//! datagrams between it and a raw socket of the simulated network, fires its timers on the
//! virtual clock, runs the quiche-side application scripts, and supervises the run.

use crate::{
    case::{Case, QCc, CAP_MS, STALL_MS},
    clock,
};
use s2n_quic::provider::io::testing::{time::delay, Socket};
use s2n_quic_core::inet::ExplicitCongestionNotification;
use std::{
    collections::{BTreeMap, VecDeque},
    future::Future,
    net::SocketAddr,
    pin::Pin,
    sync::{Arc, Mutex},
    task::Poll,
    time::{Duration, Instant},
};
use world::{
    app::App,
    net::now_us,
    scenario::{payload_key, ReaderScript, WStep, WriterScript},
};

/// one direction of one stream, as seen by the quiche-side application
#[derive(Clone, Debug, Default)]
pub struct QDir {
    pub stream_id: u64,
    /// quiche writes this direction
    pub q_writes: bool,
    pub total: u64,
    pub written: u64,
    pub fin_sent: bool,
    pub read: u64,
    pub fin_seen: bool,
    pub error: Option<String>,
}

#[derive(Clone, Copy, Debug, PartialEq, Eq, Default)]
pub enum End {
    #[default]
    Running,
    /// all scripted work done on both sides, connection closed by the client with code 0
    Done,
    /// no progress for STALL_MS of virtual time
    Stalled,
    /// the virtual-time cap
    Capped,
    /// the quiche connection closed (error, idle timeout) before the work was done
    QuicheClosed,
    /// the s2n-quic application gave up (connect failed, all tasks ended) without the work being done
    S2nEnded,
}

#[derive(Clone, Debug, Default)]
pub struct PeerTp {
    pub max_idle_timeout: u64,
    pub max_udp_payload_size: u64,
    pub initial_max_data: u64,
    pub bidi_local: u64,
    pub bidi_remote: u64,
    pub uni: u64,
    pub streams_bidi: u64,
    pub streams_uni: u64,
    pub ack_delay_exponent: u64,
    pub max_ack_delay: u64,
    pub active_conn_id_limit: u64,
}

#[derive(Clone, Debug, Default)]
pub struct QLog {
    pub created: bool,
    pub established_us: Option<u64>,
    /// key: (script index, forward?)
    pub dirs: BTreeMap<(usize, bool), QDir>,
    pub violations: Vec<(String, String)>,
    /// `recv()` errors (other than Done): (time, error)
    pub recv_errors: Vec<(u64, String)>,
    pub send_errors: Vec<(u64, String)>,
    /// (is_app, code, reason)
    pub local_error: Option<(bool, u64, String)>,
    pub peer_error: Option<(bool, u64, String)>,
    pub timed_out: bool,
    pub closed: bool,
    pub stats: String,
    pub path_stats: String,
    pub peer_tp: Option<PeerTp>,
    /// datagrams from the peer larger than the advertised max_udp_payload_size, after the handshake
    pub oversize_rx: usize,
    pub largest_rx: usize,
    pub retries_sent: u32,
    pub scids_issued: u32,
    pub end: End,
    pub end_us: u64,
    pub close_started_us: Option<u64>,
    pub iterations: u64,
    pub rx_datagrams: u64,
    pub tx_datagrams: u64,
    pub scid_len: usize,
    /// 1-RTT datagrams for a connection id that is not active (any more)
    pub demux_dropped: u64,
}

pub type QShared = Arc<Mutex<QLog>>;

struct WriterSt {
    k: (usize, bool),
    id: u64,
    key: u64,
    script: WriterScript,
    step: usize,
    /// bytes of the current Send step already accepted
    in_step: u64,
    off: u64,
    wake_us: u64,
    /// quiche opens this stream (ordering / stream-count credit apply)
    opens: bool,
    bidi: bool,
    opened: bool,
    done: bool,
}

struct ReaderSt {
    k: (usize, bool),
    id: u64,
    key: u64,
    script: ReaderScript,
    started: bool,
    wake_us: u64,
    off: u64,
    done: bool,
}

/// everything the pump owns; the executor is single threaded
struct Pump {
    case: Case,
    socket: Socket,
    local: SocketAddr,
    conn: Option<quiche::Connection>,
    config: quiche::Config,
    log: QShared,
    writers: Vec<WriterSt>,
    readers: Vec<ReaderSt>,
    /// stream ids of the script
    ids: Vec<u64>,
    seen: Vec<bool>,
    outq: VecDeque<(u64, SocketAddr, Vec<u8>)>,
    cid_counter: u64,
    buf: Vec<u8>,
}

// quiche::Connection holds raw BoringSSL pointers; the simulation runs on one thread
unsafe impl Send for Pump {}

fn cert_files(rsa: bool) -> (String, String) {
    use s2n_quic_core::crypto::tls::testing::certificates as c;
    // quiche loads certificates from files only. One directory under the harness's own output root (not /tmp), shared by
    // all shard processes: the contents are constants, written atomically, and checked again for every case so that a
    // cleaner removing them in the middle of a long run does no harm.
    let dir = vcore::verif_root().join("out").join("c07-interop-certs");
    std::fs::create_dir_all(&dir).expect("directory for the PEM files");
    let w = |name: &str, data: &str| {
        let p = dir.join(name);
        if std::fs::read_to_string(&p).map(|s| s != data).unwrap_or(true) {
            let tmp = dir.join(format!("{name}.{}.tmp", std::process::id()));
            std::fs::write(&tmp, data).expect("write PEM file");
            std::fs::rename(&tmp, &p).expect("publish PEM file");
        }
        p.display().to_string()
    };
    if rsa {
        (w("cert_rsa.pem", c::CERT_PKCS1_PEM), w("key_rsa.pem", c::KEY_PKCS1_PEM))
    } else {
        (w("cert.pem", c::CERT_PEM), w("key.pem", c::KEY_PEM))
    }
}

pub fn quiche_config(case: &Case) -> quiche::Config {
    let q = &case.q;
    let mut c = quiche::Config::new(quiche::PROTOCOL_VERSION).expect("quiche config");
    // s2n-quic's default TLS providers offer/select "h3"
    c.set_application_protos(&[b"h3"]).expect("alpn");
    let (cert, key) = cert_files(case.rsa_cert);
    if case.s2n_client {
        c.load_cert_chain_from_pem_file(&cert).expect("quiche: certificate chain");
        c.load_priv_key_from_pem_file(&key).expect("quiche: private key");
    } else {
        c.load_verify_locations_from_file(&cert).expect("quiche: trust anchor");
        c.verify_peer(true);
    }
    c.set_max_idle_timeout(q.idle_ms as u64);
    c.set_max_recv_udp_payload_size(q.max_recv_udp as usize);
    c.set_max_send_udp_payload_size(q.max_send_udp as usize);
    c.discover_pmtu(q.pmtud);
    c.set_initial_max_data(q.max_data);
    c.set_initial_max_stream_data_bidi_local(q.bidi_local);
    c.set_initial_max_stream_data_bidi_remote(q.bidi_remote);
    c.set_initial_max_stream_data_uni(q.uni);
    c.set_initial_max_streams_bidi(q.streams_bidi);
    c.set_initial_max_streams_uni(q.streams_uni);
    c.set_ack_delay_exponent(q.ack_delay_exponent as u64);
    c.set_max_ack_delay(q.max_ack_delay_ms as u64);
    c.set_active_connection_id_limit(q.active_cid_limit as u64);
    c.set_disable_active_migration(true);
    c.set_cc_algorithm(match q.cc {
        QCc::Reno => quiche::CongestionControlAlgorithm::Reno,
        QCc::Cubic => quiche::CongestionControlAlgorithm::CUBIC,
        QCc::Bbr => quiche::CongestionControlAlgorithm::Bbr2Gcongestion,
    });
    c.enable_pacing(q.pacing);
    c.enable_hystart(q.hystart);
    c.set_initial_rtt(Duration::from_millis(q.initial_rtt_ms.max(1) as u64));
    c.set_max_connection_window(q.max_conn_window.max(q.max_data));
    c.set_max_stream_window(q.max_stream_window.max(q.bidi_local).max(q.bidi_remote).max(q.uni));
    c
}

fn conn_err(e: Option<&quiche::ConnectionError>) -> Option<(bool, u64, String)> {
    e.map(|e| (e.is_app, e.error_code, String::from_utf8_lossy(&e.reason).chars().take(120).collect()))
}

impl Pump {
    fn cid(&mut self, len: usize) -> Vec<u8> {
        let key = vcore::hash_of(&(0xC1Du64, self.case.seed, self.cid_counter));
        self.cid_counter += 1;
        vcore::gen::prf_vec(key, 0, len)
    }

    fn set_clock(&self) -> u64 {
        let now = now_us();
        clock::set_us(now);
        now
    }

    /// quiche as server: the first datagrams create the connection (optionally after a Retry)
    fn accept(&mut self, from: SocketAddr, payload: &mut [u8]) {
        let hdr = match quiche::Header::from_slice(payload, quiche::MAX_CONN_ID_LEN) {
            Ok(h) => h,
            Err(_) => return,
        };
        if hdr.ty != quiche::Type::Initial {
            return;
        }
        if !quiche::version_is_supported(hdr.version) {
            let mut out = [0u8; 256];
            if let Ok(n) = quiche::negotiate_version(&hdr.scid, &hdr.dcid, &mut out) {
                let _ = self.socket.send_to(from, ExplicitCongestionNotification::NotEct, out[..n].to_vec());
            }
            return;
        }
        let scid_len = self.case.q.scid_len as usize;
        let token = hdr.token.clone().unwrap_or_default();
        if self.case.q.retry {
            // the retry scid is a function of the seed only: every Initial without token gets the same Retry
            let key = vcore::hash_of(&(0x7e7u64, self.case.seed));
            let new_scid = vcore::gen::prf_vec(key, 0, scid_len);
            if token.is_empty() {
                let mut tok = b"c07-retry:".to_vec();
                tok.extend_from_slice(&hdr.dcid);
                let mut out = [0u8; 512];
                let new_scid = quiche::ConnectionId::from_ref(&new_scid);
                match quiche::retry(&hdr.scid, &hdr.dcid, &new_scid, &tok, hdr.version, &mut out) {
                    Ok(n) => {
                        let _ = self.socket.send_to(from, ExplicitCongestionNotification::NotEct, out[..n].to_vec());
                        self.log.lock().unwrap().retries_sent += 1;
                    }
                    Err(e) => self.log.lock().unwrap().send_errors.push((now_us(), format!("retry: {e:?}"))),
                }
                return;
            }
            let Some(odcid) = token.strip_prefix(b"c07-retry:") else {
                self.log.lock().unwrap().violations.push(("c07:retry-token-altered".into(), format!("the Initial after the Retry carries a token that is not the one of the Retry packet: {token:02x?}")));
                return;
            };
            if hdr.dcid.as_ref() != &new_scid[..] {
                self.log.lock().unwrap().violations.push((
                    "c07:retry-dcid-not-used".into(),
                    format!("the Initial after the Retry is addressed to {:02x?}, the Retry packet's source connection id was {:02x?} (RFC 9000 17.2.5.2)", hdr.dcid.as_ref(), new_scid),
                ));
                return;
            }
            let odcid = quiche::ConnectionId::from_vec(odcid.to_vec());
            let scid = quiche::ConnectionId::from_vec(new_scid);
            let conn = quiche::accept(&scid, Some(&odcid), self.local, from, &mut self.config).expect("quiche::accept");
            self.conn = Some(conn);
        } else {
            let scid = self.cid(scid_len);
            let scid = quiche::ConnectionId::from_vec(scid);
            let conn = quiche::accept(&scid, None, self.local, from, &mut self.config).expect("quiche::accept");
            self.conn = Some(conn);
        }
        let mut l = self.log.lock().unwrap();
        l.created = true;
        l.scid_len = scid_len;
    }

    fn on_datagram(&mut self, from: SocketAddr, mut payload: Vec<u8>) {
        {
            let mut l = self.log.lock().unwrap();
            l.rx_datagrams += 1;
            l.largest_rx = l.largest_rx.max(payload.len());
            if l.established_us.is_some() && payload.len() > self.case.q.max_recv_udp as usize {
                l.oversize_rx += 1;
            }
        }
        if self.conn.is_none() {
            self.accept(from, &mut payload);
        }
        // what a quiche application's connection table does: a 1-RTT packet addressed to a connection id that is
        // not (or no longer: retired by the peer, packet delayed by the network) one of this connection's is not
        // handed to the connection (quiche itself would answer it with PROTOCOL_VIOLATION)
        if let Some(conn) = self.conn.as_ref() {
            let scid_len = self.case.q.scid_len as usize;
            if scid_len > 0 && !payload.is_empty() && payload[0] & 0x80 == 0 {
                let known = payload.len() > scid_len && conn.source_ids().any(|c| c.as_ref() == &payload[1..1 + scid_len]);
                if !known {
                    self.log.lock().unwrap().demux_dropped += 1;
                    return;
                }
            }
        }
        let local = self.local;
        if let Some(conn) = self.conn.as_mut() {
            match conn.recv(&mut payload, quiche::RecvInfo { from, to: local }) {
                Ok(_) | Err(quiche::Error::Done) => {}
                Err(e) => {
                    let mut l = self.log.lock().unwrap();
                    if l.recv_errors.len() < 16 {
                        l.recv_errors.push((now_us(), format!("{e:?}")));
                    }
                }
            }
        }
        // Replenish the spare connection ids right away: quiche 0.29.3 answers a *repeated* RETIRE_CONNECTION_ID
        // (retransmission of a frame it already processed, which RFC 9000 19.16 allows) with OutOfIdentifiers /
        // PROTOCOL_VIOLATION when only one source connection id is left at that moment.
        self.issue_scids();
    }

    /// runs the quiche-side scripts as far as possible; returns the next time a paused script
    /// wants to continue
    fn drive_app(&mut self, now: u64) -> Option<u64> {
        let Some(conn) = self.conn.as_mut() else { return None };
        if !conn.is_established() || conn.is_closed() || conn.is_draining() || conn.local_error().is_some() {
            return None;
        }
        let mut wake: Option<u64> = None;
        let mut want = |t: u64| wake = Some(wake.map_or(t, |w: u64| w.min(t)));

        // which streams exist
        let readable: Vec<u64> = conn.readable().collect();
        for id in &readable {
            match self.ids.iter().position(|x| x == id) {
                Some(i) => self.seen[i] = true,
                None => {
                    let mut l = self.log.lock().unwrap();
                    if !l.violations.iter().any(|v| v.0 == "c07:stream-invented") {
                        l.violations.push(("c07:stream-invented".into(), format!("quiche reports stream {id} readable; the s2n-quic side's script never opens it")));
                    }
                }
            }
        }

        // readers
        for r in self.readers.iter_mut() {
            if r.done {
                continue;
            }
            let i = r.k.0;
            if !r.started {
                if !self.seen[i] {
                    continue;
                }
                r.started = true;
                r.wake_us = now + r.script.start_delay_us as u64;
            }
            if r.wake_us > now {
                want(r.wake_us);
                continue;
            }
            let chunk = (self.case.q.read_chunk as usize).clamp(1, self.buf.len());
            loop {
                match conn.stream_recv(r.id, &mut self.buf[..chunk]) {
                    Ok((n, fin)) => {
                        let mut l = self.log.lock().unwrap();
                        if let Some(bad) = vcore::gen::prf_mismatch(r.key, r.off, &self.buf[..n]) {
                            if !l.violations.iter().any(|v| v.0 == "c07:payload-mismatch") {
                                l.violations.push((
                                    "c07:payload-mismatch".into(),
                                    format!(
                                        "stream {}: byte at offset {} read by quiche is 0x{:02x}, the s2n-quic application wrote 0x{:02x} (chunk of {n} at {})",
                                        r.id,
                                        r.off + bad as u64,
                                        self.buf[bad],
                                        vcore::gen::prf_byte(r.key, r.off + bad as u64),
                                        r.off
                                    ),
                                ));
                            }
                        }
                        r.off += n as u64;
                        let d = l.dirs.get_mut(&r.k).unwrap();
                        d.read = r.off;
                        if fin {
                            d.fin_seen = true;
                            r.done = true;
                            break;
                        }
                        if r.script.pause_us > 0 {
                            r.wake_us = now + r.script.pause_us as u64;
                            want(r.wake_us);
                            break;
                        }
                    }
                    Err(quiche::Error::Done) => {
                        // A FIN that arrives on a frame whose data is entirely duplicate (everything was read already) does
                        // not make the stream readable in quiche 0.29.3 and stream_recv keeps answering Done;
                        // `stream_finished` is then the only way to learn it: final size known and equal to the read offset.
                        if conn.stream_finished(r.id) {
                            let mut l = self.log.lock().unwrap();
                            l.dirs.get_mut(&r.k).unwrap().fin_seen = true;
                            r.done = true;
                        }
                        break;
                    }
                    Err(quiche::Error::InvalidStreamState(_)) if conn.stream_finished(r.id) => {
                        // quiche collects a stream as soon as it is complete in both directions; when the FIN arrives
                        // without new data after everything was read (and quiche's own side is done), the application
                        // never sees `fin = true` from stream_recv. A collected stream has received its FIN at exactly
                        // the offset read so far (`recv.is_fin()`: final size == read offset).
                        let mut l = self.log.lock().unwrap();
                        l.dirs.get_mut(&r.k).unwrap().fin_seen = true;
                        r.done = true;
                        break;
                    }
                    Err(e) => {
                        let mut l = self.log.lock().unwrap();
                        l.dirs.get_mut(&r.k).unwrap().error = Some(format!("stream_recv: {e:?}"));
                        r.done = true;
                        break;
                    }
                }
            }
        }

        // writers, in script order (quiche-opened streams get their ids in this order)
        let mut blocked_kind = [false; 2];
        for w in self.writers.iter_mut() {
            if w.done {
                continue;
            }
            let i = w.k.0;
            if w.opens {
                if !w.opened {
                    // an earlier stream of this kind still waits for stream credit: keep the order
                    let kind = w.bidi as usize;
                    if blocked_kind[kind] {
                        continue;
                    }
                    let left = if w.bidi { conn.peer_streams_left_bidi() } else { conn.peer_streams_left_uni() };
                    if left == 0 {
                        blocked_kind[kind] = true;
                        continue;
                    }
                }
            } else if !self.seen[i] {
                // the peer's stream is not known to quiche yet
                continue;
            }
            if w.wake_us > now {
                want(w.wake_us);
                if w.opens && !w.opened {
                    blocked_kind[w.bidi as usize] = true;
                }
                continue;
            }
            'steps: loop {
                if w.step >= w.script.steps.len() {
                    // end of script: FIN (alone, unless it went out with the last chunk)
                    let already = self.log.lock().unwrap().dirs[&w.k].fin_sent;
                    if !already {
                        match conn.stream_send(w.id, b"", true) {
                            Ok(_) => {
                                w.opened = true;
                                self.seen[i] = true;
                                self.log.lock().unwrap().dirs.get_mut(&w.k).unwrap().fin_sent = true;
                            }
                            Err(quiche::Error::Done) => {
                                // quiche creates the stream before it finds that nothing can be buffered now
                                w.opened = true;
                                self.seen[i] = true;
                                break 'steps;
                            }
                            Err(e) => {
                                self.log.lock().unwrap().dirs.get_mut(&w.k).unwrap().error = Some(format!("stream_send(fin): {e:?}"));
                            }
                        }
                    }
                    w.done = true;
                    break 'steps;
                }
                match w.script.steps[w.step] {
                    WStep::PauseUs(us) => {
                        w.step += 1;
                        if us > 0 {
                            w.wake_us = now + us as u64;
                            want(w.wake_us);
                            break 'steps;
                        }
                    }
                    WStep::Flush => w.step += 1,
                    WStep::Send(n) | WStep::Write(n) => {
                        let n = n as u64;
                        // the FIN always rides on the last data chunk: quiche 0.29.3 sometimes never emits a FIN-only
                        // STREAM frame that is written after the data (its own tx log shows the frame is never built),
                        // see the report; a stream without any data necessarily ends with a FIN-only frame
                        let is_last_send = n > 0 && !w.script.steps[w.step + 1..].iter().any(|s| matches!(s, WStep::Send(k) | WStep::Write(k) if *k > 0));
                        if n == 0 {
                            w.step += 1;
                            continue 'steps;
                        }
                        let remaining = n - w.in_step;
                        let len = remaining.min(16_384) as usize;
                        let data = vcore::gen::prf_vec(w.key, w.off, len);
                        let fin = is_last_send && len as u64 == remaining;
                        match conn.stream_send(w.id, &data, fin) {
                            Ok(written) => {
                                w.opened = true;
                                self.seen[i] = true;
                                w.off += written as u64;
                                w.in_step += written as u64;
                                let mut l = self.log.lock().unwrap();
                                let d = l.dirs.get_mut(&w.k).unwrap();
                                d.written = w.off;
                                if written == len {
                                    if w.in_step == n {
                                        w.step += 1;
                                        w.in_step = 0;
                                        if fin {
                                            d.fin_sent = true;
                                        }
                                    }
                                } else {
                                    // partially accepted: out of credit / send capacity for now
                                    break 'steps;
                                }
                            }
                            Err(quiche::Error::Done) => {
                                w.opened = true;
                                self.seen[i] = true;
                                break 'steps;
                            }
                            Err(e) => {
                                self.log.lock().unwrap().dirs.get_mut(&w.k).unwrap().error = Some(format!("stream_send at {}: {e:?}", w.off));
                                w.done = true;
                                break 'steps;
                            }
                        }
                    }
                }
            }
            if w.opens && !w.opened {
                // could not even create it (no credit): later streams of the kind wait
                blocked_kind[w.bidi as usize] = true;
            }
        }
        wake
    }

    fn issue_scids(&mut self) {
        if !self.case.q.issue_scids || self.case.q.scid_len == 0 {
            return;
        }
        let len = self.case.q.scid_len as usize;
        loop {
            let Some(conn) = self.conn.as_ref() else { return };
            if !conn.is_established() || conn.is_closed() || conn.scids_left() == 0 {
                return;
            }
            let cid = self.cid(len);
            let token = vcore::hash_of(&(0x70ce_u64, self.case.seed, self.cid_counter)) as u128 | ((vcore::hash_of(&(0x70cf_u64, self.case.seed, self.cid_counter)) as u128) << 64);
            let cid = quiche::ConnectionId::from_vec(cid);
            match self.conn.as_mut().unwrap().new_scid(&cid, token, false) {
                Ok(_) => self.log.lock().unwrap().scids_issued += 1,
                Err(_) => return,
            }
        }
    }

    fn drain_send(&mut self, now: u64) {
        let Some(conn) = self.conn.as_mut() else { return };
        let mut out = vec![0u8; 65_535];
        loop {
            match conn.send(&mut out) {
                Ok((n, info)) => {
                    let wait = info.at.saturating_duration_since(Instant::now());
                    // pacing: never hold a datagram for longer than a second of virtual time
                    let due = now + (wait.as_micros() as u64).min(1_000_000);
                    self.outq.push_back((due, info.to, out[..n].to_vec()));
                }
                Err(quiche::Error::Done) => break,
                Err(e) => {
                    let mut l = self.log.lock().unwrap();
                    if l.send_errors.len() < 16 {
                        l.send_errors.push((now, format!("{e:?}")));
                    }
                    break;
                }
            }
        }
    }

    fn flush(&mut self, now: u64) {
        while let Some((due, _, _)) = self.outq.front() {
            if *due > now {
                break;
            }
            let (_, to, bytes) = self.outq.pop_front().unwrap();
            self.log.lock().unwrap().tx_datagrams += 1;
            let _ = self.socket.send_to(to, ExplicitCongestionNotification::NotEct, bytes);
        }
    }

    fn snapshot(&mut self) {
        let Some(conn) = self.conn.as_ref() else { return };
        let mut l = self.log.lock().unwrap();
        l.local_error = conn_err(conn.local_error());
        l.peer_error = conn_err(conn.peer_error());
        l.timed_out = conn.is_timed_out();
        l.closed = conn.is_closed();
        if l.established_us.is_none() && conn.is_established() {
            l.established_us = Some(now_us());
        }
        if l.peer_tp.is_none() {
            if let Some(p) = conn.peer_transport_params() {
                l.peer_tp = Some(PeerTp {
                    max_idle_timeout: p.max_idle_timeout,
                    max_udp_payload_size: p.max_udp_payload_size,
                    initial_max_data: p.initial_max_data,
                    bidi_local: p.initial_max_stream_data_bidi_local,
                    bidi_remote: p.initial_max_stream_data_bidi_remote,
                    uni: p.initial_max_stream_data_uni,
                    streams_bidi: p.initial_max_streams_bidi,
                    streams_uni: p.initial_max_streams_uni,
                    ack_delay_exponent: p.ack_delay_exponent,
                    max_ack_delay: p.max_ack_delay,
                    active_conn_id_limit: p.active_conn_id_limit,
                });
            }
        }
    }

    fn final_stats(&mut self) {
        let Some(conn) = self.conn.as_ref() else { return };
        let mut l = self.log.lock().unwrap();
        l.stats = format!("{:?}", conn.stats());
        l.path_stats = conn.path_stats().map(|p| format!("{p:?}")).collect::<Vec<_>>().join("; ");
    }

    fn q_work_done(&self) -> bool {
        self.writers.iter().all(|w| w.done) && self.readers.iter().all(|r| r.done)
    }
}

/// progress measure for the stall detector
fn progress_of(app: &App, log: &QShared) -> u64 {
    let a = app.borrow();
    let l = log.lock().unwrap();
    let s2n: u64 = a.dirs.values().map(|d| d.read + d.accepted).sum::<u64>() + a.finished_tasks as u64;
    let q: u64 = l.dirs.values().map(|d| d.read + d.written + d.fin_seen as u64 + d.fin_sent as u64).sum();
    s2n + q + l.established_us.is_some() as u64 + a.conns.iter().filter(|c| c.connect_end.is_some() || c.server_accepted_us.is_some()).count() as u64
}

pub struct PumpArgs {
    pub case: Case,
    pub socket: Socket,
    /// quiche as client: the s2n-quic server's address
    pub peer: Option<SocketAddr>,
    pub app: App,
    pub log: QShared,
    /// number of s2n-side stream tasks (one per direction)
    pub s2n_tasks: usize,
}

/// the primary task of a run
pub async fn pump(args: PumpArgs) {
    let PumpArgs { case, socket, peer, app, log, s2n_tasks } = args;
    let local = socket.local_addr().expect("socket address");
    let q_side = case.q_side();
    let ids = case.conn.ids();
    let mut writers = vec![];
    let mut readers = vec![];
    {
        let mut l = log.lock().unwrap();
        for (i, s) in case.conn.streams.iter().enumerate() {
            let id = ids[i];
            let q_initiates = s.initiator == q_side;
            // forward direction
            let fwd_total = s.fwd.total();
            l.dirs.insert((i, true), QDir { stream_id: id, q_writes: q_initiates, total: fwd_total, ..Default::default() });
            if q_initiates {
                writers.push(WriterSt { k: (i, true), id, key: payload_key(0, id, q_side), script: s.fwd.clone(), step: 0, in_step: 0, off: 0, wake_us: 0, opens: true, bidi: s.bidi, opened: false, done: false });
            } else {
                readers.push(ReaderSt { k: (i, true), id, key: payload_key(0, id, case.s2n_side()), script: s.fwd_reader.clone(), started: false, wake_us: 0, off: 0, done: false });
            }
            if let (Some(rev), Some(rev_reader)) = (&s.rev, &s.rev_reader) {
                l.dirs.insert((i, false), QDir { stream_id: id, q_writes: !q_initiates, total: rev.total(), ..Default::default() });
                if q_initiates {
                    readers.push(ReaderSt { k: (i, false), id, key: payload_key(0, id, case.s2n_side()), script: rev_reader.clone(), started: false, wake_us: 0, off: 0, done: false });
                } else {
                    writers.push(WriterSt { k: (i, false), id, key: payload_key(0, id, q_side), script: rev.clone(), step: 0, in_step: 0, off: 0, wake_us: 0, opens: false, bidi: true, opened: false, done: false });
                }
            }
        }
    }
    let config = quiche_config(&case);
    let n = ids.len();
    let mut p = Pump { case, socket, local, conn: None, config, log: log.clone(), writers, readers, ids, seen: vec![false; n], outq: VecDeque::new(), cid_counter: 0, buf: vec![0u8; 100_000] };

    p.set_clock();
    if let Some(peer) = peer {
        let len = p.case.q.scid_len as usize;
        let scid = p.cid(len);
        let scid = quiche::ConnectionId::from_vec(scid);
        let conn = quiche::connect(Some("localhost"), &scid, local, peer, &mut p.config).expect("quiche::connect");
        p.conn = Some(conn);
        let mut l = log.lock().unwrap();
        l.created = true;
        l.scid_len = len;
    }

    let mut pending: Option<(SocketAddr, Vec<u8>)> = None;
    let mut last_progress = (progress_of(&app, &log), 0u64);
    let mut closing_until: Option<u64> = None;
    let linger_us = 6 * p.case.net.delay_us as u64 + 50_000;
    loop {
        let now = p.set_clock();
        p.log.lock().unwrap().iterations += 1;
        p.flush(now);
        if let Some((from, payload)) = pending.take() {
            p.on_datagram(from, payload);
        }
        while let Ok(Some((from, _ecn, payload))) = p.socket.try_recv_from() {
            p.on_datagram(from, payload);
        }
        if let Some(conn) = p.conn.as_mut() {
            conn.on_timeout();
        }
        p.snapshot();
        let app_wake = if closing_until.is_none() { p.drive_app(now) } else { None };
        p.issue_scids();
        p.drain_send(now);
        p.flush(now);
        p.snapshot();

        // supervision
        let (s2n_done, s2n_failed): (bool, bool) = {
            let a = app.borrow();
            let failed = a.conns.iter().any(|c| matches!(c.connect_end, Some((Err(_), _))));
            (a.finished_tasks >= s2n_tasks, failed)
        };
        let q_closed = p.conn.as_ref().map(|c| c.is_closed()).unwrap_or(false);
        let mut end = End::Running;
        if let Some(until) = closing_until {
            if now >= until || q_closed {
                end = End::Done;
            }
        } else if s2n_done && p.q_work_done() && !q_closed {
            // close phase: the client closes with application code 0
            p.log.lock().unwrap().close_started_us = Some(now);
            if p.case.s2n_client {
                let h = app.borrow().handles.first().cloned().flatten();
                if let Some(h) = h {
                    h.close(0u32.into());
                }
            } else if let Some(conn) = p.conn.as_mut() {
                let _ = conn.close(true, 0, b"done");
                p.drain_send(now);
                p.flush(now);
            }
            closing_until = Some(now + linger_us);
        } else if q_closed {
            end = End::QuicheClosed;
        } else if s2n_failed && now > last_progress.1 + 10_000_000 {
            // connect() failed: nothing will ever start on the s2n-quic side
            end = End::S2nEnded;
        }
        if end == End::Running && closing_until.is_none() {
            let pr = progress_of(&app, &log);
            if pr != last_progress.0 {
                last_progress = (pr, now);
            } else if now >= last_progress.1 + STALL_MS * 1000 {
                end = End::Stalled;
            }
            if end == End::Running && now >= CAP_MS * 1000 {
                end = End::Capped;
            }
        }
        if end != End::Running {
            p.final_stats();
            let mut l = p.log.lock().unwrap();
            l.end = end;
            l.end_us = now;
            break;
        }

        // sleep until the next timer, script wake-up, paced datagram, or an arriving datagram
        // supervision granularity: fine while things move, coarse during long silences (probe timeout back-off)
        let mut wait_us: u64 = if now > last_progress.1 + 2_000_000 { 250_000 } else { 10_000 };
        if let Some(t) = p.conn.as_ref().and_then(|c| c.timeout()) {
            wait_us = wait_us.min((t.as_micros() as u64).max(1));
        }
        if let Some(t) = app_wake {
            wait_us = wait_us.min(t.saturating_sub(now).max(1));
        }
        if let Some((due, _, _)) = p.outq.front() {
            wait_us = wait_us.min(due.saturating_sub(now).max(1));
        }
        if let Some(until) = closing_until {
            wait_us = wait_us.min(until.saturating_sub(now).max(1));
        }
        let mut timer = delay(Duration::from_micros(wait_us));
        let socket = p.socket.clone();
        pending = futures::future::poll_fn(|cx| {
            if let Poll::Ready(r) = socket.poll_recv_from(cx) {
                return Poll::Ready(r.ok().map(|(from, _ecn, payload)| (from, payload)));
            }
            match Pin::new(&mut timer).poll(cx) {
                Poll::Ready(_) => Poll::Ready(None),
                Poll::Pending => Poll::Pending,
            }
        })
        .await;
    }
    // the connection (BoringSSL state) is dropped inside the case, while the virtual clock is on
    p.conn = None;
}
