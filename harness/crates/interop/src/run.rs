//! Executes one case: an s2n-quic endpoint (world's recorder and scripted application on it)
//! and the quiche pump on the same scripted network, on the deterministic executor.

use crate::{
    case::Case,
    clock,
    qpump::{self, PumpArgs, QLog, QShared},
};
use s2n_quic::{
    client::Connect,
    provider::{
        congestion_controller::{Bbr, Cubic},
        endpoint_limits::{ConnectionAttempt, Limiter, Outcome as LimitOutcome},
        io::testing::{primary, spawn, Executor, Handle, Io},
        tls::default as tls,
    },
    Client, Server,
};
use s2n_quic_core::crypto::tls::testing::certificates;
use std::{
    net::SocketAddr,
    sync::{Arc, Mutex},
};
use world::{
    app::{self, App, AppState, ConnLog},
    net::{now_us, NetRec, ScriptedNet},
    rec::{Rec, Recorder, Trace, TraceState},
    run::{limits_of, CidFormat, Rand},
    scenario::{Cc, EndpointCfg, Side},
};

pub struct Outcome {
    pub recs: Vec<Rec>,
    pub net: Vec<NetRec>,
    pub app: AppState,
    pub q: QLog,
    pub end_us: u64,
    pub s2n_addr: SocketAddr,
    pub q_addr: SocketAddr,
    /// readings of the monotonic clock served from the virtual clock during this run
    pub clock_reads: u64,
}

/// always asks for address validation (the endpoint only consults it for Initials without a token)
struct AlwaysRetry;

impl Limiter for AlwaysRetry {
    fn on_connection_attempt(&mut self, _info: &ConnectionAttempt) -> LimitOutcome {
        LimitOutcome::retry()
    }
}

struct NeverRetry;

impl Limiter for NeverRetry {
    fn on_connection_attempt(&mut self, _info: &ConnectionAttempt) -> LimitOutcome {
        LimitOutcome::allow()
    }
}

fn io_of(handle: &Handle, cfg: &EndpointCfg) -> Io {
    let (base, initial, max) = cfg.mtu;
    handle.builder().with_max_mtu(max).with_base_mtu(base).with_initial_mtu(initial).build().unwrap()
}

fn start_server(handle: &Handle, case: &Case, seed: u64, rec: Recorder) -> Server {
    let cfg = &case.s2n;
    let (cert, key) = if case.rsa_cert { (certificates::CERT_PKCS1_PEM, certificates::KEY_PKCS1_PEM) } else { (certificates::CERT_PEM, certificates::KEY_PEM) };
    let tls = tls::Server::builder().with_certificate(cert, key).unwrap().build().unwrap();
    let b = Server::builder()
        .with_io(io_of(handle, cfg))
        .unwrap()
        .with_tls(tls)
        .unwrap()
        .with_event(rec.clone())
        .unwrap()
        .with_random(Rand::new(seed))
        .unwrap()
        .with_connection_id(CidFormat::new(seed, 16, None, true))
        .unwrap()
        .with_packet_interceptor(rec)
        .unwrap()
        .with_limits(limits_of(&cfg.limits))
        .unwrap();
    macro_rules! finish {
        ($b:expr) => {
            match cfg.cc {
                Cc::Cubic => $b.with_congestion_controller(Cubic::default()).unwrap().start().unwrap(),
                Cc::Bbr => $b.with_congestion_controller(Bbr::default()).unwrap().start().unwrap(),
            }
        };
    }
    if case.s2n_retry {
        finish!(b.with_endpoint_limits(AlwaysRetry).unwrap())
    } else {
        finish!(b.with_endpoint_limits(NeverRetry).unwrap())
    }
}

fn start_client(handle: &Handle, case: &Case, seed: u64, rec: Recorder) -> Client {
    let cfg = &case.s2n;
    let cert = if case.rsa_cert { certificates::CERT_PKCS1_PEM } else { certificates::CERT_PEM };
    let b = Client::builder()
        .with_io(io_of(handle, cfg))
        .unwrap()
        .with_tls(cert)
        .unwrap()
        .with_event(rec.clone())
        .unwrap()
        .with_random(Rand::new(seed))
        .unwrap()
        .with_connection_id(CidFormat::new(seed, 16, None, true))
        .unwrap()
        .with_packet_interceptor(rec)
        .unwrap()
        .with_limits(limits_of(&cfg.limits))
        .unwrap();
    match cfg.cc {
        Cc::Cubic => b.with_congestion_controller(Cubic::default()).unwrap().start().unwrap(),
        Cc::Bbr => b.with_congestion_controller(Bbr::default()).unwrap().start().unwrap(),
    }
}

pub fn run(case: &Case) -> Outcome {
    match case.key_update_after {
        Some(n) => std::env::set_var("S2N_QUIC_VERIF_KEY_UPDATE_AFTER", n.max(2).to_string()),
        None => std::env::remove_var("S2N_QUIC_VERIF_KEY_UPDATE_AFTER"),
    }
    let _clock = clock::Guard::new();
    let reads0 = clock::served();
    let (net, net_shared) = ScriptedNet::new(case.net.clone());
    let trace: Trace = Arc::new(Mutex::new(TraceState::default()));
    let app = App::default();
    let qlog: QShared = Arc::new(Mutex::new(QLog::default()));
    let addrs: Arc<Mutex<(Option<SocketAddr>, Option<SocketAddr>)>> = Default::default();

    let mut executor = Executor::new(net, case.seed);
    let handle = executor.handle().clone();
    {
        let case = case.clone();
        let app = app.clone();
        let trace = trace.clone();
        let net_shared = net_shared.clone();
        let qlog = qlog.clone();
        let addrs = addrs.clone();
        executor.enter(move || {
            app::register(&app, 0, &case.conn);
            app.borrow_mut().conns = vec![ConnLog::default()];
            app.borrow_mut().handles = vec![None];
            let s2n_tasks = app.borrow().dirs.len();
            let script = case.conn.clone();

            // the raw socket of the independent stack: big enough for every datagram it may send
            let q_socket = |handle: &Handle| handle.builder().with_max_mtu(9_400).build().unwrap().socket();

            if case.s2n_client {
                // quiche is the server: its address is the one the tape calls "server"
                let socket = q_socket(&handle);
                let q_addr = socket.local_addr().unwrap();
                net_shared.lock().unwrap().server_addr = Some(q_addr);
                let client = start_client(&handle, &case, case.seed ^ 0xc1, Recorder { ep: 1, trace: trace.clone() });
                let s2n_addr = client.local_addr().unwrap();
                trace.lock().unwrap().addr_client.insert(s2n_addr, 0);
                *addrs.lock().unwrap() = (Some(s2n_addr), Some(q_addr));
                {
                    let app = app.clone();
                    spawn(async move {
                        let connect = Connect::new(q_addr).with_server_name("localhost");
                        match client.connect(connect).await {
                            Ok(conn) => {
                                app.borrow_mut().conns[0].connect_end = Some((Ok(()), now_us()));
                                app::drive_connection(app.clone(), 0, Side::Client, script, conn);
                            }
                            Err(e) => {
                                let mut a = app.borrow_mut();
                                a.conns[0].connect_end = Some((Err(format!("{e:?}").chars().take(300).collect()), now_us()));
                            }
                        }
                        app.borrow_mut().keep.push(Box::new(client));
                    });
                }
                primary::spawn(qpump::pump(PumpArgs { case: case.clone(), socket, peer: None, app: app.clone(), log: qlog.clone(), s2n_tasks }));
            } else {
                let mut server = start_server(&handle, &case, case.seed ^ 0x5e, Recorder { ep: 0, trace: trace.clone() });
                let s2n_addr = server.local_addr().unwrap();
                net_shared.lock().unwrap().server_addr = Some(s2n_addr);
                let socket = q_socket(&handle);
                let q_addr = socket.local_addr().unwrap();
                trace.lock().unwrap().addr_client.insert(q_addr, 0);
                *addrs.lock().unwrap() = (Some(s2n_addr), Some(q_addr));
                {
                    let app = app.clone();
                    spawn(async move {
                        let mut first = true;
                        while let Some(conn) = server.accept().await {
                            if !first {
                                // a second connection from the one client: never expected
                                app.borrow_mut().violations.push(("second-connection".into(), "the s2n-quic server accepted a second connection from the single quiche client".into()));
                                continue;
                            }
                            first = false;
                            app.borrow_mut().conns[0].server_accepted_us = Some(now_us());
                            // keep a handle for diagnostics (the quiche client closes)
                            app::drive_connection(app.clone(), 0, Side::Server, script.clone(), conn);
                        }
                    });
                }
                primary::spawn(qpump::pump(PumpArgs { case: case.clone(), socket, peer: Some(s2n_addr), app: app.clone(), log: qlog.clone(), s2n_tasks }));
            }
        });
    }

    let result = std::panic::catch_unwind(std::panic::AssertUnwindSafe(|| executor.run()));
    if let Err(p) = result {
        // the executor's state is unknown after a panic inside a task: do not run its Drop
        std::mem::forget(executor);
        drop(_clock);
        std::panic::resume_unwind(p);
    }
    let end_us = executor.enter(now_us);
    drop(executor);

    let recs = std::mem::take(&mut trace.lock().unwrap().recs);
    let net = std::mem::take(&mut net_shared.lock().unwrap().log);
    let app = std::mem::take(&mut *app.borrow_mut());
    let q = std::mem::take(&mut *qlog.lock().unwrap());
    let (s2n_addr, q_addr) = {
        let a = addrs.lock().unwrap();
        (a.0.unwrap(), a.1.unwrap())
    };
    Outcome { recs, net, app, q, end_us, s2n_addr, q_addr, clock_reads: clock::served() - reads0 }
}
